package main

import (
	"fmt"
	"strings"

	"github.com/jsightapi/jsight-schema-go-library/fs"
	"github.com/jsightapi/jsight-schema-go-library/kit"
	"github.com/jsightapi/jsight-schema-go-library/notations/jschema"
	"github.com/jsightapi/jsight-schema-go-library/notations/regex"
	"github.com/jsightapi/jsight-schema-go-library/rules/enum"

	"github.com/jsightapi/jsight-api-go-library/catalog"
	"github.com/jsightapi/jsight-api-go-library/scanner"
)

// lexStream runs the public scanner API over content and renders the lexeme stream:
// "kind:begin:end,...|eof" / "...|err:<index>" / "...|panic"
func lexStream(content []byte) (out string) {
	var sb strings.Builder
	first := true
	defer func() {
		if r := recover(); r != nil {
			out = sb.String() + "|panic"
		}
	}()
	s := scanner.NewJApiScanner(fs.NewFile("f", content))
	for {
		lex, je := s.Next()
		if je != nil {
			return sb.String() + fmt.Sprintf("|err:%d", je.Index())
		}
		if lex == nil {
			return sb.String() + "|eof"
		}
		if !first {
			sb.WriteByte(',')
		}
		first = false
		fmt.Fprintf(&sb, "%d:%d:%d", int(lex.Type()), lex.Begin(), lex.End())
	}
}

func libLen(kind string, content []byte) (out string) {
	defer func() {
		if r := recover(); r != nil {
			out = "panic"
		}
	}()
	file := fs.NewFile("", content)
	var l uint
	var err error
	if kind == "schema" {
		l, err = jschema.FromFile(file).Len()
	} else if kind == "regex" {
		l, err = regex.FromFile(file).Len()
	} else {
		l, err = enum.FromFile(file).Len()
	}
	if err != nil {
		e := kit.ConvertError(file, err)
		return fmt.Sprintf("err %d", e.Position())
	}
	return fmt.Sprintf("ok %d", l)
}

// pathProps: the property names of a flat object schema (what a Path body declares), via the
// schema library only
func pathProps(body []byte) (out string) {
	defer func() {
		if r := recover(); r != nil {
			out = "err"
		}
	}()
	s, err := catalog.UnmarshalJSightSchema("", body, &catalog.UserSchemas{}, nil)
	if err != nil && !strings.Contains(string(body), "allOf") {
		// (a body that inherits properties through allOf is the library's to decide: its names are not all in the text)
		// the body may name user types and enum rules the oracle does not have; the NAMES of the properties do not depend
		// on them: annotations are dropped and type references replaced by a literal before a second try
		s, err = catalog.UnmarshalJSightSchema("", withoutReferences(body), &catalog.UserSchemas{}, nil)
	}
	if err != nil || s.ContentJSight == nil || s.ContentJSight.TokenType != "object" {
		return "err"
	}
	keys := make([]string, 0, len(s.ContentJSight.Children))
	for _, c := range s.ContentJSight.Children {
		if c.Key == nil || c.TokenType == "object" || c.TokenType == "array" {
			return "err"
		}
		keys = append(keys, hxs(*c.Key))
	}
	if len(keys) == 0 {
		return "err"
	}
	return "ok " + strings.Join(keys, ",")
}

// withoutReferences removes "// ..." annotations and replaces @name values by 1, outside string literals.
func withoutReferences(b []byte) []byte {
	out := make([]byte, 0, len(b))
	inStr := false
	for i := 0; i < len(b); i++ {
		c := b[i]
		switch {
		case inStr:
			out = append(out, c)
			if c == '\\' && i+1 < len(b) {
				i++
				out = append(out, b[i])
			} else if c == '"' {
				inStr = false
			}
		case c == '"':
			inStr = true
			out = append(out, c)
		case c == '/' && i+1 < len(b) && b[i+1] == '/':
			for i < len(b) && b[i] != '\n' && b[i] != '\r' {
				i++
			}
			i--
		case c == '@':
			for i+1 < len(b) && (b[i+1] == '_' || b[i+1] == '-' || b[i+1] >= '0' && b[i+1] <= '9' || b[i+1] >= 'a' && b[i+1] <= 'z' || b[i+1] >= 'A' && b[i+1] <= 'Z') {
				i++
			}
			out = append(out, '1')
		default:
			out = append(out, c)
		}
	}
	return out
}

// libAlone runs the schema library ALONE on one body (no repository code): load, check, use as a type of another schema,
// example.  It returns the first error text that is a Go runtime fault ("runtime error: ..."), or "-".
func libAlone(body []byte) (out string) {
	defer func() {
		if r := recover(); r != nil {
			out = fmt.Sprint(r)
		}
	}()
	fault := func(err error) string {
		if err != nil && strings.Contains(err.Error(), "runtime error") {
			return err.Error()
		}
		return ""
	}
	s := jschema.New("@probe", body)
	if _, err := s.UsedUserTypes(); fault(err) != "" {
		return fault(err)
	}
	if f := fault(s.Check()); f != "" {
		return f
	}
	o := jschema.New("@other", "{}")
	if f := fault(o.AddType("@probe", s)); f != "" {
		return f
	}
	if f := fault(o.Check()); f != "" {
		return f
	}
	if _, err := s.Example(); fault(err) != "" {
		return fault(err)
	}
	return "-"
}

func init() {
	fnExtra["libalone"] = func(a []string) string { return hxs(libAlone(unhex(a[0]))) }
	fnExtra["lex"] = func(a []string) string { return lexStream(unhex(a[0])) }
	// the schema-library oracle used by the model runner (never calls repository code)
	commands["oracle"] = func([]string) {
		flushEach = true
		stdinLines(func(line string) string {
			parts := strings.Split(line, " ")
			if len(parts) != 2 {
				return "bad-request"
			}
			if parts[0] == "props" {
				return pathProps(unhex(parts[1]))
			}
			return libLen(parts[0], unhex(parts[1]))
		})
	}
}
