// Correspondence harness: runs the implementation (/repo, built with -tags verif)
// on the same inputs as the extracted Coq model and prints one canonical result
// line per input line.
package main

import (
	"bufio"
	"fmt"
	"os"
)

func main() {
	if len(os.Args) < 2 {
		fmt.Fprintln(os.Stderr, "usage: harness <fn|lex|run|...>")
		os.Exit(2)
	}
	switch os.Args[1] {
	case "fn":
		cmdFn()
	default:
		if f, ok := commands[os.Args[1]]; ok {
			f(os.Args[2:])
			return
		}
		fmt.Fprintln(os.Stderr, "unknown subcommand", os.Args[1])
		os.Exit(2)
	}
}

var commands = map[string]func([]string){}

// flushEach makes stdinLines flush after every line (interactive use: the oracle server)
var flushEach = false

func stdinLines(f func(line string) string) {
	sc := bufio.NewScanner(os.Stdin)
	sc.Buffer(make([]byte, 1<<20), 1<<28)
	w := bufio.NewWriterSize(os.Stdout, 1<<20)
	defer w.Flush()
	for sc.Scan() {
		w.WriteString(f(sc.Text()))
		w.WriteByte('\n')
		if flushEach {
			w.Flush()
		}
	}
}
