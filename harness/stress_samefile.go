package main

// Stage "samefile": ONE in-memory document (one *fs.File, one byte slice) is processed by many goroutines at once, the way a
// server does that keeps an uploaded text and validates it for several requests.  Every result must be the result obtained
// alone, and the bytes of the document must be what they were: processing may not write into its input.

import (
	"bytes"
	"fmt"
	"os"
	"sync"
	"sync/atomic"
	"time"

	"github.com/jsightapi/jsight-schema-go-library/fs"

	"github.com/jsightapi/jsight-api-go-library/core"
	"github.com/jsightapi/jsight-api-go-library/kit"
)

var sameFileDocs = []string{
	"JSIGHT 0.3\nINFO\n  Title \"The \\\"Cats\\\" API\"\n  Version \"1.0\\\\beta\"\nSERVER @s\n  BaseUrl \"https://x.y/\\\\z\"\nGET \"/cats/{id}\" // \"one\" cat\n  Query \"a=\\\"1\\\"\"\n    {}\n  200 any\n" +
		"URL \"/r\"\n  Protocol \"json-rpc-2.0\"\n  Method \"say \\\"hi\\\"\"\n    Params\n      {}\n  Method \"dir\\\\name\"\n    Result\n      {}\n",
	"JSIGHT 0.3\nTAG \"@t\" // \"quoted \\ title\"\nGET \"/a\"\n  Tags \"@t\"\n  200 \"any\"\nPOST \"/a\"\n  Request \"any\"\n  200 \"empty\"\n",
	// regular-expression types and bodies: their examples come from a generator per schema; the same patterns in every goroutine
	"JSIGHT 0.3\nTYPE @code regex\n  /[a-z]{5}-[0-9]{3}/\nTYPE @word regex\n  /(foo|bar|baz){2,4}[A-Z]+/\nGET /r\n  200 @code\nPOST /r\n  Request regex\n    /[0-9a-f]{8}-[0-9a-f]{4}/\n  200 regex\n    /(yes|no|maybe)+/\nPUT /r\n  Request @word\n  200 any\n",
	// a description with CRLF line ends in a macro pasted twice, enums, a Path
	"JSIGHT 0.3\r\nMACRO @d\r\n(\r\n  Description\r\n    first line\r\n    second line\r\n\r\n    third\r\n)\r\nENUM @e\r\n  [\"a\", \"b\"]\r\nURL /p/{id}\r\n  Path\r\n    {\r\n      \"id\": \"a\" // {enum: @e}\r\n    }\r\n  GET\r\n    PASTE @d\r\n    200 any\r\n  POST\r\n    PASTE @d\r\n    200 any\r\n",
}

func runFile(f *fs.File) (out []byte, ok bool) {
	defer func() {
		if r := recover(); r != nil {
			out, ok = []byte(fmt.Sprint("panic: ", r)), false
		}
	}()
	j := kit.NewJApiFromFile(f, core.WithFixedSeedForRegex())
	if je := j.ValidateJAPI(); je != nil {
		return []byte("rejected: " + je.Error()), false
	}
	b, err := j.ToJson()
	if err != nil {
		return []byte("json error: " + err.Error()), false
	}
	return b, true
}

func stressSameFile(rep *stressReport, files []fixture, n int, dur time.Duration) map[string]any {
	type doc struct {
		name string
		orig []byte
		f    *fs.File
		solo []byte
	}
	var docs []*doc
	for i, s := range sameFileDocs {
		docs = append(docs, &doc{name: fmt.Sprintf("samefile-builtin-%d", i), orig: []byte(s)})
	}
	for i, fx := range files {
		if i >= 6 {
			break
		}
		if b, err := os.ReadFile(fx.path); err == nil && !bytes.Contains(b, []byte("INCLUDE")) {
			docs = append(docs, &doc{name: fx.path, orig: b})
		}
	}
	var runs int64
	for _, d := range docs {
		// the solo result is taken on a private copy of the text
		solo, ok := runFile(fs.NewFile("same.jst", append([]byte(nil), d.orig...)))
		if !ok {
			rep.violate("samefile", "document is not accepted alone: "+string(solo), d.name)
			continue
		}
		d.solo = solo
		d.f = fs.NewFile("same.jst", append([]byte(nil), d.orig...))
	}
	per := dur / time.Duration(len(docs)+1)
	for _, d := range docs {
		if d.f == nil {
			continue
		}
		d := d
		deadline := time.Now().Add(per)
		var wg sync.WaitGroup
		var once sync.Once
		for g := 0; g < n; g++ {
			wg.Add(1)
			go func() {
				defer wg.Done()
				first := true
				for first || time.Now().Before(deadline) {
					first = false
					got, ok := runFile(d.f)
					atomic.AddInt64(&runs, 1)
					if !ok || !bytes.Equal(got, d.solo) {
						if ok && knownExampleOnly(got, d.solo) {
							continue
						}
						once.Do(func() {
							what := "result of a document processed by several goroutines from ONE fs.File differs from its result alone"
							if !ok {
								what = "a document accepted alone fails when several goroutines process the same fs.File: " + string(got)
							}
							rep.violate("samefile", what, d.name)
						})
					}
				}
			}()
		}
		wg.Wait()
		if !bytes.Equal([]byte(d.f.Content()), d.orig) {
			i := firstDiff([]byte(d.f.Content()), d.orig)
			rep.violate("samefile", fmt.Sprintf("the library wrote into the text it was given (byte %d): now ...%s... was ...%s...", i, around([]byte(d.f.Content()), i), around(d.orig, i)), d.name)
		}
		// and once more afterwards, alone
		if got, ok := runFile(d.f); !ok || !(bytes.Equal(got, d.solo) || knownExampleOnly(got, d.solo)) {
			rep.violate("samefile", "the same fs.File processed again AFTER the concurrent runs no longer gives its result", d.name)
		}
	}
	// different documents at the same time: texts that every project normalises on its way (annotations and schema notes with
	// tabs and runs of blanks, descriptions with CR LF, quoted parameters with escapes) may not leak from one project into another
	mixed := make([]*doc, 0, 12)
	for i := 0; i < 12; i++ {
		t := fmt.Sprintf("JSIGHT 0.3\nINFO\n  Title \"project \\\"%02d\\\"\"\n  Description\r\n    text of   project %02d\r\n    second\tline %02d\r\nTAG @t%02d //   tag\tof   %02d  \n"+
			"GET /p%02d // project-%02d\t get   %02d for  all\n  Tags @t%02d\n  200 // answer\t%02d   x\n    {\n      \"k\": %d // note   of\t%02d  here\n    }\n", i, i, i, i, i, i, i, i, i, i, i, i)
		d := &doc{name: fmt.Sprintf("samefile-mixed-%02d", i), orig: []byte(t)}
		solo, ok := runFile(fs.NewFile("mixed.jst", append([]byte(nil), d.orig...)))
		if !ok {
			rep.violate("samefile", "document is not accepted alone: "+string(solo), d.name)
			continue
		}
		d.solo = solo
		mixed = append(mixed, d)
	}
	var mruns int64
	if len(mixed) > 1 {
		deadline := time.Now().Add(per)
		var wg sync.WaitGroup
		var once sync.Once
		for g := 0; g < n; g++ {
			g := g
			wg.Add(1)
			go func() {
				defer wg.Done()
				for i := 0; i == 0 || time.Now().Before(deadline); i++ {
					d := mixed[(g*5+i)%len(mixed)]
					got, ok := runFile(fs.NewFile("mixed.jst", append([]byte(nil), d.orig...)))
					atomic.AddInt64(&mruns, 1)
					if !ok || !(bytes.Equal(got, d.solo) || knownExampleOnly(got, d.solo)) {
						once.Do(func() {
							at := 0
							if ok {
								at = firstDiff(got, d.solo)
							}
							rep.violate("samefile", fmt.Sprintf("a document processed while OTHER documents are processed does not give its result alone (byte %d): ...%s... alone ...%s...", at, around(got, at), around(d.solo, at)), d.name)
						})
					}
				}
			}()
		}
		wg.Wait()
	}
	return map[string]any{"documents": len(docs), "runs": runs, "goroutines": n, "mixed_documents": len(mixed), "mixed_runs": mruns}
}
