package main

// C09, JSON text level: how a key of the catalog's ordered maps is written.  Compared with the Gallina
// model coq/model/JsonString.v (json_quote, valid_utf8, json_unquote) by verifsys/checks/c09.py
// stage_json_keys.
//
//	jsonkey <bytes>      the standard library alone:
//	                     "<hex of json.Marshal(string(bytes))> <utf8.Valid: 1|0> <hex of the string
//	                     json.Unmarshal reads back from that text, or ! when it fails>"
//	decoderune <bytes>   "<rune> <width>" of utf8.DecodeRuneInString
//	jsonkeycat <bytes>   the library's own marshalling path: a catalog.NewCatalog() whose Servers,
//	                     UserTypes, UserEnums, Tags and Interactions each hold ONE entry with the key
//	                     string(bytes) (string keys, the TagName key with the library's MarshalText, an
//	                     InteractionID whose MarshalText returns the bytes), serialised with
//	                     Catalog.ToJson and Catalog.ToJsonIndent (json.Marshal(data) -> the generated
//	                     MarshalJSON of each map -> json.Marshal(k) -> appendCompact).  Prints
//	                     "ok <servers> <userTypes> <userEnums> <tags> <interactions>" with the RAW text of
//	                     the key (hex) as it stands in the compact JSON, and fails with "indent-differs"
//	                     when the indented form holds a different key text.
//	jsonkeyproj <doc>    a whole project (one file): core.NewJApiCore + ValidateJAPI; for every entry of
//	                     the five maps of the resulting catalog "<map letter>:<hex of the Go key string>:<hex
//	                     of the raw key text in ToJson>"; "rejected" when the document is not accepted.
//	                     For an interaction the Go key string is InteractionID.String() of the library's
//	                     own id types.
//
// The raw key texts are cut out of the JSON by a small reader of its own (rawMembers), not by
// encoding/json, so that nothing is decoded on the way.

import (
	"encoding/json"
	"fmt"
	"strings"
	"unicode/utf8"

	"github.com/jsightapi/jsight-schema-go-library/fs"

	"github.com/jsightapi/jsight-api-go-library/catalog"
	"github.com/jsightapi/jsight-api-go-library/core"
)

// ---- a raw reader: member names and value spans of one JSON object, nothing decoded ----

type rawMember struct {
	key        string // with its quotes
	vbeg, vend int
}

func rawWS(b []byte, i int) int {
	for i < len(b) && (b[i] == ' ' || b[i] == '\n' || b[i] == '\t' || b[i] == '\r') {
		i++
	}
	return i
}

// rawString: b[i] == '"'; returns the index after the closing quote
func rawString(b []byte, i int) int {
	if i >= len(b) || b[i] != '"' {
		panic(fmt.Sprintf("raw reader: string expected at %d", i))
	}
	i++
	for i < len(b) {
		switch b[i] {
		case '"':
			return i + 1
		case '\\':
			i += 2
		default:
			i++
		}
	}
	panic("raw reader: unterminated string")
}

func rawValue(b []byte, i int) int {
	i = rawWS(b, i)
	if i >= len(b) {
		panic("raw reader: value expected")
	}
	switch b[i] {
	case '"':
		return rawString(b, i)
	case '{':
		_, e := rawMembers(b, i)
		return e
	case '[':
		i = rawWS(b, i+1)
		if b[i] == ']' {
			return i + 1
		}
		for {
			i = rawWS(b, rawValue(b, i))
			if b[i] == ']' {
				return i + 1
			}
			if b[i] != ',' {
				panic(fmt.Sprintf("raw reader: ',' expected at %d", i))
			}
			i++
		}
	default:
		for i < len(b) && !strings.ContainsRune(",]} \n\t\r", rune(b[i])) {
			i++
		}
		return i
	}
}

// rawMembers: b[i] == '{'
func rawMembers(b []byte, i int) ([]rawMember, int) {
	if b[i] != '{' {
		panic(fmt.Sprintf("raw reader: '{' expected at %d", i))
	}
	var mm []rawMember
	i = rawWS(b, i+1)
	if b[i] == '}' {
		return mm, i + 1
	}
	for {
		i = rawWS(b, i)
		e := rawString(b, i)
		k := string(b[i:e])
		i = rawWS(b, e)
		if b[i] != ':' {
			panic(fmt.Sprintf("raw reader: ':' expected at %d", i))
		}
		vb := rawWS(b, i+1)
		ve := rawValue(b, vb)
		mm = append(mm, rawMember{k, vb, ve})
		i = rawWS(b, ve)
		if b[i] == '}' {
			return mm, i + 1
		}
		if b[i] != ',' {
			panic(fmt.Sprintf("raw reader: ',' expected at %d", i))
		}
		i++
	}
}

// rawKeysOf: the raw member names of the object that is the value of the top-level member `name`
func rawKeysOf(b []byte, name string) []string {
	top, _ := rawMembers(b, rawWS(b, 0))
	for _, m := range top {
		if m.key == `"`+name+`"` {
			if b[m.vbeg] != '{' {
				return nil
			}
			inner, _ := rawMembers(b, m.vbeg)
			out := make([]string, 0, len(inner))
			for _, x := range inner {
				out = append(out, x.key)
			}
			return out
		}
	}
	return nil
}

// ---- an InteractionID of the harness: only the exported interface is needed ----

type rawID struct{ s string }

func (r rawID) Protocol() catalog.Protocol   { return catalog.Protocol("http") }
func (r rawID) Path() catalog.Path           { return catalog.Path("/") }
func (r rawID) String() string               { return r.s }
func (r rawID) MarshalText() ([]byte, error) { return []byte(r.s), nil }

var mapMembers = []struct{ letter, member string }{
	{"S", "servers"}, {"T", "userTypes"}, {"E", "userEnums"}, {"G", "tags"}, {"I", "interactions"},
}

func init() {
	fnExtra["jsonkey"] = func(a []string) string {
		s := string(unhex(a[0]))
		b, err := json.Marshal(s)
		if err != nil {
			return "marshal-error " + hxs(err.Error())
		}
		valid := "0"
		if utf8.ValidString(s) {
			valid = "1"
		}
		back := "!"
		var r string
		if err := json.Unmarshal(b, &r); err == nil {
			back = hxs(r)
		}
		return hx(b) + " " + valid + " " + back
	}

	fnExtra["decoderune"] = func(a []string) string {
		r, w := utf8.DecodeRuneInString(string(unhex(a[0])))
		return fmt.Sprintf("%d %d", r, w)
	}

	fnExtra["jsonkeycat"] = func(a []string) string {
		k := string(unhex(a[0]))
		c := catalog.NewCatalog()
		c.Servers.Set(k, &catalog.Server{BaseUrl: "u"})
		c.UserTypes.Set(k, nil)
		c.UserEnums.Set(k, nil)
		c.Tags.Set(catalog.TagName(k), nil)
		c.Interactions.Set(rawID{k}, nil)
		b, err := c.ToJson()
		if err != nil {
			return "jsonerr " + hxs(err.Error())
		}
		bi, err := c.ToJsonIndent()
		if err != nil {
			return "jsonerr " + hxs(err.Error())
		}
		out := []string{"ok"}
		for _, m := range mapMembers {
			kk, ki := rawKeysOf(b, m.member), rawKeysOf(bi, m.member)
			if len(kk) != 1 || len(ki) != 1 {
				return fmt.Sprintf("bad-shape %s %d %d", m.member, len(kk), len(ki))
			}
			if kk[0] != ki[0] {
				return "indent-differs " + m.member + " " + hxs(kk[0]) + " " + hxs(ki[0])
			}
			out = append(out, hxs(kk[0]))
		}
		return strings.Join(out, " ")
	}

	fnExtra["jsonkeyproj"] = func(a []string) string {
		j := core.NewJApiCore(fs.NewFile("a.jst", unhex(a[0])), core.WithFixedSeedForRegex())
		if je := j.ValidateJAPI(); je != nil {
			return "rejected"
		}
		c := j.Catalog()
		goKeys := map[string][]string{}
		_ = c.Servers.Each(func(k string, _ *catalog.Server) error { goKeys["S"] = append(goKeys["S"], k); return nil })
		_ = c.UserTypes.Each(func(k string, _ *catalog.UserType) error { goKeys["T"] = append(goKeys["T"], k); return nil })
		_ = c.UserEnums.Each(func(k string, _ *catalog.UserRule) error { goKeys["E"] = append(goKeys["E"], k); return nil })
		_ = c.Tags.Each(func(k catalog.TagName, _ *catalog.Tag) error { goKeys["G"] = append(goKeys["G"], string(k)); return nil })
		_ = c.Interactions.Each(func(k catalog.InteractionID, _ catalog.Interaction) error {
			goKeys["I"] = append(goKeys["I"], k.String())
			return nil
		})
		b, err := c.ToJson()
		if err != nil {
			return "jsonerr " + hxs(err.Error())
		}
		bi, err := c.ToJsonIndent()
		if err != nil {
			return "jsonerr " + hxs(err.Error())
		}
		out := []string{"ok"}
		for _, m := range mapMembers {
			kk, ki := rawKeysOf(b, m.member), rawKeysOf(bi, m.member)
			if len(kk) != len(goKeys[m.letter]) || len(ki) != len(kk) {
				return fmt.Sprintf("bad-shape %s go=%d json=%d indent=%d", m.member, len(goKeys[m.letter]), len(kk), len(ki))
			}
			for i := range kk {
				if kk[i] != ki[i] {
					return "indent-differs " + m.member + " " + hxs(kk[i]) + " " + hxs(ki[i])
				}
				out = append(out, m.letter+":"+hxs(goKeys[m.letter][i])+":"+hxs(kk[i]))
			}
		}
		return strings.Join(out, " ")
	}
}
