package main

// `harness validate [-repeat N] [-bg K -bgfile other.jst ...] file.jst ...`
//
// C03 (determinism): runs the whole public pipeline (kit.NewJapi, ValidateJAPI, ToJson) on each
// file and prints ONE line per (file, repetition):
//
//	ok <sha256 of ToJson>
//	err <index> <line> <hex of Error()> <hex of quote> <trace: path:line,path:line|->
//	jsonerr <hex of the ToJson error>
//	readerr <hex>            (kit.NewJapi itself failed)
//	panic <hex>
//
// Error() already contains the include trace; it is printed once more in structured form so
// that a difference in the trace alone is visible.  With -repeat N every file is processed N
// times in THIS process (N lines per file, files in argument order).  With -bg K, K goroutines
// keep processing the -bgfile documents (round robin) while the foreground work runs: "while
// other projects are being processed in the same process".  -dump prints the JSON itself (hex)
// instead of its hash.

import (
	"crypto/sha256"
	"encoding/hex"
	"flag"
	"fmt"
	"os"
	"strconv"
	"strings"
	"sync"
	"sync/atomic"

	"github.com/jsightapi/jsight-api-go-library/kit"
)

type strList []string

func (s *strList) String() string     { return strings.Join(*s, ",") }
func (s *strList) Set(v string) error { *s = append(*s, v); return nil }

func validateOnce(path string, dump bool) (out string) {
	defer func() {
		if r := recover(); r != nil {
			out = "panic " + hxs(fmt.Sprint(r))
		}
	}()
	j, err := kit.NewJapi(path)
	if err != nil {
		return "readerr " + hxs(err.Error())
	}
	if je := j.ValidateJAPI(); je != nil {
		paths, lines := je.VerifTrace()
		tr := make([]string, 0, len(paths))
		for i := range paths {
			tr = append(tr, paths[i]+":"+strconv.FormatUint(uint64(lines[i]), 10))
		}
		trs := "-"
		if len(tr) != 0 {
			trs = hxs(strings.Join(tr, ","))
		}
		return fmt.Sprintf("err %d %d %s %s %s", je.Index(), je.Line(), hxs(je.Error()), hxs(je.Quote()), trs)
	}
	b, err := j.ToJson()
	if err != nil {
		return "jsonerr " + hxs(err.Error())
	}
	if dump {
		return "ok " + hx(b)
	}
	sum := sha256.Sum256(b)
	return "ok " + hex.EncodeToString(sum[:])
}

func init() {
	commands["validate"] = func(args []string) {
		fs := flag.NewFlagSet("validate", flag.ExitOnError)
		repeat := fs.Int("repeat", 1, "process every file this many times in this process")
		bg := fs.Int("bg", 0, "number of background goroutines processing the -bgfile documents meanwhile")
		dump := fs.Bool("dump", false, "print the JSON (hex) instead of its sha256")
		var bgfiles strList
		fs.Var(&bgfiles, "bgfile", "document processed by the background goroutines (repeatable)")
		fs.Parse(args)

		var stop int32
		var wg sync.WaitGroup
		var bgRuns int64
		if *bg > 0 && len(bgfiles) > 0 {
			for g := 0; g < *bg; g++ {
				wg.Add(1)
				go func(g int) {
					defer wg.Done()
					for i := g; atomic.LoadInt32(&stop) == 0; i++ {
						validateOnce(bgfiles[i%len(bgfiles)], false)
						atomic.AddInt64(&bgRuns, 1)
					}
				}(g)
			}
		}
		for _, f := range fs.Args() {
			for i := 0; i < *repeat; i++ {
				fmt.Println(validateOnce(f, *dump))
			}
		}
		atomic.StoreInt32(&stop, 1)
		wg.Wait()
		if *bg > 0 {
			fmt.Fprintf(os.Stderr, "background runs: %d\n", atomic.LoadInt64(&bgRuns))
		}
	}
}
