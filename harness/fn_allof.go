package main

// C12, unit level: `allofunit <types> <uses>` builds a catalog BY HAND from the text encoding of
// coq/extract/cmds_allof.ml (user types only; <uses> must be "-"), runs the real
// (*JApiCore).ProcessAllOf on it and prints the canonical rendering of the model.  The schema
// library is not involved, so the error paths of inheritPropertiesFromUserType (override,
// non-object base, unknown base), diamonds and cycles — which a document cannot reach because
// the library rejects them first — are compared with the model too.
//
// Only exported API is used: core.NewJApiCore, (*JApiCore).Catalog, (*JApiCore).ProcessAllOf,
// catalog.UserTypes.Set, catalog.NewRules.

import (
	"fmt"
	"strings"

	"github.com/jsightapi/jsight-schema-go-library/fs"

	"github.com/jsightapi/jsight-api-go-library/catalog"
	"github.com/jsightapi/jsight-api-go-library/core"
	"github.com/jsightapi/jsight-api-go-library/directive"
	"github.com/jsightapi/jsight-api-go-library/notation"
)

type allofParser struct {
	s    string
	pos  int
	used []string // type names in the order the real parser would collect them (pre-order)
}

func (p *allofParser) peek() byte {
	if p.pos < len(p.s) {
		return p.s[p.pos]
	}
	return 0
}

func (p *allofParser) expect(c byte) {
	if p.peek() != c {
		panic(fmt.Sprintf("'%c' expected at %d in %q", c, p.pos, p.s))
	}
	p.pos++
}

func isNameChar(c byte) bool {
	return c >= 'a' && c <= 'z' || c >= 'A' && c <= 'Z' || c >= '0' && c <= '9' || c == '_' || c == '@'
}

func (p *allofParser) name() string {
	st := p.pos
	for p.pos < len(p.s) && isNameChar(p.s[p.pos]) {
		p.pos++
	}
	if st == p.pos {
		panic(fmt.Sprintf("name expected at %d in %q", st, p.s))
	}
	return p.s[st:p.pos]
}

func (p *allofParser) names() []string {
	if p.peek() != '<' {
		return nil
	}
	p.pos++
	out := []string{p.name()}
	for p.peek() == ',' {
		p.pos++
		out = append(out, p.name())
	}
	p.expect('>')
	p.used = append(p.used, out...)
	return out
}

func allOfRules(names []string) *catalog.Rules {
	if len(names) == 0 {
		return nil
	}
	if len(names) == 1 {
		return catalog.NewRules([]catalog.Rule{{Key: "allOf", TokenType: catalog.RuleTokenTypeReference, ScalarValue: names[0]}})
	}
	cc := make([]catalog.Rule, len(names))
	for i, n := range names {
		cc[i] = catalog.Rule{TokenType: catalog.RuleTokenTypeString, ScalarValue: n}
	}
	return catalog.NewRules([]catalog.Rule{{Key: "allOf", TokenType: catalog.RuleTokenTypeArray, Children: cc}})
}

func (p *allofParser) tree(key *string) *catalog.SchemaContentJSight {
	c := &catalog.SchemaContentJSight{Key: key}
	switch p.peek() {
	case 'o':
		p.pos++
		c.TokenType = "object"
		c.Rules = allOfRules(p.names())
		p.expect('{')
		if p.peek() != '}' {
			for {
				k := p.name()
				p.expect(':')
				c.Children = append(c.Children, p.tree(&k))
				if p.peek() != ',' {
					break
				}
				p.pos++
			}
		}
		p.expect('}')
	case 'a':
		p.pos++
		c.TokenType = "array"
		c.Rules = allOfRules(p.names())
		p.expect('[')
		if p.peek() != ']' {
			for {
				c.Children = append(c.Children, p.tree(nil))
				if p.peek() != ',' {
					break
				}
				p.pos++
			}
		}
		p.expect(']')
	case 's':
		p.pos++
		c.TokenType = "number"
		c.Rules = allOfRules(p.names())
	default:
		panic(fmt.Sprintf("tree expected at %d in %q", p.pos, p.s))
	}
	return c
}

// The hand-built catalogs may contain inheritance cycles through nested objects (the schema
// library rejects them in a document); ProcessAllOf then leaves a CYCLIC structure behind.  The
// rendering is depth-limited and prints "?" for such a schema, as the model does.
const allofMaxDepth = 200

type allofCyclic struct{}

func allofKid(c *catalog.SchemaContentJSight, depth int) string {
	k := ""
	if c.Key != nil {
		k = *c.Key
	}
	s := k + "<" + c.InheritedFrom + ">"
	switch c.TokenType {
	case "object":
		s += "{" + allofKids(c.Children, depth) + "}"
	case "array":
		s += "[" + allofKids(c.Children, depth) + "]"
	}
	return s
}

func allofKids(cc []*catalog.SchemaContentJSight, depth int) string {
	if depth > allofMaxDepth {
		panic(allofCyclic{})
	}
	out := make([]string, len(cc))
	for i, c := range cc {
		out[i] = allofKid(c, depth+1)
	}
	return strings.Join(out, ",")
}

func allofBody(c *catalog.SchemaContentJSight) (out string) {
	defer func() {
		if r := recover(); r != nil {
			if _, ok := r.(allofCyclic); ok {
				out = "?"
				return
			}
			panic(r)
		}
	}()
	switch c.TokenType {
	case "object":
		return "{" + allofKids(c.Children, 0) + "}"
	case "array":
		return "[" + allofKids(c.Children, 0) + "]"
	}
	return "s"
}

func allofUnit(a []string) (out string) {
	defer func() {
		if r := recover(); r != nil {
			out = "panic"
		}
	}()
	if len(a) > 1 && a[1] != "-" && a[1] != "" {
		return "unsupported: use sites"
	}
	f := fs.NewFile("unit.jst", "TYPE @x\n{}")
	c := core.NewJApiCore(f)
	cat := c.Catalog()
	var names []string
	if a[0] != "-" && a[0] != "" {
		for _, def := range strings.Split(a[0], ";") {
			n, body, ok := strings.Cut(def, "=")
			if !ok {
				return "bad-request"
			}
			d := directive.New(directive.Type, directive.NewCoords(f, 0, 3))
			d.BodyCoords = directive.NewCoords(f, 8, 9)
			ut := &catalog.UserType{Directive: *d}
			if body == "~" {
				ut.Schema = catalog.NewSchema(notation.SchemaNotationRegex)
			} else {
				ut.Schema = catalog.NewSchema(notation.SchemaNotationJSight)
				p := &allofParser{s: body}
				ut.Schema.ContentJSight = p.tree(nil)
				if p.pos != len(body) {
					return "bad-request"
				}
				for _, u := range p.used {
					ut.Schema.UsedUserTypes.Add(u)
				}
			}
			cat.UserTypes.Set(n, ut)
			names = append(names, n)
		}
	}
	if je := c.ProcessAllOf(); je != nil {
		m := je.Msg
		var x, y string
		switch {
		case scan(m, "the user type %q not found", &x):
			return "err notfound " + x
		case scan(m, "the user type %q is not an object", &x):
			return "err notobject " + x
		case scan(m, "it is not allowed to override the %q property from the user type %q", &x, &y):
			return "err override " + x + " " + y
		case m == "Internal Server Error":
			return "err internal"
		}
		return "err other " + hxs(m)
	}
	ts := make([]string, 0, len(names))
	used := make([]string, 0, len(names))
	for _, n := range names {
		ut, _ := cat.UserTypes.Get(n)
		if ut.Schema.Notation != notation.SchemaNotationJSight {
			ts = append(ts, n+":~")
			used = append(used, "-")
			continue
		}
		ts = append(ts, n+":"+allofBody(ut.Schema.ContentJSight))
		u := strings.Join(ut.Schema.UsedUserTypes.Data(), ",")
		if u == "" {
			u = "-"
		}
		used = append(used, u)
	}
	return "ok " + strings.Join(ts, ";") + "| used=" + strings.Join(used, ";")
}

func scan(s, format string, out ...*string) bool {
	args := make([]interface{}, len(out))
	for i := range out {
		args[i] = out[i]
	}
	n, err := fmt.Sscanf(s, format, args...)
	return err == nil && n == len(out)
}

func init() {
	fnExtra["allofunit"] = allofUnit
}
