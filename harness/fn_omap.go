package main

// C16 correspondence: the script language of coq/extract/cmds_omap.ml run on the REAL generated
// collections.  `omap <ops>` runs the script on catalog.Servers, catalog.Tags and
// directive.Directives (same template), catalog.UserRules and catalog.Interactions (five of the six instantiations) and prints the observable results;
// if the three disagree the line says so.  `oset <init> <ops>` runs on catalog.StringSet.

import (
	"bytes"
	"encoding/json"
	"errors"
	"fmt"
	"strconv"
	"strings"

	"github.com/jsightapi/jsight-api-go-library/catalog"
	"github.com/jsightapi/jsight-api-go-library/directive"
)

type orderedMap[K comparable, V any] interface {
	Set(K, V)
	SetToTop(K, V)
	Update(K, func(V) V)
	Get(K) (V, bool)
	GetValue(K) V
	Has(K) bool
	Len() int
	Each(func(K, V) error) error
	EachReverse(func(K, V) error) error
	EachSafe(func(K, V))
	Map(func(K, V) (V, error)) error
	MarshalJSON() ([]byte, error)
}

// adapter between the byte-string script and one instantiation
type omapInst[K comparable, V any] struct {
	m       orderedMap[K, V]
	key     func(string) K
	keyText func(K) string
	val     func(k, payload string) V
	payload func(V) string
	// payload of a value as it appears in the MarshalJSON output
	jsonPayload func(json.RawMessage) (string, error)
	// Find of the instantiation (its result type differs per instantiation)
	find func(func(K, V) bool) (K, V, bool)
}

var errStop = errors.New("stop")

func pairsText(kvs [][2]string) string {
	out := make([]string, len(kvs))
	for i, kv := range kvs {
		out[i] = hxs(kv[0]) + "=" + hxs(kv[1])
	}
	return "[" + strings.Join(out, "|") + "]"
}

// orderedJSONObject returns the members of a JSON object in the order they are written.
func orderedJSONObject(b []byte) ([]string, []json.RawMessage, error) {
	dec := json.NewDecoder(bytes.NewReader(b))
	tok, err := dec.Token()
	if err != nil {
		return nil, nil, err
	}
	if d, ok := tok.(json.Delim); !ok || d != '{' {
		return nil, nil, fmt.Errorf("not an object")
	}
	var keys []string
	var vals []json.RawMessage
	for dec.More() {
		tok, err := dec.Token()
		if err != nil {
			return nil, nil, err
		}
		k, ok := tok.(string)
		if !ok {
			return nil, nil, fmt.Errorf("key is not a string")
		}
		var raw json.RawMessage
		if err := dec.Decode(&raw); err != nil {
			return nil, nil, err
		}
		keys = append(keys, k)
		vals = append(vals, raw)
	}
	if _, err := dec.Token(); err != nil {
		return nil, nil, err
	}
	if dec.More() {
		return nil, nil, fmt.Errorf("trailing data")
	}
	return keys, vals, nil
}

func runOmapScript[K comparable, V any](in omapInst[K, V], script string) string {
	var out []string
	if script == "-" || script == "" {
		return ""
	}
	for _, op := range strings.Split(script, ",") {
		f := strings.Split(op, ":")
		arg := func(i int) string { return string(unhex(f[i])) }
		switch {
		case f[0] == "S" && len(f) == 3:
			in.m.Set(in.key(arg(1)), in.val(arg(1), arg(2)))
			out = append(out, ".")
		case f[0] == "T" && len(f) == 3:
			in.m.SetToTop(in.key(arg(1)), in.val(arg(1), arg(2)))
			out = append(out, ".")
		case f[0] == "U" && len(f) == 3:
			k, suffix := arg(1), arg(2)
			in.m.Update(in.key(k), func(v V) V { return in.val(k, in.payload(v)+suffix) })
			out = append(out, ".")
		case f[0] == "P" && len(f) == 2:
			suffix := arg(1)
			err := in.m.Map(func(k K, v V) (V, error) { return in.val(in.keyText(k), in.payload(v)+suffix), nil })
			out = append(out, strconv.FormatBool(err == nil))
		case f[0] == "F" && len(f) == 3:
			failAt, suffix := arg(1), arg(2)
			err := in.m.Map(func(k K, v V) (V, error) {
				if in.keyText(k) == failAt {
					var zero V
					return zero, errStop
				}
				return in.val(in.keyText(k), in.payload(v)+suffix), nil
			})
			out = append(out, strconv.FormatBool(err == nil))
		case f[0] == "G" && len(f) == 2:
			v, ok := in.m.Get(in.key(arg(1)))
			if ok {
				// GetValue must agree with Get
				if in.payload(in.m.GetValue(in.key(arg(1)))) != in.payload(v) {
					out = append(out, "getvalue-differs")
					break
				}
				out = append(out, "some:"+hxs(in.payload(v)))
			} else {
				out = append(out, "none")
			}
		case f[0] == "H" && len(f) == 2:
			out = append(out, strconv.FormatBool(in.m.Has(in.key(arg(1)))))
		case f[0] == "L" && len(f) == 1:
			out = append(out, strconv.Itoa(in.m.Len()))
		case f[0] == "E" && len(f) == 1:
			var kvs, kvs2 [][2]string
			_ = in.m.Each(func(k K, v V) error { kvs = append(kvs, [2]string{in.keyText(k), in.payload(v)}); return nil })
			in.m.EachSafe(func(k K, v V) { kvs2 = append(kvs2, [2]string{in.keyText(k), in.payload(v)}) })
			if pairsText(kvs) != pairsText(kvs2) {
				out = append(out, "eachsafe-differs")
				break
			}
			out = append(out, pairsText(kvs))
		case f[0] == "R" && len(f) == 1:
			var kvs [][2]string
			_ = in.m.EachReverse(func(k K, v V) error { kvs = append(kvs, [2]string{in.keyText(k), in.payload(v)}); return nil })
			out = append(out, pairsText(kvs))
		case (f[0] == "X" || f[0] == "Y" || f[0] == "W") && len(f) == 2:
			var kvs [][2]string
			at := arg(1)
			cb := func(k K, v V) error {
				kvs = append(kvs, [2]string{in.keyText(k), in.payload(v)})
				if (f[0] == "W" && in.payload(v) == at) || (f[0] != "W" && in.keyText(k) == at) {
					return errStop
				}
				return nil
			}
			var err error
			if f[0] == "Y" {
				err = in.m.EachReverse(cb)
			} else {
				err = in.m.Each(cb)
			}
			switch {
			case err == nil:
				out = append(out, "full:"+pairsText(kvs))
			case errors.Is(err, errStop):
				out = append(out, "stop:"+pairsText(kvs))
			default:
				out = append(out, "other-error:"+err.Error())
			}
		case (f[0] == "N" || f[0] == "V") && len(f) == 2:
			at := arg(1)
			k, v, ok := in.find(func(k K, v V) bool {
				if f[0] == "N" {
					return in.keyText(k) == at
				}
				return in.payload(v) == at
			})
			if ok {
				out = append(out, "found:"+hxs(in.keyText(k))+"="+hxs(in.payload(v)))
			} else {
				out = append(out, "notfound")
			}
		case f[0] == "M" && len(f) == 1:
			b, err := in.m.MarshalJSON()
			if err != nil {
				out = append(out, "marshal-error")
				break
			}
			if !json.Valid(b) {
				out = append(out, "marshal-invalid-json")
				break
			}
			keys, vals, err := orderedJSONObject(b)
			if err != nil {
				out = append(out, "marshal-unparsable")
				break
			}
			kvs := make([][2]string, len(keys))
			bad := false
			for i := range keys {
				p, err := in.jsonPayload(vals[i])
				if err != nil {
					bad = true
				}
				kvs[i] = [2]string{keys[i], p}
			}
			if bad {
				out = append(out, "marshal-value-unparsable")
				break
			}
			out = append(out, pairsText(kvs))
		default:
			return "bad-op " + op
		}
	}
	return strings.Join(out, ";")
}

func jsonField(name string) func(json.RawMessage) (string, error) {
	return func(raw json.RawMessage) (string, error) {
		var obj map[string]json.RawMessage
		if err := json.Unmarshal(raw, &obj); err != nil {
			return "", err
		}
		var s string
		if err := json.Unmarshal(obj[name], &s); err != nil {
			return "", err
		}
		return s, nil
	}
}

func newServersInst() omapInst[string, *catalog.Server] {
	m := &catalog.Servers{}
	return omapInst[string, *catalog.Server]{
		m: m,
		find: func(p func(string, *catalog.Server) bool) (string, *catalog.Server, bool) {
			it, ok := m.Find(p)
			return it.Key, it.Value, ok
		},
		key:         func(s string) string { return s },
		keyText:     func(s string) string { return s },
		val:         func(_, p string) *catalog.Server { return &catalog.Server{BaseUrl: p} },
		payload:     func(v *catalog.Server) string { return v.BaseUrl },
		jsonPayload: jsonField("baseUrl"),
	}
}

func newTagsInst() omapInst[catalog.TagName, *catalog.Tag] {
	m := &catalog.Tags{}
	return omapInst[catalog.TagName, *catalog.Tag]{
		m: m,
		find: func(p func(catalog.TagName, *catalog.Tag) bool) (catalog.TagName, *catalog.Tag, bool) {
			it, ok := m.Find(p)
			return it.Key, it.Value, ok
		},
		key:         func(s string) catalog.TagName { return catalog.TagName(s) },
		keyText:     func(k catalog.TagName) string { return string(k) },
		val:         func(k, p string) *catalog.Tag { return catalog.NewTag(k, p) },
		payload:     func(v *catalog.Tag) string { return v.Title },
		jsonPayload: jsonField("title"),
	}
}

func newDirectivesInst() omapInst[string, *directive.Directive] {
	m := &directive.Directives{}
	return omapInst[string, *directive.Directive]{
		m: m,
		find: func(p func(string, *directive.Directive) bool) (string, *directive.Directive, bool) {
			it, ok := m.Find(p)
			return it.Key, it.Value, ok
		},
		key:         func(s string) string { return s },
		keyText:     func(s string) string { return s },
		val:         func(_, p string) *directive.Directive { return &directive.Directive{Annotation: p} },
		payload:     func(v *directive.Directive) string { return v.Annotation },
		jsonPayload: jsonField("Annotation"),
	}
}

func newUserRulesInst() omapInst[string, *catalog.UserRule] {
	m := &catalog.UserRules{}
	return omapInst[string, *catalog.UserRule]{
		m: m,
		find: func(p func(string, *catalog.UserRule) bool) (string, *catalog.UserRule, bool) {
			it, ok := m.Find(p)
			return it.Key, it.Value, ok
		},
		key:         func(s string) string { return s },
		keyText:     func(s string) string { return s },
		val:         func(_, p string) *catalog.UserRule { return &catalog.UserRule{Annotation: p} },
		payload:     func(v *catalog.UserRule) string { return v.Annotation },
		jsonPayload: jsonField("annotation"),
	}
}

// a key type of the harness's own for catalog.Interactions (the library's key types have no exported constructor)
type scriptInteractionID string

func (s scriptInteractionID) Protocol() catalog.Protocol   { return catalog.HTTP }
func (s scriptInteractionID) Path() catalog.Path           { return catalog.Path("/" + string(s)) }
func (s scriptInteractionID) String() string               { return string(s) }
func (s scriptInteractionID) MarshalText() ([]byte, error) { return []byte(s), nil }

func newInteractionsInst() omapInst[catalog.InteractionID, catalog.Interaction] {
	m := &catalog.Interactions{}
	return omapInst[catalog.InteractionID, catalog.Interaction]{
		m: m,
		find: func(p func(catalog.InteractionID, catalog.Interaction) bool) (catalog.InteractionID, catalog.Interaction, bool) {
			it, ok := m.Find(p)
			return it.Key, it.Value, ok
		},
		key:     func(s string) catalog.InteractionID { return scriptInteractionID(s) },
		keyText: func(k catalog.InteractionID) string { return k.String() },
		val: func(_, p string) catalog.Interaction {
			q := p
			return &catalog.HTTPInteraction{Annotation: &q}
		},
		payload: func(v catalog.Interaction) string {
			h, ok := v.(*catalog.HTTPInteraction)
			if !ok || h == nil || h.Annotation == nil {
				return "<no value>"
			}
			return *h.Annotation
		},
		jsonPayload: jsonField("annotation"),
	}
}

func runOsetScript(initArg, script string) string {
	var s *catalog.StringSet
	if initArg == "-" {
		s = &catalog.StringSet{}
	} else {
		var vv []string
		for _, h := range strings.Split(initArg, "/") {
			vv = append(vv, string(unhex(h)))
		}
		s = catalog.NewStringSet(vv...)
	}
	var out []string
	if script == "-" || script == "" {
		return ""
	}
	for _, op := range strings.Split(script, ",") {
		f := strings.Split(op, ":")
		switch {
		case f[0] == "A" && len(f) == 2:
			s.Add(string(unhex(f[1])))
			out = append(out, ".")
		case f[0] == "H" && len(f) == 2:
			out = append(out, strconv.FormatBool(s.Has(string(unhex(f[1])))))
		case f[0] == "L" && len(f) == 1:
			out = append(out, strconv.Itoa(s.Len()))
		case f[0] == "D" && len(f) == 1:
			var kvs [][2]string
			for _, k := range s.Data() {
				kvs = append(kvs, [2]string{k, ""})
			}
			out = append(out, pairsText(kvs))
		default:
			return "bad-op " + op
		}
	}
	return strings.Join(out, ";")
}

func init() {
	fnExtra["omap"] = func(a []string) string {
		rs := runOmapScript(newServersInst(), a[0])
		rt := runOmapScript(newTagsInst(), a[0])
		rd := runOmapScript(newDirectivesInst(), a[0])
		ru := runOmapScript(newUserRulesInst(), a[0])
		ri := runOmapScript(newInteractionsInst(), a[0])
		if rs != rt || rs != rd || rs != ru || rs != ri {
			return "INSTANCES-DIFFER servers=" + rs + " tags=" + rt + " directives=" + rd + " userrules=" + ru + " interactions=" + ri
		}
		return rs
	}
	fnExtra["omap1"] = func(a []string) string { // one instantiation: servers|tags|directives
		switch a[0] {
		case "servers":
			return runOmapScript(newServersInst(), a[1])
		case "tags":
			return runOmapScript(newTagsInst(), a[1])
		case "directives":
			return runOmapScript(newDirectivesInst(), a[1])
		case "userrules":
			return runOmapScript(newUserRulesInst(), a[1])
		case "interactions":
			return runOmapScript(newInteractionsInst(), a[1])
		}
		return "bad-instance"
	}
	fnExtra["oset"] = func(a []string) string { return runOsetScript(a[0], a[1]) }
}
