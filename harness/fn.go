package main

import (
	"encoding/hex"
	"fmt"
	"net/url"
	"path/filepath"
	"strings"

	"github.com/jsightapi/jsight-api-go-library/catalog"
	"github.com/jsightapi/jsight-api-go-library/core"
)

func unhex(h string) []byte {
	if h == "-" {
		return nil
	}
	b, err := hex.DecodeString(h)
	if err != nil {
		panic(err)
	}
	return b
}

func hx(b []byte) string {
	if len(b) == 0 {
		return "-"
	}
	return hex.EncodeToString(b)
}

func hxs(s string) string { return hx([]byte(s)) }

// guarded runs f and maps a Go panic to "panic"
func guarded(f func() string) (out string) {
	defer func() {
		if r := recover(); r != nil {
			out = "panic"
		}
	}()
	return f()
}

func cmdFn() {
	stdinLines(func(line string) string {
		parts := strings.Split(line, " ")
		if len(parts) == 0 || parts[0] == "" {
			return ""
		}
		return guarded(func() string { return fnDispatch(parts[0], parts[1:]) })
	})
}

func fnDispatch(cmd string, a []string) string {
	switch cmd {
	case "includename":
		if err := core.VerifValidateIncludeFileName(string(unhex(a[0]))); err != nil {
			return "err"
		}
		return "ok"
	case "includemsg":
		if err := core.VerifValidateIncludeFileName(string(unhex(a[0]))); err != nil {
			return "err " + hxs(err.Error())
		}
		return "ok"
	case "tagname":
		return hxs(catalog.VerifTagName(string(unhex(a[0]))))
	case "clean":
		return hxs(filepath.Clean(string(unhex(a[0]))))
	case "dir":
		return hxs(filepath.Dir(string(unhex(a[0]))))
	case "join2":
		return hxs(filepath.Join(string(unhex(a[0])), string(unhex(a[1]))))
	case "replace_all":
		return hxs(strings.ReplaceAll(string(unhex(a[2])), string(unhex(a[0])), string(unhex(a[1]))))
	case "replace_first":
		return hxs(strings.Replace(string(unhex(a[2])), string(unhex(a[0])), string(unhex(a[1])), 1))
	case "contains":
		return fmt.Sprint(strings.Contains(string(unhex(a[1])), string(unhex(a[0]))))
	case "path_escape":
		return hxs(url.PathEscape(string(unhex(a[0]))))
	case "split47":
		pp := strings.Split(string(unhex(a[0])), "/")
		out := make([]string, len(pp))
		for i, p := range pp {
			out[i] = hxs(p)
		}
		return strings.Join(out, ",")
	}
	if f, ok := fnExtra[cmd]; ok {
		return f(a)
	}
	return "unknown-command"
}

var fnExtra = map[string]func([]string) string{}
