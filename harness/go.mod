module verifharness

go 1.20

require (
	github.com/jsightapi/jsight-api-go-library v0.0.0
	github.com/jsightapi/jsight-schema-go-library v1.0.1-0.20221003140029-c68c810f065f
)

require github.com/lucasjones/reggen v0.0.0-20200904144131-37ba4fa293bb // indirect

replace github.com/jsightapi/jsight-api-go-library => /repo
