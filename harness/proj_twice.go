package main

// runtwice <contenthex>: ONE fs.File object is processed twice (NewJApiFromFile + ValidateJAPI + ToJson); the two results
// must be equal and the bytes of the file must be what they were: processing may not write into its input.

import (
	"bytes"
	"crypto/sha256"
	"encoding/hex"
	"fmt"

	"github.com/jsightapi/jsight-schema-go-library/fs"

	"github.com/jsightapi/jsight-api-go-library/core"
	"github.com/jsightapi/jsight-api-go-library/kit"
)

func processOnce(f *fs.File) (out string) {
	return processOnceWith(f, core.WithFixedSeedForRegex())
}

func processOnceWith(f *fs.File, oo ...core.Option) (out string) {
	defer func() {
		if r := recover(); r != nil {
			out = fmt.Sprintf("panic %v", r)
		}
	}()
	j := kit.NewJApiFromFile(f, oo...)
	if je := j.ValidateJAPI(); je != nil {
		return fmt.Sprintf("err idx=%d line=%d msg=%s", je.Index(), je.Line(), hex.EncodeToString([]byte(je.Error())))
	}
	b, err := j.ToJson()
	if err != nil {
		return "jsonerr " + hex.EncodeToString([]byte(err.Error()))
	}
	h := sha256.Sum256(b)
	return "ok sha=" + hex.EncodeToString(h[:8])
}

func init() {
	fnExtra["runtwice"] = func(a []string) string {
		content := unhex(a[0])
		orig := append([]byte(nil), content...)
		f := fs.NewFile("twice.jst", content)
		r1 := processOnce(f)
		changed := !bytes.Equal([]byte(f.Content()), orig)
		r2 := processOnce(f)
		switch {
		case changed:
			return "input-modified first=" + r1 + " second=" + r2
		case r1 != r2:
			return "differ first=" + r1 + " second=" + r2
		default:
			return "same " + r1
		}
	}
}
