package main

// C13: path parameters.  Needs core/verif_hooks_path.go (PathParameter.VerifPath /
// VerifParameter, VerifPathParametersRaw, VerifSplitPath, VerifCheckSimilarPaths).

import (
	"fmt"
	"strings"

	"github.com/jsightapi/jsight-api-go-library/core"
)

func ppPairs(pp []core.PathParameter) string {
	out := make([]string, len(pp))
	for i, p := range pp {
		out[i] = hxs(p.VerifPath()) + ":" + hxs(p.VerifParameter())
	}
	return strings.Join(out, ",")
}

func okPairs(pp []core.PathParameter) string {
	if len(pp) == 0 {
		return "ok"
	}
	return "ok " + ppPairs(pp)
}

func init() {
	// pathparams <hexpath> -> ok [<hexprefix>:<hexname>,...] | empty | dup <hexname> | panic
	fnExtra["pathparams"] = func(a []string) string {
		path := string(unhex(a[0]))
		pp, err := core.PathParameters(path)
		if err == nil {
			return okPairs(pp)
		}
		msg := err.Error()
		const emptyPrefix = "incorrect empty PATH parameter in \""
		const dupPrefix = "the \""
		dupSuffix := "\" parameter is duplicated in the path \"" + path + "\""
		switch {
		case msg == emptyPrefix+path+"\"":
			return "empty"
		case strings.HasPrefix(msg, dupPrefix) && strings.HasSuffix(msg, dupSuffix):
			return "dup " + hxs(msg[len(dupPrefix):len(msg)-len(dupSuffix)])
		}
		return "unknown-error " + hxs(msg)
	}
	fnExtra["pathparams_raw"] = func(a []string) string {
		return okPairs(core.VerifPathParametersRaw(string(unhex(a[0]))))
	}
	fnExtra["splitpath"] = func(a []string) string {
		ss := core.VerifSplitPath(string(unhex(a[0])))
		out := make([]string, len(ss))
		for i, s := range ss {
			out[i] = hxs(s)
		}
		return strings.Join(out, ",")
	}
	// similar <hexpath> ... -> ok | reject <idx> <hexmsg> | panic
	fnExtra["similar"] = func(a []string) string {
		paths := make([]string, len(a))
		for i, h := range a {
			paths[i] = string(unhex(h))
		}
		idx, err := core.VerifCheckSimilarPaths(paths)
		if err == nil {
			return "ok"
		}
		return fmt.Sprintf("reject %d %s", idx, hxs(err.Error()))
	}
}
