package main

import (
	"fmt"
	"strconv"

	"github.com/jsightapi/jsight-api-go-library/jerr"
	"github.com/jsightapi/jsight-schema-go-library/bytes"
	"github.com/jsightapi/jsight-schema-go-library/fs"
)

// C02: location arithmetic.  `location <hexcontent> <decimal index>` ->
// `line <n> quote <hex>`; a Go panic is mapped to "panic" by the dispatcher in fn.go.
func init() {
	fnExtra["location"] = func(a []string) string {
		content := unhex(a[0])
		i, err := strconv.ParseUint(a[1], 10, 64)
		if err != nil {
			panic(err)
		}
		file := fs.NewFile("f", bytes.Bytes(content))
		loc := jerr.NewLocation(file, bytes.Index(i))
		return fmt.Sprintf("line %d quote %s", uint64(loc.Line()), hxs(loc.Quote()))
	}
	fnExtra["detectnl"] = func(a []string) string {
		return strconv.Itoa(int(jerr.DetectNewLineSymbol(bytes.Bytes(unhex(a[0])))))
	}
}
