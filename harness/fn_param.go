package main

// C17: function-level commands for directive parameters.
//
//	unescape <hex>                 -> hex of directive.unescapeParameter
//	appendparam <kindindex> <hex>  -> named <hexkey> <hexval> | unnamed <hex> | err
//	scanquoted <hex text>          -> accept <lexeme length> | reject <position>
//	                                  (the real scanner on "Title " + text; positions are
//	                                  relative to the first byte of text, the opening quote)

import (
	"sort"
	"strconv"

	"github.com/jsightapi/jsight-schema-go-library/fs"

	"github.com/jsightapi/jsight-api-go-library/directive"
	"github.com/jsightapi/jsight-api-go-library/scanner"
)

func init() {
	fnExtra["unescape"] = func(a []string) string {
		return hx(directive.VerifUnescapeParameter(unhex(a[0])))
	}

	fnExtra["appendparam"] = func(a []string) string {
		k, err := strconv.Atoi(a[0])
		if err != nil || k < 0 || k > int(directive.Tags) {
			return "bad-kind"
		}
		d := directive.New(directive.Enumeration(k), directive.Coords{})
		if err := d.AppendParameter(unhex(a[1])); err != nil {
			return "err"
		}
		named := d.VerifNamedParameters()
		unnamed := d.UnnamedParameter()
		switch {
		case len(named) == 1 && len(unnamed) == 0:
			keys := make([]string, 0, 1)
			for key := range named {
				keys = append(keys, key)
			}
			sort.Strings(keys)
			return "named " + hxs(keys[0]) + " " + hxs(named[keys[0]])
		case len(named) == 0 && len(unnamed) == 1:
			return "unnamed " + hxs(unnamed[0])
		default:
			return "unexpected-parameters named=" + strconv.Itoa(len(named)) + " unnamed=" + strconv.Itoa(len(unnamed))
		}
	}

	fnExtra["scanquoted"] = func(a []string) string {
		const prefix = "Title "
		text := unhex(a[0])
		content := append([]byte(prefix), text...)
		s := scanner.NewJApiScanner(fs.NewFile("scanquoted.jst", content))
		for {
			lex, je := s.Next()
			if je != nil {
				return "reject " + strconv.Itoa(int(je.Index())-len(prefix))
			}
			if lex == nil {
				return "no-parameter"
			}
			if lex.Type() == scanner.Parameter {
				if int(lex.Begin()) != len(prefix) {
					return "parameter-begins-at " + strconv.Itoa(int(lex.Begin())-len(prefix))
				}
				return "accept " + strconv.Itoa(int(lex.End())-int(lex.Begin())+1)
			}
		}
	}
}
