package main

// banshare <doc1 hex> <doc2 hex> <kinds A: i+j+..> <kinds B>: ONE option value WithBannedDirectives(A) is given to two cores; the
// first core also gets WithBannedDirectives(B).  The second core (option A only) must give what a core with a fresh
// WithBannedDirectives(A) gives: an option value is configuration, it may not remember what it was combined with.

import (
	"strconv"
	"strings"

	"github.com/jsightapi/jsight-schema-go-library/fs"

	"github.com/jsightapi/jsight-api-go-library/core"
	"github.com/jsightapi/jsight-api-go-library/directive"
)

func kindsOf(s string) []directive.Enumeration {
	var out []directive.Enumeration
	for _, n := range strings.Split(s, "+") {
		if n == "" {
			continue
		}
		i, err := strconv.Atoi(n)
		if err != nil {
			panic(err)
		}
		out = append(out, directive.Enumeration(i))
	}
	return out
}

func init() {
	fnExtra["banshare"] = func(a []string) string {
		d1, d2 := unhex(a[0]), unhex(a[1])
		ka, kb := kindsOf(a[2]), kindsOf(a[3])
		optA := core.WithBannedDirectives(ka...)
		run := func(content []byte, oo ...core.Option) string {
			oo = append(oo, core.WithFixedSeedForRegex())
			return processOnceWith(fs.NewFile("share.jst", append([]byte(nil), content...)), oo...)
		}
		r1 := run(d1, optA, core.WithBannedDirectives(kb...))
		r2 := run(d2, optA)
		r3 := run(d2, core.WithBannedDirectives(ka...))
		r4 := run(d2, optA)
		if r2 != r3 || r4 != r3 {
			return "differ first=" + r1 + " shared=" + r2 + " fresh=" + r3 + " sharedagain=" + r4
		}
		return "same first=" + r1 + " second=" + r2
	}
}
