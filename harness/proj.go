package main

// Project-level commands: a project is a list of (relative file name, content); the
// first file is the root.  Each case runs in a fresh temporary directory.
//
// input line:  run <opts> <name0hex> <content0hex> [<name_i hex> <content_i hex>]...
//   opts: comma separated: ban=<kindidx>+<kindidx>..., stage=full|scan|expand, out=json|sha, tree
// output line: ok ... | err ... | panic ...

import (
	"crypto/sha256"
	"encoding/hex"
	"fmt"
	"net"
	"os"
	"path/filepath"
	"sort"
	"strconv"
	"strings"

	"github.com/jsightapi/jsight-schema-go-library/fs"

	"github.com/jsightapi/jsight-api-go-library/core"
	"github.com/jsightapi/jsight-api-go-library/directive"
	"github.com/jsightapi/jsight-api-go-library/jerr"
	"github.com/jsightapi/jsight-api-go-library/kit"
)

type projOpts struct {
	ban   []directive.Enumeration
	stage string
	out   string
	tree  bool
	split bool
	reuse bool
	spell string
}

func parseOpts(s string) projOpts {
	o := projOpts{stage: "full", out: "json"}
	for _, kv := range strings.Split(s, ",") {
		if kv == "" || kv == "-" {
			continue
		}
		k, v, _ := strings.Cut(kv, "=")
		switch k {
		case "ban":
			for _, n := range strings.Split(v, "+") {
				if n == "" {
					continue
				}
				i, err := strconv.Atoi(n)
				if err != nil {
					panic(err)
				}
				o.ban = append(o.ban, directive.Enumeration(i))
			}
		case "stage":
			o.stage = v
		case "out":
			o.out = v
		case "tree":
			o.tree = true
		case "split":
			o.split = true
		case "spell":
			// how the path of the main file is spelled when it is opened: dot = <dir>/./name, slashes = <dir>//name,
			// dotdot = <dir>/x/../name (the directory x is created)
			o.spell = v
		case "reuse":
			// the project is written into ONE directory per harness process, emptied and rewritten for every project:
			// a later project meets the same absolute file names as an earlier one with other contents
			o.reuse = true
		}
	}
	return o
}

func relName(dir, p string) string {
	if r, err := filepath.Rel(dir, p); err == nil {
		return r
	}
	return p
}

func renderErr(dir string, je *jerr.JApiError) string {
	paths, lines := je.VerifTrace()
	tr := make([]string, len(paths))
	for i := range paths {
		tr[i] = fmt.Sprintf("%s:%d", relName(dir, paths[i]), lines[i])
	}
	return fmt.Sprintf("err file=%s idx=%d line=%d msg=%s quote=%s trace=%s",
		hxs(relName(dir, je.VerifFileName())), je.Index(), je.Line(), hxs(je.Msg), hxs(je.Quote()), hxs(strings.Join(tr, ";")))
}

func runProject(optS string, files [][2][]byte) (out string) {
	o := parseOpts(optS)
	var dir string
	var err error
	if o.reuse {
		dir = filepath.Join(os.TempDir(), fmt.Sprintf("vreuse%d", os.Getpid()))
		os.RemoveAll(dir)
		err = os.MkdirAll(dir, 0o755)
	} else {
		dir, err = os.MkdirTemp("", "vproj")
	}
	if err != nil {
		return "harness-error " + hxs(err.Error())
	}
	defer os.RemoveAll(dir)
	for _, f := range files {
		p := filepath.Join(dir, string(f[0]))
		if strings.HasSuffix(string(f[0]), "/") {
			os.MkdirAll(p, 0o755)
			continue
		}
		os.MkdirAll(filepath.Dir(p), 0o755)
		if strings.HasSuffix(string(f[0]), "@@socket") {
			// a directory entry that exists, is not a directory and cannot be read (the harness runs as root, so a
			// permission bit would not do): a unix socket
			ln, err := net.Listen("unix", strings.TrimSuffix(p, "@@socket"))
			if err != nil {
				return "harness-error " + hxs(err.Error())
			}
			defer ln.Close()
			continue
		}
		if err := os.WriteFile(p, f[1], 0o644); err != nil {
			return "harness-error " + hxs(err.Error())
		}
	}
	root := filepath.Join(dir, string(files[0][0]))
	switch o.spell {
	case "dot":
		root = dir + "/./" + string(files[0][0])
	case "slashes":
		root = dir + "//" + string(files[0][0])
	case "dotdot":
		os.MkdirAll(filepath.Join(dir, "x"), 0o755)
		root = dir + "/x/../" + string(files[0][0])
	}
	defer func() {
		if r := recover(); r != nil {
			out = "panic msg=" + hxs(fmt.Sprint(r))
		}
	}()
	var oo []core.Option
	oo = append(oo, core.WithFixedSeedForRegex())
	if len(o.ban) != 0 && o.split {
		// one option call per banned kind: the ban set is the union of all calls
		for _, b := range o.ban {
			oo = append(oo, core.WithBannedDirectives(b))
		}
	} else if len(o.ban) != 0 {
		oo = append(oo, core.WithBannedDirectives(o.ban...))
	}
	switch o.stage {
	case "scan", "expand":
		content, err := os.ReadFile(root)
		if err != nil {
			return "harness-error " + hxs(err.Error())
		}
		c := core.NewJApiCore(fs.NewFile(root, content), oo...)
		if e := c.VerifScanOnly(); e != nil {
			return renderErr(dir, e.(*jerr.JApiError))
		}
		if o.stage == "expand" {
			if e := c.VerifExpandOnly(); e != nil {
				return renderErr(dir, e.(*jerr.JApiError))
			}
			return "ok tree=" + renderForest(dir, c.VerifDirectivesWithPastes())
		}
		return "ok tree=" + renderForest(dir, c.VerifDirectives())
	}
	j, err := kit.NewJapi(root, oo...)
	if err != nil {
		return "loaderr msg=" + hxs(err.Error())
	}
	// the accessors may be called before validation (a documentation server does); what they return then is not what they
	// return afterwards
	func() {
		defer func() { _ = recover() }()
		_, _ = j.ToJson()
		_ = j.Title()
	}()
	if je := j.ValidateJAPI(); je != nil {
		return renderErr(dir, je)
	}
	b, err := j.ToJson()
	if err != nil {
		return "jsonerr msg=" + hxs(err.Error())
	}
	bi, err := j.ToJsonIndent()
	if err != nil {
		return "jsonerr msg=" + hxs(err.Error())
	}
	title := j.Title()
	switch o.out {
	case "sha":
		h := sha256.Sum256(b)
		hi := sha256.Sum256(bi)
		return fmt.Sprintf("ok sha=%s shaindent=%s title=%s", hex.EncodeToString(h[:8]), hex.EncodeToString(hi[:8]), hxs(title))
	case "both":
		return fmt.Sprintf("ok json=%s indent=%s title=%s", hx(b), hx(bi), hxs(title))
	}
	return fmt.Sprintf("ok json=%s title=%s", hx(b), hxs(title))
}

// renderForest prints the directive forest canonically.
func renderForest(dir string, dd []*directive.Directive) string {
	var sb strings.Builder
	for _, d := range dd {
		renderDirective(&sb, dir, d)
	}
	return sb.String()
}

func renderDirective(sb *strings.Builder, dir string, d *directive.Directive) {
	kc := d.VerifKeywordCoords()
	fname := ""
	if kc.File() != nil {
		fname = relName(dir, kc.File().Name())
	}
	fmt.Fprintf(sb, "(%d kw=%s f=%s kb=%d ke=%d", int(d.Type()), hxs(d.Keyword), hxs(fname), kc.Begin(), kc.VerifEnd())
	np := d.VerifNamedParameters()
	keys := make([]string, 0, len(np))
	for k := range np {
		keys = append(keys, k)
	}
	sort.Strings(keys)
	sb.WriteString(" np=")
	for i, k := range keys {
		if i > 0 {
			sb.WriteByte(',')
		}
		sb.WriteString(hxs(k) + ":" + hxs(np[k]))
	}
	sb.WriteString(" up=")
	for i, u := range d.UnnamedParameter() {
		if i > 0 {
			sb.WriteByte(',')
		}
		sb.WriteString(hxs(u))
	}
	fmt.Fprintf(sb, " ann=%s", hxs(d.Annotation))
	if d.BodyCoords.IsSet() {
		fmt.Fprintf(sb, " body=%s:%d:%d", hxs(relName(dir, d.BodyCoords.File().Name())), d.BodyCoords.Begin(), d.BodyCoords.VerifEnd())
	} else {
		sb.WriteString(" body=-")
	}
	x := 0
	if d.HasExplicitContext {
		x = 1
	}
	fmt.Fprintf(sb, " x=%d", x)
	// include trace as recorded in the directive: probe it with a dummy error
	probe := jerr.NewJApiError("", kc.File(), kc.Begin())
	if tr := d.VerifIncludeTracer(); tr != nil {
		tr.AddIncludeTraceToError(probe)
	}
	paths, lines := probe.VerifTrace()
	sb.WriteString(" tr=")
	for i := range paths {
		if i > 0 {
			sb.WriteByte(';')
		}
		fmt.Fprintf(sb, "%s:%d", hxs(relName(dir, paths[i])), lines[i])
	}
	sb.WriteString(" [")
	for _, c := range d.Children {
		renderDirective(sb, dir, c)
	}
	sb.WriteString("])")
}

func parseProjLine(parts []string) (string, [][2][]byte, bool) {
	if len(parts) < 3 || (len(parts)-1)%2 != 0 {
		return "", nil, false
	}
	var files [][2][]byte
	for i := 1; i+1 < len(parts); i += 2 {
		files = append(files, [2][]byte{unhex(parts[i]), unhex(parts[i+1])})
	}
	return parts[0], files, true
}

func init() {
	fnExtra["run"] = func(a []string) string {
		opts, files, ok := parseProjLine(a)
		if !ok {
			return "bad-request"
		}
		return runProject(opts, files)
	}
	// `harness run1 <opts> <name> <content> ...` runs ONE project given on the command line
	// (used to isolate cases that kill the process: fatal stack overflow, hangs).
	commands["run1"] = func(args []string) {
		opts, files, ok := parseProjLine(args)
		if !ok {
			fmt.Println("bad-request")
			return
		}
		fmt.Println(runProject(opts, files))
	}
}
