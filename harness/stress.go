package main

// C16 RUNTIME EXPLORATION (not a proof): `harness stress` hammers the real code from many
// goroutines and compares every observation with what sequential reasoning predicts.  Meant
// to be built with -race; a "WARNING: DATA RACE" on stderr is reported by the orchestrator.
//
//   stage collections: N goroutines Set/SetToTop/Update/Get/Has/Len/Each/Map/MarshalJSON on ONE
//                      catalog.Servers, catalog.Tags, directive.Directives and Add/Has/Len/Data
//                      on one catalog.StringSet
//   stage projects:    N goroutines each create+validate+serialise fixture documents
//                      (kit.NewJapi, ValidateJAPI, ToJson) and compare with the solo result
//   stage shared:      one validated document serialised from N goroutines at once
//
// Output: one JSON object on stdout.

import (
	"bytes"
	"encoding/json"
	"flag"
	"fmt"
	"math/rand"
	"os"
	"path/filepath"
	"reflect"
	"runtime"
	"sort"
	"strconv"
	"strings"
	"sync"
	"sync/atomic"
	"time"

	"github.com/jsightapi/jsight-api-go-library/catalog"
	"github.com/jsightapi/jsight-api-go-library/core"
	"github.com/jsightapi/jsight-api-go-library/kit"
)

type stressReport struct {
	Goroutines int               `json:"goroutines"`
	Procs      int               `json:"gomaxprocs"`
	Seed       int64             `json:"seed"`
	Stages     map[string]any    `json:"stages"`
	Violations []stressViolation `json:"violations"`
	mu         sync.Mutex
}

type stressViolation struct {
	Stage  string `json:"stage"`
	What   string `json:"what"`
	Replay string `json:"replay"`
	// "example-only": the two results are equal once every "example" member is removed
	Class string `json:"class"`
}

func (r *stressReport) violate(stage, what, replay string) { r.violateClass(stage, what, replay, "") }

func (r *stressReport) violateClass(stage, what, replay, class string) {
	r.mu.Lock()
	defer r.mu.Unlock()
	if len(r.Violations) < 50 {
		r.Violations = append(r.Violations, stressViolation{stage, what, replay, class})
	}
}

func stripExamples(v any) any {
	switch x := v.(type) {
	case map[string]any:
		delete(x, "example")
		for k, e := range x {
			x[k] = stripExamples(e)
		}
	case []any:
		for i, e := range x {
			x[i] = stripExamples(e)
		}
	}
	return v
}

// differOnlyInExamples: both are JSON and equal after removing every "example" member
func differOnlyInExamples(a, b []byte) bool {
	var x, y any
	if json.Unmarshal(a, &x) != nil || json.Unmarshal(b, &y) != nil {
		return false
	}
	return reflect.DeepEqual(stripExamples(x), stripExamples(y))
}

// exampleDiffNotations: the "notation" members of the objects whose "example" member differs between a and b (same shape
// otherwise).  The recorded finding (pooled buffer in the schema library's example builder) concerns notation "jsight".
func exampleDiffNotations(a, b []byte) map[string]int {
	var x, y any
	out := map[string]int{}
	if json.Unmarshal(a, &x) != nil || json.Unmarshal(b, &y) != nil {
		return out
	}
	var walk func(p, q any)
	walk = func(p, q any) {
		switch pm := p.(type) {
		case map[string]any:
			qm, ok := q.(map[string]any)
			if !ok {
				return
			}
			if e1, ok1 := pm["example"]; ok1 {
				if e2, ok2 := qm["example"]; ok2 && !reflect.DeepEqual(e1, e2) {
					n, _ := pm["notation"].(string)
					if n == "" {
						n = "?"
					}
					out[n]++
				}
			}
			for k, v := range pm {
				if k != "example" {
					walk(v, qm[k])
				}
			}
		case []any:
			qa, ok := q.([]any)
			if !ok {
				return
			}
			for i := range pm {
				if i < len(qa) {
					walk(pm[i], qa[i])
				}
			}
		}
	}
	walk(x, y)
	return out
}

// knownExampleOnly: the two results differ only in "example" members of notation "jsight" (the recorded finding)
func knownExampleOnly(a, b []byte) bool {
	if !differOnlyInExamples(a, b) {
		return false
	}
	for n := range exampleDiffNotations(a, b) {
		if n != "jsight" {
			return false
		}
	}
	return true
}

func init() {
	commands["stress"] = cmdStress
}

func cmdStress(args []string) {
	fs := flag.NewFlagSet("stress", flag.ExitOnError)
	n := fs.Int("n", 8, "goroutines")
	dur := fs.Float64("dur", 12, "total seconds (split over the stages)")
	seed := fs.Int64("seed", 1, "seed")
	procs := fs.Int("procs", 0, "GOMAXPROCS (0 = leave)")
	testdata := fs.String("testdata", "/repo/testdata", "fixture root")
	nfiles := fs.Int("files", 30, "number of valid fixture files")
	stages := fs.String("stages", "collections,projects,shared", "stages to run (pick: only choose the fixtures and write -fixtures)")
	maxSolo := fs.Float64("maxsolo", 0, "skip fixtures whose solo run takes longer than this many ms (0 = keep all)")
	sharedDocs := fs.Int("shareddocs", 5, "documents of the shared stage")
	fixturesPath := fs.String("fixtures", "", "file with the chosen fixtures and their solo results")
	_ = fs.Parse(args)
	if *procs > 0 {
		runtime.GOMAXPROCS(*procs)
	}
	rep := &stressReport{Goroutines: *n, Procs: runtime.GOMAXPROCS(0), Seed: *seed, Stages: map[string]any{}, Violations: []stressViolation{}}
	want := map[string]bool{}
	for _, s := range strings.Split(*stages, ",") {
		want[s] = true
	}
	total := time.Duration(*dur * float64(time.Second))
	if want["collections"] {
		per := total * 3 / 10 / 4
		rep.Stages["collections"] = map[string]any{
			"servers":    stressOmap(rep, "Servers", newServersInst, *n, per, *seed),
			"tags":       stressOmap(rep, "Tags", newTagsInst, *n, per, *seed+1),
			"directives": stressOmap(rep, "Directives", newDirectivesInst, *n, per, *seed+2),
			"stringset":  stressSet(rep, *n, per, *seed+3),
			"rules":      stressRules(rep, *n, per/2, *seed+4),
		}
	}
	var files []fixture
	if want["pick"] {
		files = pickFixtures(*testdata, *nfiles, *maxSolo)
		saveFixtures(*fixturesPath, files)
		rep.Stages["pick"] = map[string]any{"files": len(files)}
	} else if want["cold"] {
		// cold start: the very first parses of this process run at the same time (package-level tables that
		// are built lazily on first use are built under contention); no solo run comes first
		files = loadFixtures(*fixturesPath)
		t0 := time.Now()
		st := stressProjects(rep, files, *n, 0, *seed)
		st["wall_s"] = time.Since(t0).Seconds()
		rep.Stages["cold"] = st
	} else if want["projects"] || want["shared"] {
		if *fixturesPath != "" {
			files = loadFixtures(*fixturesPath)
			// the solo result is re-established by THIS binary for a few of them
			for i := 0; i < len(files) && i < 1; i++ {
				if b, ok := soloRun(files[i].path); !ok || !bytes.Equal(b, files[i].solo) {
					rep.violate("projects", "solo result differs from the recorded solo result", files[i].path)
				}
			}
		}
		if len(files) == 0 {
			files = pickFixtures(*testdata, *nfiles, *maxSolo)
		}
	}
	if want["projects"] {
		t0 := time.Now()
		st := stressProjects(rep, files, *n, total*5/10, *seed)
		st["wall_s"] = time.Since(t0).Seconds()
		rep.Stages["projects"] = st
	}
	if want["shared"] {
		t0 := time.Now()
		st := stressShared(rep, files, *n, total*2/10, *sharedDocs)
		st["wall_s"] = time.Since(t0).Seconds()
		rep.Stages["shared"] = st
		t1 := time.Now()
		st2 := stressSameFile(rep, files, *n, total*1/10)
		st2["wall_s"] = time.Since(t1).Seconds()
		rep.Stages["samefile"] = st2
	}
	out, _ := json.Marshal(rep)
	os.Stdout.Write(out)
	os.Stdout.WriteString("\n")
}

// ---------------------------------------------------------------------------------------
// collections

type ownKey struct {
	key      string
	expected string
	present  bool
}

func stressOmap[K comparable, V any](rep *stressReport, name string, mk func() omapInst[K, V], n int, dur time.Duration, seed int64) map[string]any {
	in := mk()
	const nShared = 4
	const nOwn = 12
	for j := 0; j < nShared; j++ {
		k := fmt.Sprintf("sh-%d", j)
		in.m.Set(in.key(k), in.val(k, "0"))
	}
	var calls int64
	incs := make([][]int64, n) // incs[g][j]: increments goroutine g applied to shared key j
	inserted := make([][]string, n)
	finals := make([][]ownKey, n)
	deadline := time.Now().Add(dur)
	var wg sync.WaitGroup
	stage := "collections/" + name
	for g := 0; g < n; g++ {
		g := g
		incs[g] = make([]int64, nShared)
		wg.Add(1)
		go func() {
			defer wg.Done()
			rng := rand.New(rand.NewSource(seed*1000 + int64(g)))
			own := make([]ownKey, nOwn)
			for i := range own {
				own[i].key = fmt.Sprintf("g%d-%d", g, i)
			}
			var order []string // own keys inserted with Set, in insertion order
			var tops []string  // own keys inserted with SetToTop, in insertion order
			cnt := 0
			var trace []string
			note := func(s string) {
				trace = append(trace, s)
				if len(trace) > 40 {
					trace = trace[len(trace)-40:]
				}
			}
			bad := func(what string) {
				rep.violate(stage, what, fmt.Sprintf("goroutine %d of %d, seed %d, last calls: %s", g, n, seed, strings.Join(trace, ",")))
			}
			checkSeq := func(where string, keys []string, vals []string) {
				seen := map[string]bool{}
				var mineSet, mineTop []string
				for i, k := range keys {
					if seen[k] {
						bad(where + ": key " + k + " appears twice")
					}
					seen[k] = true
					if strings.HasPrefix(k, fmt.Sprintf("g%d-", g)) {
						if strings.HasSuffix(k, "t") {
							mineTop = append(mineTop, k)
						} else {
							mineSet = append(mineSet, k)
						}
						for _, o := range own {
							if o.key == k && o.expected != vals[i] {
								bad(fmt.Sprintf("%s: key %s has value %q, its only writer last wrote %q", where, k, vals[i], o.expected))
							}
						}
					}
				}
				if strings.Join(mineSet, ",") != strings.Join(order, ",") {
					bad(fmt.Sprintf("%s: own Set keys in order %v, inserted as %v", where, mineSet, order))
				}
				rev := make([]string, len(tops))
				for i, k := range tops {
					rev[len(tops)-1-i] = k
				}
				if strings.Join(mineTop, ",") != strings.Join(rev, ",") {
					bad(fmt.Sprintf("%s: own SetToTop keys in order %v, expected %v", where, mineTop, rev))
				}
			}
			for time.Now().Before(deadline) {
				atomic.AddInt64(&calls, 1)
				i := rng.Intn(nOwn)
				o := &own[i]
				switch op := rng.Intn(12); op {
				case 0, 1:
					cnt++
					p := fmt.Sprintf("v%d", cnt)
					if i%3 == 2 && !o.present {
						// keys with index 2 mod 3 enter through SetToTop
						o.key = fmt.Sprintf("g%d-%dt", g, i)
						note("T:" + o.key)
						in.m.SetToTop(in.key(o.key), in.val(o.key, p))
						tops = append(tops, o.key)
					} else {
						note("S:" + o.key)
						in.m.Set(in.key(o.key), in.val(o.key, p))
						if !o.present {
							order = append(order, o.key)
						}
					}
					o.present, o.expected = true, p
				case 2:
					note("U:" + o.key)
					called := false
					in.m.Update(in.key(o.key), func(v V) V {
						called = true
						return in.val(o.key, in.payload(v)+"+")
					})
					if called != o.present {
						bad(fmt.Sprintf("Update(%s): callback called=%v but key present=%v", o.key, called, o.present))
					}
					if o.present {
						o.expected += "+"
					}
				case 3, 4:
					j := rng.Intn(nShared)
					k := fmt.Sprintf("sh-%d", j)
					note("U:" + k)
					in.m.Update(in.key(k), func(v V) V {
						c, _ := strconv.ParseInt(in.payload(v), 10, 64)
						incs[g][j]++
						return in.val(k, strconv.FormatInt(c+1, 10))
					})
				case 5:
					note("G:" + o.key)
					v, ok := in.m.Get(in.key(o.key))
					if ok != o.present || (ok && in.payload(v) != o.expected) {
						got := "none"
						if ok {
							got = in.payload(v)
						}
						bad(fmt.Sprintf("Get(%s) = %s, its only writer last wrote %q (present=%v)", o.key, got, o.expected, o.present))
					}
				case 6:
					note("H:" + o.key)
					if in.m.Has(in.key(o.key)) != o.present {
						bad(fmt.Sprintf("Has(%s) != %v", o.key, o.present))
					}
				case 7:
					note("L")
					l := in.m.Len()
					if l < nShared+len(order)+len(tops) || l > nShared+n*nOwn {
						bad(fmt.Sprintf("Len() = %d outside [%d,%d]", l, nShared+len(order)+len(tops), nShared+n*nOwn))
					}
				case 8:
					note("E")
					var keys, vals []string
					_ = in.m.Each(func(k K, v V) error {
						keys = append(keys, in.keyText(k))
						vals = append(vals, in.payload(v))
						return nil
					})
					checkSeq("Each", keys, vals)
				case 9:
					note("R")
					var keys, vals []string
					_ = in.m.EachReverse(func(k K, v V) error {
						keys = append([]string{in.keyText(k)}, keys...)
						vals = append([]string{in.payload(v)}, vals...)
						return nil
					})
					checkSeq("EachReverse", keys, vals)
				case 10:
					note("M")
					b, err := in.m.MarshalJSON()
					if err != nil || !json.Valid(b) {
						bad("MarshalJSON: error or invalid JSON")
						break
					}
					keys, raws, err := orderedJSONObject(b)
					if err != nil {
						bad("MarshalJSON: " + err.Error())
						break
					}
					vals := make([]string, len(raws))
					for i := range raws {
						vals[i], _ = in.jsonPayload(raws[i])
					}
					checkSeq("MarshalJSON", keys, vals)
				case 11:
					if g == 0 {
						// Map takes the write lock and rewrites every value with itself
						note("P")
						if err := in.m.Map(func(k K, v V) (V, error) { return v, nil }); err != nil {
							bad("Map returned an error")
						}
					}
				}
			}
			inserted[g] = append(append([]string{}, order...), tops...)
			finals[g] = own
		}()
	}
	wg.Wait()
	// quiescent state: what sequential reasoning predicts
	final := func(what string) {
		rep.violate(stage, what, fmt.Sprintf("final state after %d goroutines, seed %d", n, seed))
	}
	for j := 0; j < nShared; j++ {
		var sum int64
		for g := 0; g < n; g++ {
			sum += incs[g][j]
		}
		k := fmt.Sprintf("sh-%d", j)
		v, ok := in.m.Get(in.key(k))
		if !ok || in.payload(v) != strconv.FormatInt(sum, 10) {
			got := "none"
			if ok {
				got = in.payload(v)
			}
			final(fmt.Sprintf("lost update: shared key %s holds %s after %d atomic increments", k, got, sum))
		}
	}
	distinct := nShared
	for g := 0; g < n; g++ {
		distinct += len(inserted[g])
		for _, o := range finals[g] {
			v, ok := in.m.Get(in.key(o.key))
			if ok != o.present || (ok && in.payload(v) != o.expected) {
				final(fmt.Sprintf("key %s: final value differs from its only writer's last write %q", o.key, o.expected))
			}
		}
	}
	if in.m.Len() != distinct {
		final(fmt.Sprintf("Len() = %d, %d distinct keys were inserted", in.m.Len(), distinct))
	}
	seen := map[string]int{}
	_ = in.m.Each(func(k K, v V) error { seen[in.keyText(k)]++; return nil })
	for k, c := range seen {
		if c != 1 {
			final(fmt.Sprintf("key %s appears %d times in the order", k, c))
		}
	}
	if len(seen) != distinct {
		final(fmt.Sprintf("order lists %d keys, %d distinct keys were inserted", len(seen), distinct))
	}
	return map[string]any{"calls": calls, "keys": distinct}
}

func stressSet(rep *stressReport, n int, dur time.Duration, seed int64) map[string]any {
	s := &catalog.StringSet{}
	var calls int64
	deadline := time.Now().Add(dur)
	added := make([][]string, n)
	var wg sync.WaitGroup
	for g := 0; g < n; g++ {
		g := g
		wg.Add(1)
		go func() {
			defer wg.Done()
			rng := rand.New(rand.NewSource(seed*1000 + int64(g)))
			mine := map[string]bool{}
			for time.Now().Before(deadline) {
				atomic.AddInt64(&calls, 1)
				k := fmt.Sprintf("g%d-%d", g, rng.Intn(16))
				if rng.Intn(4) == 0 {
					k = fmt.Sprintf("sh-%d", rng.Intn(4))
				}
				switch rng.Intn(4) {
				case 0:
					s.Add(k)
					if !mine[k] {
						mine[k] = true
						added[g] = append(added[g], k)
					}
				case 1:
					if mine[k] && !s.Has(k) {
						rep.violate("collections/StringSet", "Has("+k+") false after Add", fmt.Sprintf("goroutine %d seed %d", g, seed))
					}
				case 2:
					if s.Len() < len(mine) {
						rep.violate("collections/StringSet", "Len() smaller than the number of own keys added", fmt.Sprintf("goroutine %d seed %d", g, seed))
					}
				case 3:
					seen := map[string]bool{}
					for _, x := range s.Data() {
						if seen[x] {
							rep.violate("collections/StringSet", "Data() lists "+x+" twice", fmt.Sprintf("goroutine %d seed %d", g, seed))
						}
						seen[x] = true
					}
				}
			}
		}()
	}
	wg.Wait()
	all := map[string]bool{}
	for g := range added {
		for _, k := range added[g] {
			all[k] = true
		}
	}
	if s.Len() != len(all) || len(s.Data()) != len(all) {
		rep.violate("collections/StringSet", fmt.Sprintf("Len()=%d len(Data())=%d, %d distinct keys added", s.Len(), len(s.Data()), len(all)), fmt.Sprintf("final state, seed %d", seed))
	}
	return map[string]any{"calls": calls, "keys": len(all)}
}

// ---------------------------------------------------------------------------------------
// whole projects

type fixture struct {
	path   string
	solo   []byte
	soloMs float64 // wall time of one solo run in the picking binary
}

// on-disk form (written by `stress -stages pick -fixtures f`, read by later runs, so that the
// slow race-instrumented binary does not have to find the valid fixtures again)
type fixtureFile struct {
	Path   string  `json:"path"`
	Solo   []byte  `json:"solo"`
	SoloMs float64 `json:"solo_ms"`
}

func loadFixtures(path string) []fixture {
	b, err := os.ReadFile(path)
	if err != nil {
		return nil
	}
	var ff []fixtureFile
	if json.Unmarshal(b, &ff) != nil {
		return nil
	}
	out := make([]fixture, len(ff))
	for i, f := range ff {
		out[i] = fixture{f.Path, f.Solo, f.SoloMs}
	}
	return out
}

func saveFixtures(path string, files []fixture) {
	ff := make([]fixtureFile, len(files))
	for i, f := range files {
		ff[i] = fixtureFile{f.path, f.solo, f.soloMs}
	}
	b, _ := json.Marshal(ff)
	_ = os.WriteFile(path, b, 0o644)
}

func soloRun(path string) (out []byte, ok bool) {
	defer func() {
		if r := recover(); r != nil {
			out, ok = nil, false
		}
	}()
	j, err := kit.NewJapi(path, core.WithFixedSeedForRegex())
	if err != nil {
		return nil, false
	}
	if je := j.ValidateJAPI(); je != nil {
		return nil, false
	}
	b, err := j.ToJson()
	if err != nil {
		return nil, false
	}
	return b, true
}

// pickFixtures: a deterministic spread of `want` fixture files that validate and serialise,
// with a stable solo result (two solo runs agree).
func pickFixtures(root string, want int, maxSoloMs float64) []fixture {
	type cand struct {
		path string
		size int64
	}
	var all []cand
	_ = filepath.Walk(root, func(p string, info os.FileInfo, err error) error {
		if err == nil && !info.IsDir() && strings.HasSuffix(p, ".jst") {
			all = append(all, cand{p, info.Size()})
		}
		return nil
	})
	sort.Slice(all, func(i, j int) bool { return all[i].path < all[j].path })
	// candidates: the largest files first (they exercise the most code), then an even spread
	bySize := append([]cand{}, all...)
	sort.SliceStable(bySize, func(i, j int) bool { return bySize[i].size > bySize[j].size })
	var cands []string
	seen := map[string]bool{}
	add := func(p string) {
		if !seen[p] {
			seen[p] = true
			cands = append(cands, p)
		}
	}
	for i := 0; i < len(bySize) && i < want; i++ {
		add(bySize[i].path)
	}
	if len(all) > 0 {
		step := float64(len(all)) / float64(3*want)
		if step < 1 {
			step = 1
		}
		for x := 0.0; int(x) < len(all); x += step {
			add(all[int(x)].path)
		}
	}
	var out []fixture
	big := 0
	for i, p := range cands {
		if len(out) >= want {
			break
		}
		if i < want && big >= want/2 {
			continue // at most half of the list from the largest files
		}
		a, ok := soloRun(p)
		if !ok {
			continue
		}
		tr := time.Now()
		b, ok2 := soloRun(p)
		ms := time.Since(tr).Seconds() * 1000
		if !ok2 || !bytes.Equal(a, b) || (maxSoloMs > 0 && ms > maxSoloMs) {
			continue
		}
		if i < want {
			big++
		}
		out = append(out, fixture{p, a, ms})
	}
	sort.Slice(out, func(i, j int) bool { return out[i].path < out[j].path })
	return out
}

func stressProjects(rep *stressReport, files []fixture, n int, dur time.Duration, seed int64) map[string]any {
	var runs int64
	var slowMu sync.Mutex
	slowest, slowestFile := 0.0, ""
	deadline := time.Now().Add(dur)
	var wg sync.WaitGroup
	for g := 0; g < n; g++ {
		g := g
		wg.Add(1)
		go func() {
			defer wg.Done()
			rng := rand.New(rand.NewSource(seed*7919 + int64(g)))
			first := true
			for first || time.Now().Before(deadline) {
				first = false
				perm := rng.Perm(len(files))
				for _, i := range perm {
					f := files[i]
					tr := time.Now()
					got, ok := soloRun(f.path)
					atomic.AddInt64(&runs, 1)
					slowMu.Lock()
					if d := time.Since(tr).Seconds(); d > slowest {
						slowest, slowestFile = d, f.path
					}
					slowMu.Unlock()
					if !ok {
						rep.violate("projects", "document fails (error or panic) when processed concurrently, succeeds alone", f.path)
					} else if !bytes.Equal(got, f.solo) {
						d := firstDiff(got, f.solo)
						class := ""
						if differOnlyInExamples(got, f.solo) {
							class = "example-only"
							for n := range exampleDiffNotations(got, f.solo) {
								if n != "jsight" {
									// an example of another notation (regex) differs: not the recorded pool defect
									class = "example-" + n
								}
							}
						}
						rep.violateClass("projects", fmt.Sprintf("result differs from the solo result at byte %d: concurrent ...%s... solo ...%s...", d, around(got, d), around(f.solo, d)), f.path, class)
					}
					if !time.Now().Before(deadline) {
						break
					}
				}
			}
		}()
	}
	wg.Wait()
	names := make([]string, len(files))
	for i, f := range files {
		names[i] = f.path
	}
	return map[string]any{"files": names, "runs": runs, "slowest_run_s": slowest, "slowest_file": slowestFile}
}

func around(b []byte, i int) string {
	lo, hi := i-60, i+60
	if lo < 0 {
		lo = 0
	}
	if hi > len(b) {
		hi = len(b)
	}
	return string(b[lo:hi])
}

func firstDiff(a, b []byte) int {
	for i := 0; i < len(a) && i < len(b); i++ {
		if a[i] != b[i] {
			return i
		}
	}
	if len(a) < len(b) {
		return len(a)
	}
	return len(b)
}

func stressShared(rep *stressReport, files []fixture, n int, dur time.Duration, docs int) map[string]any {
	var reads int64
	if len(files) == 0 {
		return map[string]any{"reads": 0}
	}
	// the largest documents are the interesting ones
	bySize := append([]fixture{}, files...)
	sort.SliceStable(bySize, func(i, j int) bool { return len(bySize[i].solo) > len(bySize[j].solo) })
	if len(bySize) > docs {
		bySize = bySize[:docs]
	}
	per := dur / time.Duration(len(bySize))
	for _, f := range bySize {
		j, err := kit.NewJapi(f.path, core.WithFixedSeedForRegex())
		if err != nil {
			continue
		}
		if je := j.ValidateJAPI(); je != nil {
			continue
		}
		soloIndent, err := j.ToJsonIndent()
		if err != nil {
			continue
		}
		title := j.Title()
		deadline := time.Now().Add(per)
		var wg sync.WaitGroup
		for g := 0; g < n; g++ {
			g := g
			wg.Add(1)
			go func() {
				defer wg.Done()
				defer func() {
					if r := recover(); r != nil {
						rep.violate("shared", fmt.Sprintf("panic while serialising a shared catalog: %v", r), f.path)
					}
				}()
				first := true
				for first || time.Now().Before(deadline) {
					first = false
					atomic.AddInt64(&reads, 1)
					if g%2 == 0 {
						b, err := j.ToJson()
						if err != nil || !bytes.Equal(b, f.solo) {
							rep.violate("shared", "ToJson of one catalog from many goroutines differs from the solo result", f.path)
							return
						}
					} else {
						b, err := j.ToJsonIndent()
						if err != nil || !bytes.Equal(b, soloIndent) || j.Title() != title {
							rep.violate("shared", "ToJsonIndent/Title of one catalog from many goroutines differs from the solo result", f.path)
							return
						}
					}
				}
			}()
		}
		wg.Wait()
	}
	return map[string]any{"reads": reads, "documents": len(bySize)}
}

// stressRules: n goroutines write into ONE rules builder; every goroutine Sets keys of its own (k<g>_<j>) and
// Appends anonymous rules and rules that carry a key of their own in between.  Rounds alternate between two kinds
// of programs: "distinct" (every Set uses a fresh key: the premise of "every key once") and "repeated" (six keys
// per goroutine, Set again and again: nothing is overwritten in place, the last Set wins).  After the goroutines
// are joined: every own key resolves to the rule of its LAST Set, a key never Set is absent, Len counts the calls,
// and the rules a goroutine stored stand in data in its program order (data is an interleaving of the programs).
// The programs and the final state of the last round of each kind are returned for the comparison with the
// model's interleaving-independent content (verifsys/checks/c16.py, theorem rules_interleaving_content_independent).
type ruleCall struct {
	set  bool
	key  string // Set: the key; Append: the Key left in the rule
	junk string // Set: the Key of the rule passed in (must be discarded)
	val  string
}

func (c ruleCall) script() string {
	if c.set {
		return "S:" + hxs(c.key) + ":" + hxs(c.junk) + ":" + hxs(c.val)
	}
	return "A:" + hxs(c.key) + ":" + hxs(c.val)
}

func rulesProgram(rng *rand.Rand, g, length int, distinct bool) []ruleCall {
	out := make([]ruleCall, 0, length)
	fresh := 0
	for i := 0; i < length; i++ {
		val := fmt.Sprintf("g%d.%d", g, i)
		switch r := rng.Intn(20); {
		case r < 12:
			j := rng.Intn(6)
			if distinct {
				j = fresh
				fresh++
			}
			out = append(out, ruleCall{set: true, key: fmt.Sprintf("k%d_%d", g, j), junk: "junk", val: val})
		case r < 17:
			out = append(out, ruleCall{key: "", val: val})
		default:
			// an appended rule that carries a key nobody Sets: it must stay unreachable for Get
			out = append(out, ruleCall{key: fmt.Sprintf("a%d", g), val: val})
		}
	}
	return out
}

func stressRules(rep *stressReport, n int, dur time.Duration, seed int64) map[string]any {
	rounds, calls := 0, 0
	finals := map[string]any{}
	deadline := time.Now().Add(dur)
	for rounds < 2 || time.Now().Before(deadline) {
		distinct := rounds%2 == 0
		kind := "repeated"
		if distinct {
			kind = "distinct"
		}
		rounds++
		const perG = 40
		programs := make([][]ruleCall, n)
		for g := 0; g < n; g++ {
			programs[g] = rulesProgram(rand.New(rand.NewSource(seed*100003+int64(rounds)*1009+int64(g))), g, perG, distinct)
		}
		b := catalog.VerifNewRulesBuilder(4)
		var wg sync.WaitGroup
		start := make(chan struct{})
		for g := 0; g < n; g++ {
			g := g
			wg.Add(1)
			go func() {
				defer wg.Done()
				<-start
				for _, c := range programs[g] {
					r := catalog.Rule{Key: c.key, TokenType: catalog.RuleTokenTypeString, ScalarValue: c.val}
					if c.set {
						r.Key = c.junk
						b.Set(c.key, r)
					} else {
						b.Append(r)
					}
				}
			}()
		}
		close(start)
		wg.Wait()
		calls += n * perG
		rr := b.Rules()
		bad := ""
		fail := func(format string, a ...any) {
			if bad == "" {
				bad = fmt.Sprintf(format, a...)
			}
		}
		var keys, gets []string
		for g := 0; g < n; g++ {
			last := map[string]string{}
			for _, c := range programs[g] {
				if c.set {
					last[c.key] = c.val
				}
			}
			for j := 0; j < perG && (distinct || j < 6); j++ {
				k := fmt.Sprintf("k%d_%d", g, j)
				got := rulesGet(rr, k)
				keys = append(keys, hxs(k))
				gets = append(gets, got)
				want := "none"
				if v, ok := last[k]; ok {
					want = "some:" + rulePairText(k, v)
				}
				if got != want {
					fail("Get(%q) = %s, its only writer last stored %s", k, got, want)
				}
				if _, ok := last[k]; ok != rr.Has(k) {
					fail("Has(%q) = %v, Set by its only writer: %v", k, rr.Has(k), ok)
				}
			}
			ak := fmt.Sprintf("a%d", g)
			keys = append(keys, hxs(ak))
			gets = append(gets, rulesGet(rr, ak))
			if rr.Has(ak) {
				fail("Has(%q) is true: the key was only ever the Key of an appended rule", ak)
			}
		}
		if rr.Len() != n*perG {
			fail("Len() = %d after %d calls", rr.Len(), n*perG)
		}
		// data, split by the goroutine that stored the rule, must be that goroutine's program
		perGor := make([][]string, n)
		var all []string
		_ = rr.Each(func(k string, v catalog.Rule) error {
			all = append(all, rulePairText(k, v.ScalarValue))
			var g, i int
			if _, err := fmt.Sscanf(v.ScalarValue, "g%d.%d", &g, &i); err != nil || g < 0 || g >= n {
				fail("a rule with the unknown value %q is stored", v.ScalarValue)
				return nil
			}
			perGor[g] = append(perGor[g], rulePairText(k, v.ScalarValue))
			return nil
		})
		progText := make([]string, n)
		for g := 0; g < n; g++ {
			want := make([]string, len(programs[g]))
			scr := make([]string, len(programs[g]))
			for i, c := range programs[g] {
				want[i] = rulePairText(c.key, c.val)
				scr[i] = c.script()
			}
			progText[g] = strings.Join(scr, ",")
			if strings.Join(perGor[g], "|") != strings.Join(want, "|") {
				fail("the rules stored by goroutine %d are %v, its calls were %v (lost, doubled or reordered)", g, perGor[g], want)
			}
		}
		if distinct {
			seen := map[string]int{}
			for g := 0; g < n; g++ {
				for _, c := range programs[g] {
					if c.set {
						seen[c.key]++
					}
				}
			}
			cnt := map[string]int{}
			_ = rr.Each(func(k string, v catalog.Rule) error {
				if strings.HasPrefix(k, "k") {
					cnt[k]++
				}
				return nil
			})
			for k, c := range cnt {
				if c != 1 || seen[k] != 1 {
					fail("the key %s appears %d times in the order (Set %d times)", k, c, seen[k])
				}
			}
		}
		finals[kind] = map[string]any{
			"programs": progText, "each": "[" + strings.Join(all, "|") + "]", "keys": keys, "gets": gets, "len": rr.Len(),
		}
		if bad != "" {
			rep.violate("collections", "RulesBuilder under "+fmt.Sprint(n)+" concurrent writers ("+kind+" keys): "+bad,
				fmt.Sprintf("rules seed %d round %d", seed, rounds))
			break
		}
	}
	return map[string]any{"rounds": rounds, "calls": calls, "finals": finals}
}
