package main

import (
	"github.com/jsightapi/jsight-api-go-library/catalog"
)

func init() {
	fnExtra["pathtagtitle"] = func(a []string) string {
		return hxs(catalog.VerifPathTagTitle(string(unhex(a[0]))))
	}
}
