package main

import (
	"bytes"

	"github.com/jsightapi/jsight-api-go-library/catalog"
	"github.com/jsightapi/jsight-api-go-library/core"
)

// C15: the text normalisers. Same canonical text as coq/extract/cmds_desc.ml.
func init() {
	// description <hex> -> "ok <hexresult>" | "err <hexresult>"
	fnExtra["description"] = func(a []string) string {
		in := unhex(a[0])
		// the function works in place on its argument in some paths: give it a private copy
		d, err := core.VerifDescription(append([]byte{}, in...))
		if err != nil {
			return "err " + hx(d)
		}
		return "ok " + hx(d)
	}
	// descriptionmsg <hex> -> "ok <hexresult>" | "err <hexresult> <hexmessage>"
	fnExtra["descriptionmsg"] = func(a []string) string {
		d, err := core.VerifDescription(append([]byte{}, unhex(a[0])...))
		if err != nil {
			return "err " + hx(d) + " " + hxs(err.Error())
		}
		return "ok " + hx(d)
	}
	// annotation <hex> -> <hexresult>
	fnExtra["annotation"] = func(a []string) string {
		return hxs(catalog.Annotation(string(unhex(a[0]))))
	}
	// trimspace <hex> -> <hexresult>   (bytes.TrimSpace, validates the Unicode part of the model)
	fnExtra["trimspace"] = func(a []string) string {
		return hx(bytes.TrimSpace(unhex(a[0])))
	}
}
