//go:build verif

package main

// C16 correspondence for the hand-written pair catalog.RulesBuilder / catalog.Rules: the script language of
// coq/extract/cmds_rules.ml run SEQUENTIALLY on the real code.
//
//   rules <init> <ops>
//     init = "-"                the script runs on catalog.VerifNewRulesBuilder(..) (the unexported constructor)
//          | "n:" k=v/k=v/...   on catalog.NewRules([]Rule{{Key:k, ScalarValue:v}, ...}); readers only
//     ops  = S:k:j:v  Set(k, Rule{Key:j, ScalarValue:v})    A:j:v  Append(Rule{Key:j, ScalarValue:v})
//            G:k Get   H:k Has   L Len   E Each   M MarshalJSON
//
// Every read is made twice: through the *Rules obtained from Rules() BEFORE the first call of the script and
// through a fresh Rules(); the model says both are the same object (an alias of the state, not a copy), so a
// difference is printed as ALIAS-DIFFER.  A panic of one call is printed as "panic" for that call.

import (
	"encoding/json"
	"errors"
	"fmt"
	"strconv"
	"strings"

	"github.com/jsightapi/jsight-api-go-library/catalog"
)

func rulePairText(k, v string) string { return hxs(k) + "=" + hxs(v) }

func rulesGet(rr *catalog.Rules, k string) string {
	return guarded(func() string {
		r, ok := rr.Get(k)
		if !ok {
			if r.Key != "" || r.ScalarValue != "" || r.TokenType != "" || r.Note != "" || r.Children != nil {
				return "none-but-nonzero-rule"
			}
			return "none"
		}
		return "some:" + rulePairText(r.Key, r.ScalarValue)
	})
}

func rulesEach(rr *catalog.Rules) string {
	return guarded(func() string {
		var out []string
		bad := false
		err := rr.Each(func(k string, v catalog.Rule) error {
			if k != v.Key {
				bad = true
			}
			out = append(out, rulePairText(k, v.ScalarValue))
			return nil
		})
		if err != nil {
			return "each-error"
		}
		if bad {
			return "EACH-KEY-IS-NOT-THE-RULE-KEY"
		}
		return "[" + strings.Join(out, "|") + "]"
	})
}

// Each with a callback that returns an error at the first rule whose key (byKey) or value is `at`
func rulesEachUntil(rr *catalog.Rules, byKey bool, at string) string {
	return guarded(func() string {
		var out []string
		bad := false
		err := rr.Each(func(k string, v catalog.Rule) error {
			if k != v.Key {
				bad = true
			}
			out = append(out, rulePairText(k, v.ScalarValue))
			if (byKey && k == at) || (!byKey && v.ScalarValue == at) {
				return errStop
			}
			return nil
		})
		if bad {
			return "EACH-KEY-IS-NOT-THE-RULE-KEY"
		}
		switch {
		case err == nil:
			return "full:[" + strings.Join(out, "|") + "]"
		case errors.Is(err, errStop):
			return "stop:[" + strings.Join(out, "|") + "]"
		}
		return "other-error:" + err.Error()
	})
}

func rulesMarshal(rr *catalog.Rules) string {
	return guarded(func() string {
		b, err := rr.MarshalJSON()
		if err != nil {
			return "marshal-error"
		}
		var arr []struct {
			Key         *string `json:"key"`
			TokenType   string  `json:"tokenType"`
			ScalarValue string  `json:"scalarValue"`
		}
		if string(b) == "null" {
			// json.Marshal of a nil slice
			return "[]"
		}
		if err := json.Unmarshal(b, &arr); err != nil {
			return "marshal-not-an-array"
		}
		out := make([]string, len(arr))
		for i, e := range arr {
			k := ""
			if e.Key != nil {
				k = *e.Key // omitted when empty
			}
			out[i] = rulePairText(k, e.ScalarValue)
		}
		return "[" + strings.Join(out, "|") + "]"
	})
}

func mkRule(key, val string) catalog.Rule {
	return catalog.Rule{Key: key, TokenType: catalog.RuleTokenTypeString, ScalarValue: val}
}

func runRulesScript(initArg, script string) string {
	var b *catalog.RulesBuilder
	var early *catalog.Rules
	if initArg == "-" {
		n := 0
		if script != "-" {
			n = len(script) % 5 // the capacity hint must not matter
		}
		b = catalog.VerifNewRulesBuilder(n)
		early = b.Rules()
	} else if strings.HasPrefix(initArg, "n:") {
		var d []catalog.Rule
		if rest := initArg[2:]; rest != "" {
			for _, kv := range strings.Split(rest, "/") {
				f := strings.Split(kv, "=")
				if len(f) != 2 {
					return "bad-init " + kv
				}
				d = append(d, mkRule(string(unhex(f[0])), string(unhex(f[1]))))
			}
		}
		early = catalog.NewRules(d)
	} else {
		return "bad-init " + initArg
	}
	if script == "-" || script == "" {
		return ""
	}
	read := func(f func(rr *catalog.Rules) string) string {
		a := f(early)
		if b != nil {
			if c := f(b.Rules()); c != a {
				return "ALIAS-DIFFER early=" + a + " now=" + c
			}
		}
		return a
	}
	var out []string
	for _, op := range strings.Split(script, ",") {
		f := strings.Split(op, ":")
		switch {
		case f[0] == "S" && len(f) == 4 && b != nil:
			out = append(out, guarded(func() string {
				b.Set(string(unhex(f[1])), mkRule(string(unhex(f[2])), string(unhex(f[3]))))
				return "."
			}))
		case f[0] == "A" && len(f) == 3 && b != nil:
			out = append(out, guarded(func() string {
				b.Append(mkRule(string(unhex(f[1])), string(unhex(f[2]))))
				return "."
			}))
		case f[0] == "G" && len(f) == 2:
			k := string(unhex(f[1]))
			out = append(out, read(func(rr *catalog.Rules) string { return rulesGet(rr, k) }))
		case f[0] == "H" && len(f) == 2:
			k := string(unhex(f[1]))
			out = append(out, read(func(rr *catalog.Rules) string {
				return guarded(func() string { return strconv.FormatBool(rr.Has(k)) })
			}))
		case f[0] == "L" && len(f) == 1:
			out = append(out, read(func(rr *catalog.Rules) string {
				return guarded(func() string { return strconv.Itoa(rr.Len()) })
			}))
		case f[0] == "E" && len(f) == 1:
			out = append(out, read(rulesEach))
		case (f[0] == "X" || f[0] == "W") && len(f) == 2:
			at := string(unhex(f[1]))
			byKey := f[0] == "X"
			out = append(out, read(func(rr *catalog.Rules) string { return rulesEachUntil(rr, byKey, at) }))
		case f[0] == "M" && len(f) == 1:
			out = append(out, read(rulesMarshal))
		default:
			return "bad-op " + op
		}
	}
	return strings.Join(out, ";")
}

func init() {
	fnExtra["rules"] = func(a []string) string {
		if len(a) != 2 {
			return fmt.Sprintf("bad-arity %d", len(a))
		}
		return runRulesScript(a[0], a[1])
	}
}
