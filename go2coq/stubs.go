package main

func genCollections(repo string) string { panic(unsupported{msg: "collections generator not built yet"}) }
func genInventory(repo string) string   { panic(unsupported{msg: "inventory generator not built yet"}) }
