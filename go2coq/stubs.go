package main

func genInventory(repo string) string   { panic(unsupported{msg: "inventory generator not built yet"}) }
