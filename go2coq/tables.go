package main

// Directive tables: kinds, keyword strings, root admissibility, HTTP methods,
// parent->child admissibility, response-code range, the set of kinds with an adder.

import (
	"fmt"
	"go/ast"
	"go/token"
	"strconv"
	"strings"
)

func kindCtor(goName string) string { return "K" + goName }

func constBlockNames(p *pkg, file string, typ string) []string {
	f := p.files[file]
	if f == nil {
		fatal("file %s not found", file)
	}
	for _, d := range f.Decls {
		gd, ok := d.(*ast.GenDecl)
		if !ok || gd.Tok != token.CONST {
			continue
		}
		var names []string
		first := true
		okBlock := false
		for _, s := range gd.Specs {
			vs := s.(*ast.ValueSpec)
			if first {
				first = false
				if id, ok := vs.Type.(*ast.Ident); ok && id.Name == typ && len(vs.Values) == 1 {
					if v, ok := vs.Values[0].(*ast.Ident); ok && v.Name == "iota" {
						okBlock = true
					}
				}
				if !okBlock {
					break
				}
			} else if vs.Type != nil || len(vs.Values) != 0 {
				p.bad(vs, "const spec in iota block of %s", typ)
			}
			for _, n := range vs.Names {
				names = append(names, n.Name)
			}
		}
		if okBlock {
			return names
		}
	}
	fatal("iota const block of type %s not found in %s", typ, file)
	return nil
}

func findVar(p *pkg, file, name string) ast.Expr {
	f := p.files[file]
	for _, d := range f.Decls {
		gd, ok := d.(*ast.GenDecl)
		if !ok || gd.Tok != token.VAR {
			continue
		}
		for _, s := range gd.Specs {
			vs := s.(*ast.ValueSpec)
			for i, n := range vs.Names {
				if n.Name == name && i < len(vs.Values) {
					return vs.Values[i]
				}
			}
		}
	}
	fatal("var %s not found in %s", name, file)
	return nil
}

// switchCaseIdents reads `switch de { case A, B: return true }; return false`
func switchTrueSet(p *pkg, fname string) []string {
	fd := p.funcs[fname]
	if fd == nil {
		fatal("func %s not found", fname)
	}
	if len(fd.Body.List) < 1 || len(fd.Body.List) > 2 {
		p.bad(fd, "body shape of %s", fname)
	}
	sw, ok := fd.Body.List[0].(*ast.SwitchStmt)
	if !ok {
		p.bad(fd, "body shape of %s (switch expected)", fname)
	}
	if id, ok := sw.Tag.(*ast.Ident); !ok || id.Name != fd.Recv.List[0].Names[0].Name {
		p.bad(sw, "switch tag of %s", fname)
	}
	retIs := func(s ast.Stmt, want string) bool {
		r, ok := s.(*ast.ReturnStmt)
		return ok && len(r.Results) == 1 && identName(r.Results[0]) == want
	}
	var out []string
	sawDefault := false
	for _, c := range sw.Body.List {
		cc := c.(*ast.CaseClause)
		if cc.List == nil {
			if len(cc.Body) != 1 || !retIs(cc.Body[0], "false") {
				p.bad(cc, "default clause of %s", fname)
			}
			sawDefault = true
			continue
		}
		if len(cc.Body) != 1 || !retIs(cc.Body[0], "true") {
			p.bad(cc, "case body of %s", fname)
		}
		for _, e := range cc.List {
			n := identName(e)
			if n == "" {
				p.bad(e, "case expression of %s", fname)
			}
			out = append(out, n)
		}
	}
	if len(fd.Body.List) == 2 {
		if !retIs(fd.Body.List[1], "false") {
			p.bad(fd, "final return of %s", fname)
		}
	} else if !sawDefault {
		p.bad(fd, "%s has neither default clause nor final return", fname)
	}
	return out
}

func identName(e ast.Expr) string {
	if id, ok := e.(*ast.Ident); ok {
		return id.Name
	}
	return ""
}

func genDirectiveTables(repo string) string {
	p := loadPkg(repo, "directive")
	// how the tables below are READ by the library (ss[de], the parent -> set-of-children lookup, the spelling of
	// response codes, IsStartWithDirective) is modelled by hand: pinned
	checkPins(p, "tables", "directive")
	kinds := constBlockNames(p, "enumeration.go", "Enumeration")
	known := map[string]bool{}
	for _, k := range kinds {
		known[k] = true
	}
	ssLit, ok := findVar(p, "enumeration.go", "ss").(*ast.CompositeLit)
	if !ok {
		fatal("ss is not a composite literal")
	}
	var ss []string
	for _, e := range ssLit.Elts {
		bl, ok := e.(*ast.BasicLit)
		if !ok || bl.Kind != token.STRING {
			p.bad(e, "ss element")
		}
		s, _ := strconv.Unquote(bl.Value)
		ss = append(ss, s)
	}
	if len(ss) != len(kinds) {
		p.bad(ssLit, "len(ss)=%d != number of kinds %d", len(ss), len(kinds))
	}
	root := switchTrueSet(p, "Enumeration.IsAllowedForRootContext")
	httpm := switchTrueSet(p, "Enumeration.IsHTTPRequestMethod")

	ctxLit, ok := findVar(p, "enumeration.go", "directiveAllowedToDirectiveContext").(*ast.CompositeLit)
	if !ok {
		fatal("directiveAllowedToDirectiveContext is not a composite literal")
	}
	type row struct {
		parent string
		kids   []string
	}
	var rows []row
	seen := map[string]bool{}
	for _, e := range ctxLit.Elts {
		kv, ok := e.(*ast.KeyValueExpr)
		if !ok {
			p.bad(e, "context table element")
		}
		par := identName(kv.Key)
		if !known[par] || seen[par] {
			p.bad(kv.Key, "context table key")
		}
		seen[par] = true
		call, ok := kv.Value.(*ast.CallExpr)
		if !ok || callName(call.Fun) != "createEnumerationSet" {
			p.bad(kv.Value, "context table value")
		}
		var kids []string
		for _, a := range call.Args {
			n := identName(a)
			if !known[n] {
				p.bad(a, "context table child")
			}
			kids = append(kids, n)
		}
		rows = append(rows, row{par, kids})
	}
	lo, hi := responseCodeRange(p)

	// adder key set from core/core.go
	cp := loadPkg(repo, "core")
	adders := adderKeys(cp, known)

	var b strings.Builder
	b.WriteString(header)
	b.WriteString("(* directive/enumeration.go, directive/http_response_code.go, key set of core.directiveFunctions *)\n")
	b.WriteString("From Coq Require Import List NArith Bool String.\nFrom JV.lib Require Import Bytes.\nImport ListNotations.\nOpen Scope N_scope.\n\n")
	b.WriteString("Inductive kind : Set :=\n")
	for _, k := range kinds {
		fmt.Fprintf(&b, "| %s\n", kindCtor(k))
	}
	b.WriteString(".\n\n")
	b.WriteString("Definition all_kinds : list kind :=\n  [" + joinMap(kinds, kindCtor, "; ") + "].\n\n")
	b.WriteString("Definition kind_idx (k : kind) : N :=\n  match k with\n")
	for i, k := range kinds {
		fmt.Fprintf(&b, "  | %s => %d\n", kindCtor(k), i)
	}
	b.WriteString("  end.\n\n")
	b.WriteString("Definition kind_eqb (a b : kind) : bool := kind_idx a =? kind_idx b.\n\n")
	b.WriteString("(* Enumeration.String(): ss[de] *)\nDefinition kind_keyword (k : kind) : bytes :=\n  match k with\n")
	for i, k := range kinds {
		fmt.Fprintf(&b, "  | %s => bs %s\n", kindCtor(k), coqString(ss[i]))
	}
	b.WriteString("  end.\n\n")
	b.WriteString("Definition root_allowed_list : list kind :=\n  [" + joinMap(root, kindCtor, "; ") + "].\n")
	b.WriteString("Definition http_method_list : list kind :=\n  [" + joinMap(httpm, kindCtor, "; ") + "].\n\n")
	b.WriteString("(* directiveAllowedToDirectiveContext *)\nDefinition context_table : list (kind * list kind) :=\n  [\n")
	for i, r := range rows {
		sep := ";"
		if i == len(rows)-1 {
			sep = ""
		}
		fmt.Fprintf(&b, "    (%s, [%s])%s\n", kindCtor(r.parent), joinMap(r.kids, kindCtor, "; "), sep)
	}
	b.WriteString("  ].\n\n")
	fmt.Fprintf(&b, "Definition response_code_lo : N := %d.\nDefinition response_code_hi : N := %d.\n\n", lo, hi)
	b.WriteString("(* kinds that have an entry in core.directiveFunctions *)\nDefinition adder_kinds : list kind :=\n  [" + joinMap(adders, kindCtor, "; ") + "].\n")
	return b.String()
}

func joinMap(xs []string, f func(string) string, sep string) string {
	out := make([]string, len(xs))
	for i, x := range xs {
		out[i] = f(x)
	}
	return strings.Join(out, sep)
}

func responseCodeRange(p *pkg) (int, int) {
	// func isHTTPResponseCode(code int) bool { return code >= LO && code <= HI }
	fd := p.funcs["isHTTPResponseCode"]
	if fd == nil {
		fatal("isHTTPResponseCode not found")
	}
	if fd.Recv != nil || fd.Type.Params == nil || len(fd.Type.Params.List) != 1 || len(fd.Type.Params.List[0].Names) != 1 ||
		identName(fd.Type.Params.List[0].Type) != "int" || len(fd.Body.List) != 1 {
		p.bad(fd, "isHTTPResponseCode shape: func(code int) bool { return code >= LO && code <= HI } expected")
	}
	param := fd.Type.Params.List[0].Names[0].Name
	ret, ok := fd.Body.List[0].(*ast.ReturnStmt)
	if !ok || len(ret.Results) != 1 {
		p.bad(fd, "isHTTPResponseCode shape: a single return expected")
	}
	be, ok := ret.Results[0].(*ast.BinaryExpr)
	if !ok || be.Op != token.LAND {
		p.bad(ret, "isHTTPResponseCode expression")
	}
	l, ok1 := be.X.(*ast.BinaryExpr)
	r, ok2 := be.Y.(*ast.BinaryExpr)
	if !ok1 || !ok2 || l.Op != token.GEQ || r.Op != token.LEQ || identName(l.X) != param || identName(r.X) != param {
		p.bad(ret, "isHTTPResponseCode expression")
	}
	bound := func(e ast.Expr) int {
		bl, ok := e.(*ast.BasicLit)
		if !ok || bl.Kind != token.INT {
			p.bad(e, "isHTTPResponseCode bound: an integer literal expected")
		}
		v, err := strconv.Atoi(bl.Value)
		if err != nil {
			p.bad(e, "isHTTPResponseCode bound: a decimal literal expected")
		}
		return v
	}
	return bound(l.Y), bound(r.Y)
}

func adderKeys(cp *pkg, known map[string]bool) []string {
	fd := cp.funcs["NewJApiCore"]
	if fd == nil {
		fatal("NewJApiCore not found")
	}
	var out []string
	found := false
	ast.Inspect(fd.Body, func(n ast.Node) bool {
		as, ok := n.(*ast.AssignStmt)
		if !ok || len(as.Lhs) != 1 {
			return true
		}
		sel, ok := as.Lhs[0].(*ast.SelectorExpr)
		if !ok || sel.Sel.Name != "directiveFunctions" {
			return true
		}
		cl, ok := as.Rhs[0].(*ast.CompositeLit)
		if !ok {
			cp.bad(as, "directiveFunctions initialiser")
		}
		found = true
		for _, e := range cl.Elts {
			kv := e.(*ast.KeyValueExpr)
			se, ok := kv.Key.(*ast.SelectorExpr)
			if !ok || identName(se.X) != "directive" || !known[se.Sel.Name] {
				cp.bad(kv.Key, "directiveFunctions key")
			}
			out = append(out, se.Sel.Name)
		}
		return false
	})
	if !found {
		fatal("directiveFunctions initialiser not found")
	}
	// closed world: the composite literal above is the ONLY write to the table.  An element assignment, a second
	// assignment of the field, a delete(), or the table handed to a function would make the key set read above a
	// guess, so each of them is refused.
	isTable := func(e ast.Expr) bool {
		sel, ok := e.(*ast.SelectorExpr)
		return ok && sel.Sel.Name == "directiveFunctions"
	}
	for _, f := range cp.files {
		assigns := 0
		ast.Inspect(f, func(n ast.Node) bool {
			switch x := n.(type) {
			case *ast.AssignStmt:
				for _, l := range x.Lhs {
					if ix, ok := l.(*ast.IndexExpr); ok && isTable(ix.X) {
						cp.bad(x, "directiveFunctions is written outside its initialiser (element assignment)")
					}
					if isTable(l) {
						assigns++
						if assigns > 1 {
							cp.bad(x, "directiveFunctions is assigned a second time")
						}
					}
				}
			case *ast.CallExpr:
				for _, a := range x.Args {
					if isTable(a) {
						cp.bad(x, "directiveFunctions is handed to a call (delete, copy, a helper): its key set is no longer the literal's")
					}
				}
			case *ast.IncDecStmt:
				return true
			case *ast.RangeStmt:
				return true
			}
			return true
		})
	}
	return out
}
