package main

// Untrusted inference of a typing of the scanner states (needs / allowed / lexopen /
// gap / minpos / rho) for the checkers of coq/model/TableCheck.v.  Nothing here is
// trusted: a wrong typing makes `table_ok gen_typing` evaluate to false in Coq.

import (
	"fmt"
	"sort"
	"strconv"
	"strings"
)

type leafInfo struct {
	acts []string
	exit string
}

func leavesFor(t *tree, c int) []leafInfo {
	if t.leaf {
		return []leafInfo{{t.acts, t.exit}}
	}
	if strings.HasPrefix(t.cond, "CByteIn [") {
		body := strings.TrimSuffix(strings.TrimPrefix(t.cond, "CByteIn ["), "]")
		in := false
		for _, f := range strings.Split(body, ";") {
			f = strings.TrimSpace(f)
			if f == "" {
				continue
			}
			v, _ := strconv.Atoi(f)
			if v == c {
				in = true
			}
		}
		if in {
			return leavesFor(t.t, c)
		}
		return leavesFor(t.e, c)
	}
	return append(leavesFor(t.t, c), leavesFor(t.e, c)...)
}

type typingInfo struct {
	states  []string // constructor names
	needs   map[string]bool
	allowed map[string]map[string]bool
	lexopen map[string]string // "" = none
	lexset  map[string]bool
	gap     map[string]int
	minpos  map[string]int
	rho     map[string]int
}

const (
	gapCap    = 3
	minposCap = 4
	rhoMax    = 60
	kPot      = 6
)

type leafSummary struct {
	from    string
	c       int
	acts    []string
	exit    string // XNil | XRedo | XErr
	final   string // register after the set-steps (ignoring a pop)
	push    string // pushed state ("" none)
	pop     bool
	bad     bool // more than one stack action etc.
	rewind  int
}

func summarise(from string, c int, lf leafInfo) leafSummary {
	s := leafSummary{from: from, c: c, acts: lf.acts, final: from}
	switch {
	case lf.exit == "XNil":
		s.exit = "XNil"
	case lf.exit == "XRedo":
		s.exit = "XRedo"
	default:
		s.exit = "XErr"
	}
	nstack := 0
	for _, a := range lf.acts {
		f := strings.Fields(a)
		switch f[0] {
		case "ASetStep":
			if s.pop {
				s.bad = true
			}
			s.final = f[1]
		case "APush":
			nstack++
			s.push = f[1]
		case "APushCur":
			nstack++
			s.push = s.final
		case "APop":
			nstack++
			s.pop = true
		case "ARewind":
			n, _ := strconv.Atoi(f[1])
			s.rewind += n
		}
	}
	if nstack > 1 {
		s.bad = true
	}
	return s
}

func inferTyping(stateNames []string, trees map[string]*tree, initial string, begin, ending, single map[string]bool, pairs map[string]string) *typingInfo {
	ti := &typingInfo{needs: map[string]bool{}, allowed: map[string]map[string]bool{}, lexopen: map[string]string{}, lexset: map[string]bool{},
		gap: map[string]int{}, minpos: map[string]int{}, rho: map[string]int{}}
	for _, n := range stateNames {
		ti.states = append(ti.states, stateCtor(n))
	}
	// distinct leaf summaries per state
	var sums []leafSummary
	seen := map[string]bool{}
	for _, n := range stateNames {
		st := stateCtor(n)
		ti.allowed[st] = map[string]bool{}
		for c := 0; c < 256; c++ {
			for _, lf := range leavesFor(trees[n], c) {
				s := summarise(st, c, lf)
				// the byte only matters through c == 0 for the checkers
				key := fmt.Sprintf("%s|%v|%s|%s", st, c == 0, strings.Join(lf.acts, ";"), s.exit)
				if seen[key] {
					continue
				}
				seen[key] = true
				sums = append(sums, s)
			}
		}
	}
	// --- needs / allowed
	for _, s := range sums {
		if s.pop && s.exit != "XErr" {
			ti.needs[s.from] = true
		}
	}
	for changed := true; changed; {
		changed = false
		addAll := func(dst, src string) {
			for k := range ti.allowed[src] {
				if !ti.allowed[dst][k] {
					ti.allowed[dst][k] = true
					changed = true
				}
			}
		}
		for _, s := range sums {
			if s.exit == "XErr" || s.bad || s.pop {
				continue
			}
			t := s.final
			if s.push == "" {
				if ti.needs[t] && t != s.from {
					if !ti.needs[s.from] {
						ti.needs[s.from] = true
						changed = true
					}
					addAll(t, s.from)
				}
			} else if ti.needs[t] {
				if !ti.allowed[t][s.push] {
					ti.allowed[t][s.push] = true
					changed = true
				}
				if ti.needs[s.push] && s.push != s.from {
					if !ti.needs[s.from] {
						ti.needs[s.from] = true
						changed = true
					}
					addAll(s.push, s.from)
				}
			}
		}
	}
	targets := func(s leafSummary) []string {
		if s.pop {
			var out []string
			for k := range ti.allowed[s.from] {
				out = append(out, k)
			}
			sort.Strings(out)
			return out
		}
		return []string{s.final}
	}
	// --- lexopen, gap, minpos: forward dataflow from the initial state
	reached := map[string]bool{initial: true}
	ti.lexopen[initial] = ""
	ti.lexset[initial] = true
	for _, st := range ti.states {
		ti.gap[st] = gapCap
		ti.minpos[st] = minposCap
	}
	ti.gap[initial] = 0
	ti.minpos[initial] = 0
	for round := 0; round < 2000; round++ {
		changed := false
		for _, s := range sums {
			if !reached[s.from] || s.exit == "XErr" || s.bad {
				continue
			}
			if s.c == 0 && s.exit == "XNil" && s.rewind == 0 {
				continue // nothing is dispatched after the end-of-file byte
			}
			open := ti.lexopen[s.from]
			gap := ti.gap[s.from]
			pos := ti.minpos[s.from]
			ok := true
			for _, a := range s.acts {
				f := strings.Fields(a)
				switch f[0] {
				case "AFound":
					back, _ := strconv.Atoi(f[1])
					e := f[2]
					switch {
					case begin[e]:
						if open != "" {
							ok = false
						}
						open = e
						gap = back
					case ending[e]:
						if open == "" || pairs[open] != e {
							ok = false
						}
						open = ""
						gap = back - 1
					case single[e]:
						if open != "" {
							ok = false
						}
						gap = back - 1
					}
				case "ARewind":
					n, _ := strconv.Atoi(f[1])
					gap -= n
					pos -= n
				}
			}
			if !ok {
				continue
			}
			bump := 0
			if s.exit == "XNil" {
				bump = 1
			}
			for _, t := range targets(s) {
				if !reached[t] {
					reached[t] = true
					changed = true
				}
				if !ti.lexset[t] {
					ti.lexset[t] = true
					ti.lexopen[t] = open
					changed = true
				}
				g := gap + bump
				if g > gapCap {
					g = gapCap
				}
				if g < -8 {
					g = -8
				}
				if g < ti.gap[t] {
					ti.gap[t] = g
					changed = true
				}
				p := pos + bump
				if p > minposCap {
					p = minposCap
				}
				if p < 0 {
					p = 0
				}
				if p < ti.minpos[t] {
					ti.minpos[t] = p
					changed = true
				}
			}
		}
		if !changed {
			break
		}
	}
	// --- rho: difference constraints rho[t] <= rho[from] + w, Bellman-Ford from "all = rhoMax"
	for _, st := range ti.states {
		ti.rho[st] = rhoMax
	}
	for round := 0; round < len(ti.states)+2; round++ {
		changed := false
		for _, s := range sums {
			if s.exit == "XErr" || s.bad {
				continue
			}
			if s.c == 0 && s.exit == "XNil" && s.rewind == 0 {
				continue
			}
			bump := 0
			if s.exit == "XNil" {
				bump = 1
			}
			w := kPot*bump - kPot*s.rewind - 1
			for _, t := range targets(s) {
				if v := ti.rho[s.from] + w; v < ti.rho[t] {
					if v < 0 {
						v = 0 // infeasible: the Coq check will say so
					}
					if v < ti.rho[t] {
						ti.rho[t] = v
						changed = true
					}
				}
			}
		}
		if !changed {
			break
		}
	}
	return ti
}

func (ti *typingInfo) coq() string {
	var b strings.Builder
	b.WriteString(header)
	b.WriteString("(* Typing of the scanner states inferred by go2coq (UNTRUSTED: only checked by table_ok). *)\n")
	b.WriteString("From Coq Require Import List NArith ZArith Bool.\nFrom JV.gen Require Import ScannerTable.\nFrom JV.model Require Import TableCheck.\nImport ListNotations.\n\n")
	b.WriteString("Definition gen_needs (s : state) : bool :=\n  match s with\n")
	for _, st := range ti.states {
		if ti.needs[st] {
			fmt.Fprintf(&b, "  | %s => true\n", st)
		}
	}
	b.WriteString("  | _ => false\n  end.\n\n")
	// allowed sets: share identical lists through named definitions
	b.WriteString("Definition gen_allowed (s : state) : list state :=\n  match s with\n")
	for _, st := range ti.states {
		if len(ti.allowed[st]) == 0 {
			continue
		}
		var l []string
		for k := range ti.allowed[st] {
			l = append(l, k)
		}
		sort.Strings(l)
		fmt.Fprintf(&b, "  | %s => [%s]\n", st, strings.Join(l, "; "))
	}
	b.WriteString("  | _ => []\n  end.\n\n")
	b.WriteString("Definition gen_lexopen (s : state) : option evt :=\n  match s with\n")
	for _, st := range ti.states {
		if ti.lexopen[st] != "" {
			fmt.Fprintf(&b, "  | %s => Some %s\n", st, ti.lexopen[st])
		}
	}
	b.WriteString("  | _ => None\n  end.\n\n")
	emitZ := func(name string, m map[string]int, _ int) {
		// default = most frequent value, so that the wildcard clause is never redundant
		cnt := map[int]int{}
		for _, st := range ti.states {
			cnt[m[st]]++
		}
		dflt, best := 0, -1
		for v, n := range cnt {
			if n > best || (n == best && v < dflt) {
				dflt, best = v, n
			}
		}
		fmt.Fprintf(&b, "Definition %s (s : state) : Z :=\n  match s with\n", name)
		for _, st := range ti.states {
			if m[st] != dflt {
				fmt.Fprintf(&b, "  | %s => (%d)%%Z\n", st, m[st])
			}
		}
		fmt.Fprintf(&b, "  | _ => (%d)%%Z\n  end.\n\n", dflt)
	}
	emitZ("gen_gap", ti.gap, gapCap)
	emitZ("gen_minpos", ti.minpos, minposCap)
	emitZ("gen_rho", ti.rho, rhoMax)
	b.WriteString("Definition gen_typing : typing :=\n  {| needs := gen_needs; allowed := gen_allowed; lexopen := gen_lexopen;\n     gap := gen_gap; minpos := gen_minpos; rho := gen_rho |}.\n")
	return b.String()
}
