package main

// Inventory of everything in the library that could make two runs on the same input differ
// -> gen/Inventory.v  (DESIGN.md 3.5; used by C03 and C16).
//
// SCOPE.  The packages inventoried are the module-internal import closure of the public entry
// package `kit` (today: kit, core, catalog, directive, jerr, scanner, notation), non-test files
// only, files behind `//go:build verif` excluded (they are this framework's accessors).  The
// closure is recomputed from the import declarations on every run and emitted as
// `packages`; Coq compares it with the audited list, so a new package that becomes reachable
// from kit is noticed.  NOT inventoried, deliberately: internal/cmd/* (code generators and
// the snapshot checker: separate `main` programs, never linked into the library),
// internal/mocks and test/ (test support), the root package (a go:generate line only), and
// everything outside the module (the schema library, reggen, the standard library): their
// determinism is observed by the dynamic part of C03, not proved.
//
// WHAT is listed (with go/ast + go/types, source importer, offline):
//  1. every `range` over an expression of map type: package, enclosing function (with
//     receiver), operand text, map type, whether the key type is address-like, a syntactic
//     CLASS of the loop body and the body text;
//  2. every `go` statement, every `select`, every reference to an object of the packages
//     time, math/rand, crypto/rand, unsafe, runtime, reflect, maps, every use of sync.Pool and
//     sync.Map, and os.Getenv/Environ/LookupEnv/ExpandEnv/Getpid/Getppid/Hostname/Getwd;
//  3. every package-level `var` and every write to one: assignment / inc-dec / range-assign
//     whose left side is rooted at it, `&v`, call of a pointer-receiver method on it; each
//     with its guard: "init" (inside func init), "once" (inside a function literal passed to
//     (*sync.Once).Do), "decl" (the initialiser expression of a package-level var) or "none";
//  4. every call of the builtin recover().
//
// The classes of a range body (decided on the syntax, conservatively; anything else RB_other):
//   RB_lookup_only            no call except len/cap/conversions, no assignment to anything but
//                             variables declared inside the body, no inc/dec, send, go, defer,
//                             goto, labelled jump; every `return` inside has literal-only
//                             results and all of them are textually identical; no break.
//   RB_insert_into_map_or_set every statement is `m[e] = e'` with m of map type, or a call
//                             statement x.Set(..)/x.Add(..) whose arguments mention the range key
//   RB_appends sorted         every statement is `s = append(s, e...)` for one slice variable s, the
//                             e call-free; sorted = the next statement of the enclosing block
//                             that mentions s is the plain call sort.Strings(s) / sort.Ints(s) /
//                             sort.Float64s(s) / slices.Sort(s) (total order of a primitive type)
//   RB_calls_per_element f    the body contains a `return` (early exit) and calls f (the first
//                             call that is not a builtin or conversion)
//
// Out of reach, stated: %p / %v of pointers, mutation of a global through an alias obtained
// earlier, writes through a global map/slice passed to a callee.

import (
	"bytes"
	"crypto/sha256"
	"encoding/hex"
	"fmt"
	"go/ast"
	"go/importer"
	"go/printer"
	"go/token"
	"go/types"
	"os"
	"path/filepath"
	"sort"
	"strconv"
	"strings"
)

const inventoryVersion = "inv-v6"

var inventoryRoots = []string{"kit"}

// packages whose every referenced object is listed
var ndPackages = map[string]bool{
	"time": true, "math/rand": true, "crypto/rand": true, "unsafe": true, "runtime": true,
	"reflect": true, "maps": true, "golang.org/x/exp/maps": true, "math/rand/v2": true,
}

// single objects of other packages
var ndObjects = map[string]map[string]bool{
	"os": {"Getenv": true, "Environ": true, "LookupEnv": true, "ExpandEnv": true, "Getpid": true,
		"Getppid": true, "Hostname": true, "Getwd": true},
	"sync": {"Pool": true, "Map": true},
}

type invRange struct {
	pkg, fn, operand, operandKind, mapType, class, pos, body string
	ptrKey                                                   bool
}
type invSource struct{ pkg, fn, what, pos string }
type invGlobal struct{ pkg, name, typ, pos string }
type invWrite struct{ pkg, fn, v, kind, guard, pos string }
type invRecover struct{ pkg, fn, pos string }

// a mutation of (or a new binding for) a value of map type
type invMapWrite struct{ pkg, fn, target, targetKind, mapType, kind, stmt, prev, pos string }

// a map passed as an argument to a function of this module
type invFlow struct{ pkg, fn, callee, param, mapType, arg, argKind, pos string }

type inventory struct {
	pkgs     []string
	ranges   []invRange
	sources  []invSource
	globals  []invGlobal
	writes   []invWrite
	recovers []invRecover
	mwrites  []invMapWrite
	flows    []invFlow
}

func modulePath(repo string) string {
	data, err := os.ReadFile(filepath.Join(repo, "go.mod"))
	if err != nil {
		fatal("%v", err)
	}
	for _, line := range strings.Split(string(data), "\n") {
		f := strings.Fields(line)
		if len(f) == 2 && f[0] == "module" {
			return f[1]
		}
	}
	fatal("no module line in go.mod")
	return ""
}

// inventoryClosure: module-internal import closure of the roots (relative directory names)
func inventoryClosure(repo, mod string) (order []string, pkgs map[string]*pkg) {
	pkgs = map[string]*pkg{}
	var visit func(rel string)
	visit = func(rel string) {
		if _, ok := pkgs[rel]; ok {
			return
		}
		p := loadPkg(repo, rel)
		pkgs[rel] = p
		var imps []string
		for _, f := range p.files {
			for _, im := range f.Imports {
				path, _ := strconv.Unquote(im.Path.Value)
				if strings.HasPrefix(path, mod+"/") {
					imps = append(imps, strings.TrimPrefix(path, mod+"/"))
				}
			}
		}
		sort.Strings(imps)
		for _, i := range imps {
			visit(i)
		}
		order = append(order, rel)
	}
	for _, r := range inventoryRoots {
		visit(r)
	}
	sort.Strings(order)
	return order, pkgs
}

func sortedFileNames(p *pkg) []string {
	names := make([]string, 0, len(p.files))
	for n := range p.files {
		names = append(names, n)
	}
	sort.Strings(names)
	return names
}

func genInventory(repo string) string {
	mod := modulePath(repo)
	order, pkgs := inventoryClosure(repo, mod)

	// the answer depends on these sources (and the dependency versions) only: cache by hash
	h := sha256.New()
	fmt.Fprintf(h, "%s %s\n", inventoryVersion, mod)
	for _, extra := range []string{"go.mod", "go.sum"} {
		data, _ := os.ReadFile(filepath.Join(repo, extra))
		fmt.Fprintf(h, "%s %d\n", extra, len(data))
		h.Write(data)
	}
	for _, rel := range order {
		for _, n := range sortedFileNames(pkgs[rel]) {
			src, err := os.ReadFile(filepath.Join(repo, rel, n))
			if err != nil {
				fatal("%v", err)
			}
			fmt.Fprintf(h, "%s/%s %d\n", rel, n, len(src))
			h.Write(src)
		}
	}
	cacheDir := filepath.Join(os.TempDir(), "verif_go2coq_cache")
	cacheFile := filepath.Join(cacheDir, "inventory_"+hex.EncodeToString(h.Sum(nil))[:32])
	if data, err := os.ReadFile(cacheFile); err == nil && bytes.HasPrefix(data, []byte(header)) {
		return string(data)
	}

	for _, kv := range [][2]string{{"GOFLAGS", "-mod=mod"}, {"GOPROXY", "off"}, {"GOSUMDB", "off"}, {"GOTOOLCHAIN", "local"}} {
		os.Setenv(kv[0], kv[1])
	}
	wd, _ := os.Getwd()
	if err := os.Chdir(repo); err != nil {
		fatal("%v", err)
	}
	defer os.Chdir(wd)

	inv := &inventory{pkgs: order}
	// one source importer for all packages: dependencies are type-checked once
	imp := importer.ForCompiler(token.NewFileSet(), "source", nil)
	for _, rel := range order {
		inventoryPackage(inv, repo, mod, rel, pkgs[rel], imp)
	}
	text := inv.coq()
	os.MkdirAll(cacheDir, 0o755)
	tmp := cacheFile + fmt.Sprintf(".%d", os.Getpid())
	if os.WriteFile(tmp, []byte(text), 0o644) == nil {
		os.Rename(tmp, cacheFile)
	}
	return text
}

// ----------------------------------------------------------------------------------------

type invWalker struct {
	inv   *inventory
	rel   string
	repo  string
	mod   string
	p     *pkg
	info  *types.Info
	tpkg  *types.Package
	stack []ast.Node
	fn    string // enclosing function name
	guard string // none | init | once | decl
	decl  *ast.FuncDecl
}

func (w *invWalker) pos(n ast.Node) string {
	ps := w.p.fset.Position(n.Pos())
	rel, err := filepath.Rel(w.repo, ps.Filename)
	if err != nil {
		rel = ps.Filename
	}
	return fmt.Sprintf("%s:%d", filepath.ToSlash(rel), ps.Line)
}

func (w *invWalker) text(n ast.Node) string {
	var b bytes.Buffer
	cfg := printer.Config{Mode: printer.UseSpaces, Tabwidth: 2}
	if err := cfg.Fprint(&b, w.p.fset, n); err != nil {
		return fmt.Sprintf("<%T>", n)
	}
	return b.String()
}

// one line, runs of white space collapsed
func oneLine(s string) string { return strings.Join(strings.Fields(s), " ") }

func inventoryPackage(inv *inventory, repo, mod, rel string, p *pkg, imp types.Importer) {
	names := sortedFileNames(p)
	var files []*ast.File
	for _, n := range names {
		files = append(files, p.files[n])
	}
	var firstErr error
	conf := types.Config{
		Importer: imp,
		Error: func(err error) {
			if firstErr == nil {
				firstErr = err
			}
		},
	}
	info := &types.Info{
		Types:      map[ast.Expr]types.TypeAndValue{},
		Uses:       map[*ast.Ident]types.Object{},
		Defs:       map[*ast.Ident]types.Object{},
		Selections: map[*ast.SelectorExpr]*types.Selection{},
	}
	tpkg, _ := conf.Check(rel, p.fset, files, info)
	if firstErr != nil {
		if te, ok := firstErr.(types.Error); ok {
			panic(unsupported{te.Fset.Position(te.Pos), "package " + rel + " does not type-check: " + te.Msg})
		}
		panic(unsupported{token.Position{Filename: filepath.Join(repo, rel)}, "package " + rel + " does not type-check: " + firstErr.Error()})
	}
	w := &invWalker{inv: inv, rel: rel, repo: repo, mod: mod, p: p, info: info, tpkg: tpkg}
	for _, n := range names {
		f := p.files[n]
		for _, d := range f.Decls {
			switch d := d.(type) {
			case *ast.FuncDecl:
				w.fn = d.Name.Name
				if d.Recv != nil && len(d.Recv.List) == 1 {
					w.fn = recvName(d.Recv.List[0].Type) + "." + d.Name.Name
				}
				w.guard = "none"
				w.decl = d
				if d.Recv == nil && d.Name.Name == "init" {
					w.guard = "init"
				}
				if d.Body != nil {
					w.walk(d.Body)
				}
				// parameter and result types may mention watched packages too
				w.walk(d.Type)
			case *ast.GenDecl:
				w.decl = nil
				if d.Tok == token.VAR {
					for _, s := range d.Specs {
						vs := s.(*ast.ValueSpec)
						for _, nm := range vs.Names {
							if nm.Name == "_" {
								continue
							}
							typ := ""
							if obj := info.Defs[nm]; obj != nil {
								typ = types.TypeString(obj.Type(), w.qualifier)
							}
							inv.globals = append(inv.globals, invGlobal{rel, nm.Name, typ, w.pos(nm)})
						}
						w.fn = "var:" + vs.Names[0].Name
						w.guard = "decl"
						for _, v := range vs.Values {
							w.walk(v)
						}
						if vs.Type != nil {
							w.walk(vs.Type)
						}
					}
				} else {
					w.fn = "decl"
					w.guard = "decl"
					w.walk(d)
				}
			}
		}
	}
}

func (w *invWalker) qualifier(p *types.Package) string {
	if p == w.tpkg {
		return ""
	}
	return p.Name()
}

// rootVar: the package-level variable of THIS package an lvalue-ish expression is rooted at
func (w *invWalker) rootVar(e ast.Expr) *types.Var {
	for {
		switch x := e.(type) {
		case *ast.ParenExpr:
			e = x.X
		case *ast.SelectorExpr:
			// pkg.Var of another package is not ours; x.f: go to x
			if id, ok := x.X.(*ast.Ident); ok {
				if _, isPkg := w.info.Uses[id].(*types.PkgName); isPkg {
					if v, ok := w.info.Uses[x.Sel].(*types.Var); ok && !v.IsField() && v.Parent() == v.Pkg().Scope() {
						return v // a global of another package: still a global write
					}
					return nil
				}
			}
			e = x.X
		case *ast.IndexExpr:
			e = x.X
		case *ast.StarExpr:
			e = x.X
		case *ast.SliceExpr:
			e = x.X
		case *ast.Ident:
			v, ok := w.info.Uses[x].(*types.Var)
			if !ok || v.IsField() || v.Pkg() == nil || v.Parent() != v.Pkg().Scope() {
				return nil
			}
			return v
		default:
			return nil
		}
	}
}

func (w *invWalker) globalName(v *types.Var) string {
	if v.Pkg() == w.tpkg {
		return v.Name()
	}
	return v.Pkg().Name() + "." + v.Name()
}

func (w *invWalker) write(n ast.Node, v *types.Var, kind string) {
	w.inv.writes = append(w.inv.writes, invWrite{w.rel, w.fn, w.globalName(v), kind, w.guard, w.pos(n)})
}

func isSyncOnce(t types.Type) bool {
	if p, ok := t.(*types.Pointer); ok {
		t = p.Elem()
	}
	n, ok := t.(*types.Named)
	return ok && n.Obj().Pkg() != nil && n.Obj().Pkg().Path() == "sync" && n.Obj().Name() == "Once"
}

func (w *invWalker) walk(root ast.Node) {
	var visit func(n ast.Node) bool
	visit = func(n ast.Node) bool {
		if n == nil {
			w.stack = w.stack[:len(w.stack)-1]
			return false
		}
		w.stack = append(w.stack, n)
		switch x := n.(type) {
		case *ast.RangeStmt:
			w.rangeStmt(x)
			if x.Tok == token.ASSIGN {
				for _, e := range []ast.Expr{x.Key, x.Value} {
					if e != nil {
						if v := w.rootVar(e); v != nil {
							w.write(x, v, "range-assign")
						}
					}
				}
			}
		case *ast.GoStmt:
			w.inv.sources = append(w.inv.sources, invSource{w.rel, w.fn, "go statement", w.pos(x)})
		case *ast.SelectStmt:
			w.inv.sources = append(w.inv.sources, invSource{w.rel, w.fn, "select statement", w.pos(x)})
		case *ast.AssignStmt:
			if x.Tok != token.DEFINE {
				for _, l := range x.Lhs {
					if v := w.rootVar(l); v != nil {
						w.write(x, v, "assign")
					}
				}
			}
			w.mapAssign(x)
		case *ast.ReturnStmt:
			for _, r := range x.Results {
				if mt := w.mapTypeOf(r); mt != "" && !isNilIdent(r) {
					w.inv.flows = append(w.inv.flows, invFlow{w.rel, w.fn, "<return>", "", mt, oneLine(w.text(r)), w.exprKind(r), w.pos(x)})
				}
			}
		case *ast.CompositeLit:
			for _, el := range x.Elts {
				kv, ok := el.(*ast.KeyValueExpr)
				if !ok {
					continue
				}
				if mt := w.mapTypeOf(kv.Value); mt != "" && !isNilIdent(kv.Value) {
					tname := "?"
					if tv, ok := w.info.Types[x]; ok && tv.Type != nil {
						tname = types.TypeString(tv.Type, w.qualifier)
					}
					w.inv.mwrites = append(w.inv.mwrites, invMapWrite{w.rel, w.fn, tname + "." + oneLine(w.text(kv.Key)), "field:" + tname + "." + oneLine(w.text(kv.Key)),
						mt, "literal-field", oneLine(w.text(kv)), w.valueKind(kv.Value), w.pos(kv)})
				}
			}
		case *ast.IncDecStmt:
			if v := w.rootVar(x.X); v != nil {
				w.write(x, v, "incdec")
			}
		case *ast.UnaryExpr:
			if x.Op == token.AND {
				if v := w.rootVar(x.X); v != nil {
					w.write(x, v, "address-of")
				}
			}
		case *ast.CallExpr:
			w.mapCall(x)
			if id, ok := x.Fun.(*ast.Ident); ok && id.Name == "recover" {
				if _, isB := w.info.Uses[id].(*types.Builtin); isB {
					w.inv.recovers = append(w.inv.recovers, invRecover{w.rel, w.fn, w.pos(x)})
				}
			}
			if se, ok := x.Fun.(*ast.SelectorExpr); ok {
				if sel := w.info.Selections[se]; sel != nil && sel.Kind() == types.MethodVal {
					if fn, ok := sel.Obj().(*types.Func); ok {
						sig := fn.Type().(*types.Signature)
						if sig.Recv() != nil {
							if _, ptr := sig.Recv().Type().(*types.Pointer); ptr {
								if v := w.rootVar(se.X); v != nil {
									w.write(x, v, "pointer-method "+fn.Name())
								}
							}
						}
					}
					// function literals passed to (*sync.Once).Do are once-guarded
					if se.Sel.Name == "Do" && isSyncOnce(sel.Recv()) {
						for _, a := range x.Args {
							if fl, ok := a.(*ast.FuncLit); ok {
								saved := w.guard
								if w.guard == "none" {
									w.guard = "once"
								}
								ast.Inspect(fl, visit)
								w.guard = saved
							}
						}
						// receiver expression
						ast.Inspect(se, visit)
						for _, a := range x.Args {
							if _, ok := a.(*ast.FuncLit); !ok {
								ast.Inspect(a, visit)
							}
						}
						w.stack = w.stack[:len(w.stack)-1]
						return false
					}
				}
			}
		case *ast.Ident:
			w.identUse(x)
		}
		return true
	}
	ast.Inspect(root, visit)
}

func (w *invWalker) identUse(id *ast.Ident) {
	obj := w.info.Uses[id]
	if obj == nil || obj.Pkg() == nil {
		return
	}
	if _, isPkgName := obj.(*types.PkgName); isPkgName {
		return
	}
	path := obj.Pkg().Path()
	// only package-level objects (not fields / methods reached through a value)
	if obj.Parent() != obj.Pkg().Scope() {
		return
	}
	if ndPackages[path] || ndObjects[path][obj.Name()] {
		w.inv.sources = append(w.inv.sources, invSource{w.rel, w.fn, path + "." + obj.Name(), w.pos(id)})
	}
}

// ----------------------------------------------------------------------------------------
// map ranges

func addressLike(t types.Type, depth int) bool {
	if depth > 6 {
		return false
	}
	switch u := t.Underlying().(type) {
	case *types.Pointer, *types.Interface, *types.Chan:
		return true
	case *types.Basic:
		return u.Kind() == types.UnsafePointer || u.Kind() == types.Uintptr
	case *types.Struct:
		for i := 0; i < u.NumFields(); i++ {
			if addressLike(u.Field(i).Type(), depth+1) {
				return true
			}
		}
	case *types.Array:
		return addressLike(u.Elem(), depth+1)
	}
	return false
}

func (w *invWalker) rangeStmt(rs *ast.RangeStmt) {
	tv, ok := w.info.Types[rs.X]
	if !ok || tv.Type == nil {
		w.p.bad(rs, "range operand without a type")
	}
	t := tv.Type
	if p, ok := t.Underlying().(*types.Pointer); ok { // range over *[N]T
		t = p.Elem()
	}
	if _, isTP := tv.Type.(*types.TypeParam); isTP {
		// range over a value of type-parameter type: it may be a map; listed, never classified
		w.inv.ranges = append(w.inv.ranges, invRange{
			pkg: w.rel, fn: w.fn, operand: oneLine(w.text(rs.X)), operandKind: w.exprKind(rs.X),
			mapType: types.TypeString(tv.Type, w.qualifier) + " (type parameter)", class: "RB_other",
			pos: w.pos(rs), body: oneLine(w.text(rs.Body)),
		})
		return
	}
	mt, ok := t.Underlying().(*types.Map)
	if !ok {
		return
	}
	w.inv.ranges = append(w.inv.ranges, invRange{
		pkg: w.rel, fn: w.fn, operand: oneLine(w.text(rs.X)), operandKind: w.exprKind(rs.X),
		mapType: types.TypeString(tv.Type, w.qualifier),
		class:   w.classify(rs),
		pos:     w.pos(rs),
		body:    oneLine(w.text(rs.Body)),
		ptrKey:  addressLike(mt.Key(), 0),
	})
}

func (w *invWalker) isBuiltinOrConversion(call *ast.CallExpr) bool {
	if tv, ok := w.info.Types[call.Fun]; ok && tv.IsType() {
		return true
	}
	fun := call.Fun
	if p, ok := fun.(*ast.ParenExpr); ok {
		fun = p.X
	}
	if id, ok := fun.(*ast.Ident); ok {
		if _, isB := w.info.Uses[id].(*types.Builtin); isB {
			return true
		}
	}
	return false
}

func (w *invWalker) builtinName(call *ast.CallExpr) string {
	if id, ok := call.Fun.(*ast.Ident); ok {
		if _, isB := w.info.Uses[id].(*types.Builtin); isB {
			return id.Name
		}
	}
	return ""
}

func mentions(n ast.Node, name string) bool {
	if name == "" || name == "_" {
		return false
	}
	found := false
	ast.Inspect(n, func(x ast.Node) bool {
		if id, ok := x.(*ast.Ident); ok && id.Name == name {
			found = true
		}
		return !found
	})
	return found
}

func (w *invWalker) classify(rs *ast.RangeStmt) string {
	body := rs.Body.List
	keyName := ""
	if id, ok := rs.Key.(*ast.Ident); ok {
		keyName = id.Name
	}
	if len(body) == 0 {
		return "RB_lookup_only"
	}

	// --- insert into a map / set
	insert := true
	for _, s := range body {
		switch x := s.(type) {
		case *ast.AssignStmt:
			if x.Tok != token.ASSIGN || len(x.Lhs) != 1 || len(x.Rhs) != 1 {
				insert = false
				break
			}
			ix, ok := x.Lhs[0].(*ast.IndexExpr)
			if !ok {
				insert = false
				break
			}
			tv, ok := w.info.Types[ix.X]
			if !ok {
				insert = false
				break
			}
			if _, isMap := tv.Type.Underlying().(*types.Map); !isMap {
				insert = false
			}
			if w.hasRealCall(x.Rhs[0]) || w.hasRealCall(ix.Index) {
				insert = false
			}
		case *ast.ExprStmt:
			call, ok := x.X.(*ast.CallExpr)
			if !ok {
				insert = false
				break
			}
			se, ok := call.Fun.(*ast.SelectorExpr)
			if !ok || (se.Sel.Name != "Set" && se.Sel.Name != "Add") || len(call.Args) == 0 || !mentions(call.Args[0], keyName) {
				insert = false
			}
		default:
			insert = false
		}
	}
	if insert {
		return "RB_insert_into_map_or_set"
	}

	// --- appends to one slice
	slice := ""
	appends := true
	for _, s := range body {
		x, ok := s.(*ast.AssignStmt)
		if !ok || x.Tok != token.ASSIGN || len(x.Lhs) != 1 || len(x.Rhs) != 1 {
			appends = false
			break
		}
		lhs, ok := x.Lhs[0].(*ast.Ident)
		call, ok2 := x.Rhs[0].(*ast.CallExpr)
		if !ok || !ok2 || w.builtinName(call) != "append" || len(call.Args) < 2 {
			appends = false
			break
		}
		first, ok := call.Args[0].(*ast.Ident)
		if !ok || first.Name != lhs.Name || (slice != "" && slice != lhs.Name) {
			appends = false
			break
		}
		for _, a := range call.Args[1:] {
			if w.hasRealCall(a) {
				appends = false
			}
		}
		slice = lhs.Name
	}
	if appends {
		return fmt.Sprintf("(RB_appends %v)", w.sortedAfter(rs, slice))
	}

	// --- calls per element with early exit
	hasReturn, hasJump, hasMutation := false, false, false
	firstCall := ""
	var returns []string
	literalReturns := true
	declared := map[string]bool{}
	ast.Inspect(rs.Body, func(n ast.Node) bool {
		switch x := n.(type) {
		case *ast.FuncLit:
			return false
		case *ast.ReturnStmt:
			hasReturn = true
			returns = append(returns, oneLine(w.text(x)))
			for _, r := range x.Results {
				if !isLiteralish(r) {
					literalReturns = false
				}
			}
		case *ast.BranchStmt:
			if x.Tok != token.CONTINUE || x.Label != nil {
				hasJump = true
			}
		case *ast.CallExpr:
			if !w.isBuiltinOrConversion(x) {
				if firstCall == "" {
					firstCall = oneLine(w.text(x.Fun))
				}
			} else if b := w.builtinName(x); b != "" && b != "len" && b != "cap" {
				hasMutation = true // append, delete, copy, panic, ... are not "lookups"
			}
		case *ast.AssignStmt:
			if x.Tok == token.DEFINE {
				for _, l := range x.Lhs {
					if id, ok := l.(*ast.Ident); ok {
						declared[id.Name] = true
					}
				}
			} else {
				for _, l := range x.Lhs {
					if id, ok := l.(*ast.Ident); !ok || !declared[id.Name] {
						hasMutation = true
					}
				}
			}
		case *ast.IncDecStmt, *ast.SendStmt, *ast.GoStmt, *ast.DeferStmt, *ast.LabeledStmt:
			hasMutation = true
		}
		return true
	})
	if firstCall == "" && !hasMutation && !hasJump && literalReturns {
		same := true
		for _, r := range returns {
			if r != returns[0] {
				same = false
			}
		}
		if same {
			return "RB_lookup_only"
		}
	}
	if hasReturn && firstCall != "" {
		return "(RB_calls_per_element " + safeCoqString(firstCall) + ")"
	}
	return "RB_other"
}

func isLiteralish(e ast.Expr) bool {
	switch x := e.(type) {
	case *ast.BasicLit:
		return true
	case *ast.Ident:
		return x.Name == "true" || x.Name == "false" || x.Name == "nil"
	case *ast.ParenExpr:
		return isLiteralish(x.X)
	case *ast.UnaryExpr:
		return x.Op == token.SUB && isLiteralish(x.X)
	}
	return false
}

func (w *invWalker) hasRealCall(e ast.Expr) bool {
	found := false
	ast.Inspect(e, func(n ast.Node) bool {
		if c, ok := n.(*ast.CallExpr); ok && !w.isBuiltinOrConversion(c) {
			found = true
		}
		return !found
	})
	return found
}

// sortedAfter: does a later statement of the block that contains rs call sort.*/slices.Sort*
// with the slice among its arguments?
func (w *invWalker) sortedAfter(rs *ast.RangeStmt, slice string) bool {
	// w.stack ends with rs; its parent should be a block (or a case clause)
	if len(w.stack) < 2 {
		return false
	}
	var list []ast.Stmt
	switch p := w.stack[len(w.stack)-2].(type) {
	case *ast.BlockStmt:
		list = p.List
	case *ast.CaseClause:
		list = p.Body
	case *ast.CommClause:
		list = p.Body
	default:
		return false
	}
	after := false
	for _, s := range list {
		if s == ast.Stmt(rs) {
			after = true
			continue
		}
		if !after {
			continue
		}
		// only a plain call statement counts (a sort hidden under an `if` may not run)
		es, ok := s.(*ast.ExprStmt)
		if !ok {
			// any other statement that mentions the slice before it is sorted: it may be
			// read unsorted
			if mentions(s, slice) {
				return false
			}
			continue
		}
		call, ok := es.X.(*ast.CallExpr)
		if !ok {
			continue
		}
		se, ok := call.Fun.(*ast.SelectorExpr)
		if !ok {
			if mentions(s, slice) {
				return false
			}
			continue
		}
		id, ok := se.X.(*ast.Ident)
		if ok {
			if pn, isPkg := w.info.Uses[id].(*types.PkgName); isPkg {
				path := pn.Imported().Path()
				// only sorts by the TOTAL order of a primitive type: equal elements are identical, so
				// the sorted slice is a function of the multiset collected (sort.Slice & co. with
				// a caller-supplied comparison may leave ties in iteration order)
				isSort := (path == "sort" && (se.Sel.Name == "Strings" || se.Sel.Name == "Ints" || se.Sel.Name == "Float64s")) ||
					((path == "slices" || path == "golang.org/x/exp/slices") && se.Sel.Name == "Sort")
				if isSort && len(call.Args) > 0 && mentions(call.Args[0], slice) {
					return true
				}
			}
		}
		if mentions(s, slice) {
			return false
		}
	}
	return false
}

// ----------------------------------------------------------------------------------------
// maps: where they are written, where they flow

func isNilIdent(e ast.Expr) bool {
	id, ok := e.(*ast.Ident)
	return ok && id.Name == "nil"
}

// mapTypeOf: the type text of e when e has map type, else ""
func (w *invWalker) mapTypeOf(e ast.Expr) string {
	tv, ok := w.info.Types[e]
	if !ok || tv.Type == nil {
		return ""
	}
	if _, isMap := tv.Type.Underlying().(*types.Map); !isMap {
		return ""
	}
	return types.TypeString(tv.Type, w.qualifier)
}

func within(pos token.Pos, n ast.Node) bool {
	return n != nil && n.Pos() <= pos && pos < n.End()
}

// exprKind says what an expression denotes, resolved with go/types:
//
//	field:T.f   a field f selected from a value of (pointer to) named type T
//	param:x     a parameter, result or receiver of an enclosing function (literal)
//	local:x     another local variable
//	global:x    a package-level variable
//	call:<text> | other:<text>
func (w *invWalker) exprKind(e ast.Expr) string {
	switch x := e.(type) {
	case *ast.ParenExpr:
		return w.exprKind(x.X)
	case *ast.SelectorExpr:
		if sel := w.info.Selections[x]; sel != nil && sel.Kind() == types.FieldVal {
			t := sel.Recv()
			if p, ok := t.(*types.Pointer); ok {
				t = p.Elem()
			}
			tn := types.TypeString(t, w.qualifier)
			return "field:" + tn + "." + x.Sel.Name
		}
		if v, ok := w.info.Uses[x.Sel].(*types.Var); ok && !v.IsField() {
			return "global:" + oneLine(w.text(x))
		}
	case *ast.Ident:
		v, ok := w.info.Uses[x].(*types.Var)
		if !ok {
			if d, ok2 := w.info.Defs[x].(*types.Var); ok2 {
				v = d
			} else {
				break
			}
		}
		if v.Pkg() != nil && v.Parent() == v.Pkg().Scope() {
			return "global:" + x.Name
		}
		if w.decl != nil && (within(v.Pos(), w.decl.Type) || (w.decl.Recv != nil && within(v.Pos(), w.decl.Recv))) {
			return "param:" + x.Name
		}
		for _, n := range w.stack {
			if fl, ok := n.(*ast.FuncLit); ok && within(v.Pos(), fl.Type) {
				return "param:" + x.Name
			}
		}
		return "local:" + x.Name
	case *ast.CallExpr:
		return "call:" + oneLine(w.text(x.Fun))
	}
	return "other:" + oneLine(w.text(e))
}

// valueKind: exprKind, with `nil` and `fresh` (make(..) / empty composite literal) singled out
func (w *invWalker) valueKind(e ast.Expr) string {
	if isNilIdent(e) {
		return "nil"
	}
	if cl, ok := e.(*ast.CompositeLit); ok && len(cl.Elts) == 0 {
		return "fresh"
	}
	if c, ok := e.(*ast.CallExpr); ok && w.builtinName(c) == "make" {
		return "fresh"
	}
	return w.exprKind(e)
}

// prevStmt: text of the statement right before s in the statement list that holds it
func (w *invWalker) prevStmt(s ast.Stmt) string {
	if len(w.stack) < 2 {
		return ""
	}
	var list []ast.Stmt
	switch p := w.stack[len(w.stack)-2].(type) {
	case *ast.BlockStmt:
		list = p.List
	case *ast.CaseClause:
		list = p.Body
	case *ast.CommClause:
		list = p.Body
	}
	for i, x := range list {
		if x == s && i > 0 {
			return oneLine(w.text(list[i-1]))
		}
	}
	return ""
}

func (w *invWalker) mapAssign(x *ast.AssignStmt) {
	for i, l := range x.Lhs {
		if ix, ok := l.(*ast.IndexExpr); ok {
			if mt := w.mapTypeOf(ix.X); mt != "" {
				w.inv.mwrites = append(w.inv.mwrites, invMapWrite{w.rel, w.fn, oneLine(w.text(ix.X)), w.exprKind(ix.X), mt,
					"index-assign", oneLine(w.text(x)), w.prevStmt(x), w.pos(x)})
			}
			continue
		}
		if id, ok := l.(*ast.Ident); ok && id.Name == "_" {
			continue
		}
		// a (new) binding of a map value: `x := m`, `x.f = m`
		var mt string
		if x.Tok == token.DEFINE {
			if id, ok := l.(*ast.Ident); ok {
				if obj := w.info.Defs[id]; obj != nil {
					if _, isMap := obj.Type().Underlying().(*types.Map); isMap {
						mt = types.TypeString(obj.Type(), w.qualifier)
					}
				} else {
					mt = w.mapTypeOf(l)
				}
			}
		} else {
			mt = w.mapTypeOf(l)
		}
		if mt == "" {
			continue
		}
		rhs := "other:(multi-value)"
		if len(x.Rhs) == len(x.Lhs) {
			rhs = w.valueKind(x.Rhs[i])
		}
		// for a binding, `prev` carries what is bound
		w.inv.mwrites = append(w.inv.mwrites, invMapWrite{w.rel, w.fn, oneLine(w.text(l)), w.exprKind(l), mt,
			"bind", oneLine(w.text(x)), rhs, w.pos(x)})
	}
}

func (w *invWalker) relOfPkg(p *types.Package) (string, bool) {
	if p == nil {
		return "", false
	}
	if p == w.tpkg {
		return w.rel, true
	}
	if strings.HasPrefix(p.Path(), w.mod+"/") {
		return strings.TrimPrefix(p.Path(), w.mod+"/"), true
	}
	return "", false
}

func (w *invWalker) mapCall(call *ast.CallExpr) {
	if w.builtinName(call) == "delete" && len(call.Args) == 2 {
		if mt := w.mapTypeOf(call.Args[0]); mt != "" {
			var st ast.Stmt
			if len(w.stack) >= 2 {
				st, _ = w.stack[len(w.stack)-2].(ast.Stmt)
			}
			prev := ""
			if st != nil {
				w.stack = w.stack[:len(w.stack)-1]
				prev = w.prevStmt(st)
				w.stack = append(w.stack, call)
			}
			w.inv.mwrites = append(w.inv.mwrites, invMapWrite{w.rel, w.fn, oneLine(w.text(call.Args[0])), w.exprKind(call.Args[0]), mt,
				"delete", oneLine(w.text(call)), prev, w.pos(call)})
		}
		return
	}
	// callee declared in this module?
	var fn *types.Func
	switch f := call.Fun.(type) {
	case *ast.Ident:
		fn, _ = w.info.Uses[f].(*types.Func)
	case *ast.SelectorExpr:
		if sel := w.info.Selections[f]; sel != nil {
			fn, _ = sel.Obj().(*types.Func)
		} else {
			fn, _ = w.info.Uses[f.Sel].(*types.Func)
		}
	}
	calleeName := ""
	var sig *types.Signature
	if fn != nil {
		rel, ours := w.relOfPkg(fn.Pkg())
		if !ours {
			// a map handed to code outside the module: listed as a flow to "<external>"
			rel = "<external>"
			if fn.Pkg() != nil {
				rel = "<external>" + fn.Pkg().Path()
			}
		}
		sig, _ = fn.Type().(*types.Signature)
		calleeName = rel + "." + fn.Name()
		if sig != nil && sig.Recv() != nil {
			t := sig.Recv().Type()
			if p, ok := t.(*types.Pointer); ok {
				t = p.Elem()
			}
			if n, ok := t.(*types.Named); ok {
				calleeName = rel + "." + n.Obj().Name() + "." + fn.Name()
			}
		}
	} else {
		if w.isBuiltinOrConversion(call) {
			return
		}
		// a function value: parameters unknown by name
		calleeName = "<func value>" + oneLine(w.text(call.Fun))
		if tv, ok := w.info.Types[call.Fun]; ok && tv.Type != nil {
			sig, _ = tv.Type.Underlying().(*types.Signature)
		}
	}
	for i, a := range call.Args {
		mt := w.mapTypeOf(a)
		if mt == "" || isNilIdent(a) {
			continue
		}
		pname := fmt.Sprintf("#%d", i)
		if sig != nil && sig.Params() != nil {
			j := i
			if j >= sig.Params().Len() {
				j = sig.Params().Len() - 1
			}
			if j >= 0 && sig.Params().At(j).Name() != "" {
				pname = sig.Params().At(j).Name()
			}
		}
		w.inv.flows = append(w.inv.flows, invFlow{w.rel, w.fn, calleeName, pname, mt, oneLine(w.text(a)), w.exprKind(a), w.pos(call)})
	}
}

// ----------------------------------------------------------------------------------------
// output

func coqBool(b bool) string {
	if b {
		return "true"
	}
	return "false"
}

func coqList(b *strings.Builder, name, typ string, items []string) {
	fmt.Fprintf(b, "Definition %s : list %s :=\n  [", name, typ)
	for i, it := range items {
		if i != 0 {
			b.WriteString(";")
		}
		b.WriteString("\n    " + it)
	}
	b.WriteString("\n  ].\n\n")
}

func (inv *inventory) coq() string {
	var b strings.Builder
	b.WriteString(header)
	b.WriteString("(* Inventory of the sites that could make two runs on the same input differ (go2coq/inventory.go):\n" +
		"   ranges over maps, goroutines/select/time/rand/env/unsafe/runtime/reflect/sync.Pool uses,\n" +
		"   package-level variables and the writes to them, recover() sites.  Packages: the\n" +
		"   module-internal import closure of `kit`, non-test files, verif-tagged files excluded. *)\n")
	b.WriteString("From Coq Require Import List String.\nImport ListNotations.\nLocal Open Scope string_scope.\n\n")
	b.WriteString("Inductive range_body : Set :=\n| RB_lookup_only\n| RB_insert_into_map_or_set\n" +
		"| RB_calls_per_element (callee : string)\n| RB_appends (sorted_after : bool)\n| RB_other.\n\n")
	b.WriteString("Record map_range : Set := { mr_pkg : string; mr_func : string; mr_operand : string; mr_operand_kind : string;\n" +
		"  mr_map_type : string; mr_addr_key : bool; mr_class : range_body; mr_pos : string; mr_body : string }.\n")
	b.WriteString("Record nd_source : Set := { nd_pkg : string; nd_func : string; nd_what : string; nd_pos : string }.\n")
	b.WriteString("Record global_var : Set := { gv_pkg : string; gv_name : string; gv_type : string; gv_pos : string }.\n")
	b.WriteString("(* gw_guard: \"init\" | \"once\" | \"decl\" | \"none\" *)\n")
	b.WriteString("Record global_write : Set := { gw_pkg : string; gw_func : string; gw_var : string; gw_kind : string;\n" +
		"  gw_guard : string; gw_pos : string }.\n")
	b.WriteString("Record recover_site : Set := { rc_pkg : string; rc_func : string; rc_pos : string }.\n")
	b.WriteString("(* kinds of expressions (resolved with go/types): field:T.f | param:x | local:x | global:x | call:.. | other:..\n" +
		"   mw_kind: index-assign (m[k] = v; mw_prev = the statement before it) | delete | bind (x := m, x.f = m;\n" +
		"   mw_prev = kind of what is bound, `fresh` for make/empty literal) | literal-field (T{f: m}; mw_prev = kind of m) *)\n")
	b.WriteString("Record map_write : Set := { mw_pkg : string; mw_func : string; mw_target : string; mw_target_kind : string;\n" +
		"  mw_map_type : string; mw_kind : string; mw_stmt : string; mw_prev : string; mw_pos : string }.\n")
	b.WriteString("(* a map passed to a function (mf_callee = pkg.[Type.]Func of this module, `<external>path.Func`,\n" +
		"   `<func value>..`) or returned (`<return>`) *)\n")
	b.WriteString("Record map_flow : Set := { mf_pkg : string; mf_func : string; mf_callee : string; mf_param : string;\n" +
		"  mf_map_type : string; mf_arg : string; mf_arg_kind : string; mf_pos : string }.\n\n")

	coqList(&b, "packages", "string", mapStrings(inv.pkgs, safeCoqString))

	var items []string
	for _, r := range inv.ranges {
		items = append(items, fmt.Sprintf("{| mr_pkg := %s; mr_func := %s; mr_operand := %s; mr_operand_kind := %s;\n       mr_map_type := %s; mr_addr_key := %s; mr_class := %s; mr_pos := %s;\n       mr_body := %s |}",
			safeCoqString(r.pkg), safeCoqString(r.fn), safeCoqString(r.operand), safeCoqString(r.operandKind), safeCoqString(r.mapType), coqBool(r.ptrKey), r.class, safeCoqString(r.pos), safeCoqString(r.body)))
	}
	coqList(&b, "map_ranges", "map_range", items)

	items = nil
	for _, s := range inv.sources {
		items = append(items, fmt.Sprintf("{| nd_pkg := %s; nd_func := %s; nd_what := %s; nd_pos := %s |}",
			safeCoqString(s.pkg), safeCoqString(s.fn), safeCoqString(s.what), safeCoqString(s.pos)))
	}
	coqList(&b, "nondeterminism_sources", "nd_source", items)

	items = nil
	for _, g := range inv.globals {
		items = append(items, fmt.Sprintf("{| gv_pkg := %s; gv_name := %s; gv_type := %s; gv_pos := %s |}",
			safeCoqString(g.pkg), safeCoqString(g.name), safeCoqString(g.typ), safeCoqString(g.pos)))
	}
	coqList(&b, "globals", "global_var", items)

	items = nil
	for _, g := range inv.writes {
		items = append(items, fmt.Sprintf("{| gw_pkg := %s; gw_func := %s; gw_var := %s; gw_kind := %s; gw_guard := %s; gw_pos := %s |}",
			safeCoqString(g.pkg), safeCoqString(g.fn), safeCoqString(g.v), safeCoqString(g.kind), safeCoqString(g.guard), safeCoqString(g.pos)))
	}
	coqList(&b, "global_writes", "global_write", items)

	items = nil
	for _, r := range inv.recovers {
		items = append(items, fmt.Sprintf("{| rc_pkg := %s; rc_func := %s; rc_pos := %s |}",
			safeCoqString(r.pkg), safeCoqString(r.fn), safeCoqString(r.pos)))
	}
	coqList(&b, "recovers", "recover_site", items)

	items = nil
	for _, m := range inv.mwrites {
		items = append(items, fmt.Sprintf("{| mw_pkg := %s; mw_func := %s; mw_target := %s; mw_target_kind := %s;\n       mw_map_type := %s; mw_kind := %s;\n       mw_stmt := %s;\n       mw_prev := %s; mw_pos := %s |}",
			safeCoqString(m.pkg), safeCoqString(m.fn), safeCoqString(m.target), safeCoqString(m.targetKind), safeCoqString(m.mapType),
			safeCoqString(m.kind), safeCoqString(m.stmt), safeCoqString(m.prev), safeCoqString(m.pos)))
	}
	coqList(&b, "map_writes", "map_write", items)

	items = nil
	for _, f := range inv.flows {
		items = append(items, fmt.Sprintf("{| mf_pkg := %s; mf_func := %s; mf_callee := %s; mf_param := %s;\n       mf_map_type := %s; mf_arg := %s; mf_arg_kind := %s; mf_pos := %s |}",
			safeCoqString(f.pkg), safeCoqString(f.fn), safeCoqString(f.callee), safeCoqString(f.param), safeCoqString(f.mapType),
			safeCoqString(f.arg), safeCoqString(f.argKind), safeCoqString(f.pos)))
	}
	coqList(&b, "map_flows", "map_flow", items)

	b.WriteString("(* informational: ranged maps whose key is address-like (pointer, interface, chan): their\n" +
		"   order is map order like any other, nothing extra to audit *)\n")
	b.WriteString("Definition addr_key_map_ranges : list map_range := filter mr_addr_key map_ranges.\n")
	return b.String()
}

func mapStrings(xs []string, f func(string) string) []string {
	out := make([]string, len(xs))
	for i, x := range xs {
		out[i] = f(x)
	}
	return out
}
