// go2coq regenerates the Coq models under /verif/coq/gen from the Go sources of
// /repo.  It accepts a deliberately small subset of Go and fails loudly (exit 2,
// "go2coq: <file>:<line>: unsupported ...") on anything else.
//
// usage: go2coq -repo /repo -out /verif/coq/gen [-only name,...]
package main

import (
	"flag"
	"fmt"
	"go/ast"
	"go/build/constraint"
	"go/parser"
	"go/token"
	"os"
	"path/filepath"
	"sort"
	"strings"
)

type unsupported struct {
	pos token.Position
	msg string
}

func (u unsupported) Error() string {
	return fmt.Sprintf("%s:%d: unsupported %s", u.pos.Filename, u.pos.Line, u.msg)
}

type pkg struct {
	fset  *token.FileSet
	files map[string]*ast.File // by base name
	funcs map[string]*ast.FuncDecl
	dir   string
}

func (p *pkg) bad(n ast.Node, format string, a ...any) {
	panic(unsupported{p.fset.Position(n.Pos()), fmt.Sprintf(format, a...)})
}

func loadPkg(repo, rel string) *pkg {
	p := &pkg{fset: token.NewFileSet(), files: map[string]*ast.File{}, funcs: map[string]*ast.FuncDecl{}, dir: filepath.Join(repo, rel)}
	ents, err := os.ReadDir(p.dir)
	if err != nil {
		fatal("%v", err)
	}
	for _, e := range ents {
		n := e.Name()
		if e.IsDir() || !strings.HasSuffix(n, ".go") || strings.HasSuffix(n, "_test.go") {
			continue
		}
		src, err := os.ReadFile(filepath.Join(p.dir, n))
		if err != nil {
			fatal("%v", err)
		}
		// files guarded by the verif build tag are hooks, never part of the model
		if verifOnly(filepath.Join(p.dir, n), src) {
			continue
		}
		f, err := parser.ParseFile(p.fset, filepath.Join(p.dir, n), src, parser.ParseComments)
		if err != nil {
			fatal("%v", err)
		}
		p.files[n] = f
		for _, d := range f.Decls {
			if fd, ok := d.(*ast.FuncDecl); ok {
				name := fd.Name.Name
				if fd.Recv != nil && len(fd.Recv.List) == 1 {
					name = recvName(fd.Recv.List[0].Type) + "." + name
				}
				p.funcs[name] = fd
			}
		}
	}
	return p
}

// verifOnly: the file carries the build constraint `//go:build verif` exactly (this framework's add-only accessors).  Any
// other constraint that mentions the tag (`!verif`, `verif && x`, ...) would make the library the harness is built from
// (-tags verif) differ from the code that is translated: refused.
func verifOnly(path string, src []byte) bool {
	for i, line := range strings.Split(string(src), "\n") {
		line = strings.TrimSpace(line)
		if strings.HasPrefix(line, "package ") {
			break
		}
		if !constraint.IsGoBuild(line) {
			continue
		}
		x, err := constraint.Parse(line)
		if err != nil {
			panic(unsupported{token.Position{Filename: path, Line: i + 1}, "build constraint: " + err.Error()})
		}
		if x.String() == "verif" {
			return true
		}
		mentions := false
		x.Eval(func(tag string) bool {
			if tag == "verif" {
				mentions = true
			}
			return false
		})
		// Eval short-circuits: ask again with every other tag true
		x.Eval(func(tag string) bool {
			if tag == "verif" {
				mentions = true
			}
			return true
		})
		if mentions {
			panic(unsupported{token.Position{Filename: path, Line: i + 1}, fmt.Sprintf("build constraint %q: only `//go:build verif` (a hook file, skipped) may mention the verif tag", line)})
		}
	}
	return false
}

func recvName(e ast.Expr) string {
	switch t := e.(type) {
	case *ast.StarExpr:
		return recvName(t.X)
	case *ast.Ident:
		return t.Name
	case *ast.IndexExpr:
		return recvName(t.X)
	}
	return "?"
}

func fatal(format string, a ...any) {
	fmt.Fprintf(os.Stderr, "go2coq: "+format+"\n", a...)
	os.Exit(2)
}

type generator struct {
	name string
	file string
	run  func(repo string) string
}

func main() {
	repo := flag.String("repo", "/repo", "repository root")
	out := flag.String("out", "/verif/coq/gen", "output directory")
	only := flag.String("only", "", "comma-separated generator names")
	flag.Parse()

	gens := []generator{
		{"includename", "IncludeName.v", genIncludeName},
		{"tagname", "TagName.v", genTagName},
		{"tables", "DirectiveTables.v", genDirectiveTables},
		{"scanner", "ScannerTable.v", genScanner},
		{"typing", "ScannerTyping.v", genTyping},
		{"collections", "Collections.v", genCollections},
		{"rules", "RulesFacts.v", genRules},
		{"inventory", "Inventory.v", genInventory},
	}
	want := map[string]bool{}
	for _, n := range strings.Split(*only, ",") {
		if n != "" {
			want[n] = true
		}
	}
	failed := []string{}
	for _, g := range gens {
		if len(want) != 0 && !want[g.name] {
			continue
		}
		func() {
			defer func() {
				if r := recover(); r != nil {
					if u, ok := r.(unsupported); ok {
						fmt.Fprintf(os.Stderr, "go2coq: %s: %s\n", g.name, u.Error())
						fmt.Printf("FAILED %s %s\n", g.name, u.Error())
						failed = append(failed, g.name)
						return
					}
					panic(r)
				}
			}()
			text := g.run(*repo)
			path := filepath.Join(*out, g.file)
			old, err := os.ReadFile(path)
			if err == nil && string(old) == text {
				fmt.Printf("UNCHANGED %s\n", g.name)
				return
			}
			if err := os.WriteFile(path, []byte(text), 0o644); err != nil {
				fatal("%v", err)
			}
			fmt.Printf("WROTE %s\n", g.name)
		}()
	}
	if len(failed) != 0 {
		sort.Strings(failed)
		os.Exit(3)
	}
}

const header = "(* GENERATED by /verif/go2coq from the Go sources of /repo.  DO NOT EDIT. *)\n"
