package main

import (
	"os"
	"path/filepath"
	"strings"
	"testing"
)

// A synthetic module (stdlib imports only, so the source importer works offline) with one
// loop per class and one site per kind of nondeterminism source.
const invTestSrc = `package kit

import (
	"errors"
	"os"
	"sort"
	"sync"
	"time"
)

var counter int
var table = map[string]int{"a": 1}
var once sync.Once
var built map[string]int

type T struct{ rules map[string]int }

func lookup(m map[string]int, x string) bool {
	for k := range m {
		if k == x {
			return true
		}
	}
	return false
}

func insert(m map[string]int) map[string]int {
	out := map[string]int{}
	for k, v := range m {
		out[k] = v
	}
	return out
}

func check(k string) error { return errors.New(k) }

func calls(m map[string]int) error {
	for k := range m {
		if err := check(k); err != nil {
			return err
		}
	}
	return nil
}

func collectSorted(m map[string]int) []string {
	var names []string
	for k := range m {
		names = append(names, k)
	}
	sort.Strings(names)
	return names
}

func collectUnsorted(m map[string]int) []string {
	var names []string
	for k := range m {
		names = append(names, k)
	}
	return names
}

func collectUsedBeforeSort(m map[string]int) int {
	var names []string
	for k := range m {
		names = append(names, k)
	}
	n := len(names[0])
	sort.Strings(names)
	return n
}

func collectSortSlice(m map[string]int) []string {
	var names []string
	for k := range m {
		names = append(names, k)
	}
	sort.Slice(names, func(i, j int) bool { return len(names[i]) < len(names[j]) })
	return names
}

func other(m map[string]int) string {
	s := ""
	for k := range m {
		s += k
	}
	return s
}

func (t *T) fill() {
	t.rules["x"] = 1
	counter++
	go func() {}()
	_ = time.Now()
	_ = os.Getenv("X")
	once.Do(func() { built = map[string]int{} })
	defer func() { recover() }()
	for range t.rules {
	}
}

func init() { table["b"] = 2 }
`

func TestInventoryClasses(t *testing.T) {
	dir := t.TempDir()
	t.Setenv("TMPDIR", dir) // private cache (restored when the test ends: later tests need a live temporary directory)
	if err := os.WriteFile(filepath.Join(dir, "go.mod"), []byte("module example.com/m\n\ngo 1.19\n"), 0o644); err != nil {
		t.Fatal(err)
	}
	os.MkdirAll(filepath.Join(dir, "kit"), 0o755)
	if err := os.WriteFile(filepath.Join(dir, "kit", "kit.go"), []byte(invTestSrc), 0o644); err != nil {
		t.Fatal(err)
	}
	out := genInventory(dir)
	entry := func(fn string) string {
		i := strings.Index(out, `mr_func := "`+fn+`"`)
		if i < 0 {
			t.Fatalf("no map range in %s\n%s", fn, out)
		}
		j := strings.Index(out[i:], "|}")
		return out[i : i+j]
	}
	for fn, class := range map[string]string{
		"lookup":                "mr_class := RB_lookup_only;",
		"insert":                "mr_class := RB_insert_into_map_or_set;",
		"calls":                 `mr_class := (RB_calls_per_element "check");`,
		"collectSorted":         "mr_class := (RB_appends true);",
		"collectUnsorted":       "mr_class := (RB_appends false);",
		"collectUsedBeforeSort": "mr_class := (RB_appends false);",
		"collectSortSlice":      "mr_class := (RB_appends false);",
		"other":                 "mr_class := RB_other;",
		"T.fill":                "mr_class := RB_lookup_only;",
	} {
		if e := entry(fn); !strings.Contains(e, class) {
			t.Errorf("%s: want %s in\n%s", fn, class, e)
		}
	}
	if !strings.Contains(entry("T.fill"), `mr_operand_kind := "field:T.rules"`) || !strings.Contains(entry("calls"), `mr_operand_kind := "param:m"`) {
		t.Errorf("operand kinds:\n%s\n%s", entry("T.fill"), entry("calls"))
	}
	for _, want := range []string{
		`nd_what := "go statement"`, `nd_what := "time.Now"`, `nd_what := "os.Getenv"`,
		`gv_name := "counter"`, `gv_name := "table"`, `gv_name := "once"`, `gv_name := "built"`,
		`gw_var := "counter"; gw_kind := "incdec"; gw_guard := "none"`,
		`gw_var := "built"; gw_kind := "assign"; gw_guard := "once"`,
		`gw_var := "table"; gw_kind := "assign"; gw_guard := "init"`,
		`gw_var := "once"; gw_kind := "pointer-method Do"; gw_guard := "none"`,
		`rc_func := "T.fill"`,
		`mw_target_kind := "field:T.rules"`,
		`"kit"`,
	} {
		if !strings.Contains(out, want) {
			t.Errorf("missing %s", want)
		}
	}
	if n := strings.Count(out, "mr_pkg :="); n != 9 {
		t.Errorf("number of map ranges: %d", n)
	}
}
