package main

// Generated collections (catalog/*_gen.go, directive/directives_gen.go) -> gen/Collections.v
//
// For every type marked `// gen:OrderedMap`, `// gen:UnsafeOrderedMap` or `// gen:Set`
// and every function of the corresponding *_gen.go file this generator
//   1. strips and records the lock prefix (`m.mx.Lock(); defer m.mx.Unlock()` or the
//      RLock/RUnlock pair) and rejects any other mention of the mutex,
//   2. compares the remaining function (signature + body) with the NORMAL FORMS below.
//      Normal forms are Go source parsed with go/parser; the comparison is on the AST
//      (positions and comments ignored), up to consistent renaming of receiver, parameters
//      and local variables, with the metavariables T_ (collection type), K_ (key type),
//      V_ (value type), TItem_ (the `<T>Item` struct); `type x = func(...)` aliases of the
//      package are looked through,
//   3. records which methods of the receiver the body calls.
// Anything that matches no normal form is `unsupported` => FAILED collections.
// The operation a method denotes is decided by its BODY, not by its name; Coq then checks
// (OrderedMapProofs.ops_ok) that every name carries the expected operation and
// (locks_ok) that the lock fits the operation.
//
// Outside the generated files: no method may be declared on a collection type, and (checked
// with go/types) no field `data`/`order`/`mx` of a collection type may be selected.

import (
	"crypto/sha256"
	"encoding/hex"
	"fmt"
	"go/ast"
	"go/importer"
	"go/parser"
	"go/token"
	"go/types"
	"os"
	"path/filepath"
	"reflect"
	"regexp"
	"sort"
	"strings"
)

type normalForm struct {
	op  string
	src string
}

// The lock prefix is NOT part of a normal form.
var collectionNormalForms = []normalForm{
	{"OpSet", `func (m *T_) F(k K_, v V_) {
		if m.data == nil {
			m.data = map[K_]V_{}
		}
		if !m.has(k) {
			m.order = append(m.order, k)
		}
		m.data[k] = v
	}`},
	// unsafe variant: the public Has is the membership test
	{"OpSet", `func (m *T_) F(k K_, v V_) {
		if m.data == nil {
			m.data = map[K_]V_{}
		}
		if !m.Has(k) {
			m.order = append(m.order, k)
		}
		m.data[k] = v
	}`},
	{"OpSetToTop", `func (m *T_) F(k K_, v V_) {
		if m.data == nil {
			m.data = map[K_]V_{}
		}
		if !m.has(k) {
			m.order = append([]K_{k}, m.order...)
		}
		m.data[k] = v
	}`},
	{"OpUpdate", `func (m *T_) F(k K_, fn func(v V_) V_) {
		if !m.has(k) {
			return
		}
		m.data[k] = fn(m.data[k])
	}`},
	{"OpUpdate", `func (m *T_) F(k K_, fn func(v V_) V_) {
		if !m.Has(k) {
			return
		}
		m.data[k] = fn(m.data[k])
	}`},
	{"OpGetValue", `func (m *T_) F(k K_) V_ {
		return m.data[k]
	}`},
	{"OpGet", `func (m *T_) F(k K_) (V_, bool) {
		v, ok := m.data[k]
		return v, ok
	}`},
	{"OpHas", `func (m *T_) F(k K_) bool {
		return m.has(k)
	}`},
	{"OpHas", `func (m *T_) F(k K_) bool {
		_, ok := m.data[k]
		return ok
	}`},
	{"OpLen", `func (m *T_) F() int {
		return len(m.data)
	}`},
	{"OpFind", `func (m *T_) F(fn func(k K_, v V_) bool) (TItem_, bool) {
		for _, k := range m.order {
			if fn(k, m.data[k]) {
				return TItem_{
					Key:   k,
					Value: m.data[k],
				}, true
			}
		}
		return TItem_{}, false
	}`},
	{"OpEach", `func (m *T_) F(fn func(k K_, v V_) error) error {
		for _, k := range m.order {
			if err := fn(k, m.data[k]); err != nil {
				return err
			}
		}
		return nil
	}`},
	{"OpEachReverse", `func (m *T_) F(fn func(k K_, v V_) error) error {
		for i := len(m.order) - 1; i >= 0; i-- {
			k := m.order[i]
			if err := fn(k, m.data[k]); err != nil {
				return err
			}
		}
		return nil
	}`},
	{"OpEachSafe", `func (m *T_) F(fn func(k K_, v V_)) {
		for _, k := range m.order {
			fn(k, m.data[k])
		}
	}`},
	{"OpMap", `func (m *T_) F(fn func(k K_, v V_) (V_, error)) error {
		for _, k := range m.order {
			v, err := fn(k, m.data[k])
			if err != nil {
				return err
			}
			m.data[k] = v
		}
		return nil
	}`},
	{"OpMarshalJSON", `func (m *T_) F() ([]byte, error) {
		var buf bytes.Buffer
		buf.WriteRune('{')
		for i, k := range m.order {
			if i != 0 {
				buf.WriteRune(',')
			}
			key, err := json.Marshal(k)
			if err != nil {
				return nil, err
			}
			buf.Write(key)
			buf.WriteRune(':')
			val, err := json.Marshal(m.data[k])
			if err != nil {
				return nil, err
			}
			buf.Write(val)
		}
		buf.WriteRune('}')
		return buf.Bytes(), nil
	}`},
	// Set variant
	{"OpAdd", `func (m *T_) F(v K_) {
		if m.data == nil {
			m.data = map[K_]struct{}{}
		}
		if !m.has(v) {
			m.order = append(m.order, v)
		}
		m.data[v] = struct{}{}
	}`},
	{"OpData", `func (m *T_) F() []K_ {
		return m.order
	}`},
	// constructor of the Set variant: no receiver, builds a fresh value.
	// NOTE: `order: vv` keeps duplicates of vv (see OrderedMapProofs.new_set_dup_refuted).
	{"OpNewFromSlice", `func F(vv ...K_) *T_ {
		data := make(map[K_]struct{}, len(vv))
		for _, v := range vv {
			data[v] = struct{}{}
		}
		return &T_{
			data:  data,
			order: vv,
		}
	}`},
}

// only used to word the failure message; Coq's ops_ok is what checks name <-> operation
var expectedOpByName = map[string]string{
	"Set": "OpSet", "SetToTop": "OpSetToTop", "Update": "OpUpdate", "GetValue": "OpGetValue", "Get": "OpGet",
	"Has": "OpHas", "has": "OpHas", "Len": "OpLen", "Find": "OpFind", "Each": "OpEach", "EachReverse": "OpEachReverse",
	"EachSafe": "OpEachSafe", "Map": "OpMap", "MarshalJSON": "OpMarshalJSON", "Add": "OpAdd", "Data": "OpData",
	"NewStringSet": "OpNewFromSlice",
}

// every op constructor emitted into Collections.v (order fixed)
var collectionOps = []string{
	"OpSet", "OpSetToTop", "OpUpdate", "OpGetValue", "OpGet", "OpHas", "OpLen", "OpFind",
	"OpEach", "OpEachReverse", "OpEachSafe", "OpMap", "OpMarshalJSON", "OpAdd", "OpData", "OpNewFromSlice",
}

type collType struct {
	pkgRel   string // "catalog" | "directive"
	name     string
	variant  string // VOrderedMap | VUnsafeOrderedMap | VSet
	hasMutex bool
	keyT     ast.Expr
	valT     ast.Expr
	spec     *ast.TypeSpec
}

type collMethod struct {
	name  string
	op    string
	lock  string
	calls []string
	pos   token.Pos
}

// ----------------------------------------------------------------------------------------
// AST comparison

type astCmp struct {
	p       *pkg
	ct      *collType
	fwd     map[string]string // template local name -> actual local name
	rev     map[string]string
	aliases map[string]ast.Expr // alias type name -> aliased type (package level)
	why     string
}

func (c *astCmp) fail(format string, a ...any) bool {
	if c.why == "" {
		c.why = fmt.Sprintf(format, a...)
	}
	return false
}

func (c *astCmp) bind(t, a *ast.Ident) bool {
	if t.Name == "_" || a.Name == "_" {
		if t.Name != a.Name {
			return c.fail("blank identifier mismatch")
		}
		return true
	}
	if x, ok := c.fwd[t.Name]; ok && x != a.Name {
		return c.fail("local %s bound to %s and %s", t.Name, x, a.Name)
	}
	if x, ok := c.rev[a.Name]; ok && x != t.Name {
		return c.fail("local %s stands for %s and %s", a.Name, x, t.Name)
	}
	c.fwd[t.Name] = a.Name
	c.rev[a.Name] = t.Name
	return true
}

func (c *astCmp) metavar(name string) (ast.Expr, bool) {
	switch name {
	case "T_":
		return ast.NewIdent(c.ct.name), true
	case "K_":
		return c.ct.keyT, true
	case "V_":
		if c.ct.valT == nil {
			return nil, false
		}
		return c.ct.valT, true
	case "TItem_":
		return ast.NewIdent(c.ct.name + "Item"), true
	}
	return nil, false
}

// expr compares a template expression with an actual one.
func (c *astCmp) expr(t, a ast.Expr) bool {
	if t == nil || a == nil {
		if t == nil && a == nil {
			return true
		}
		return c.fail("missing expression")
	}
	if id, ok := t.(*ast.Ident); ok {
		if bound, isMeta := c.metavar(id.Name); isMeta {
			plain := &astCmp{p: c.p, ct: c.ct, fwd: map[string]string{}, rev: map[string]string{}}
			if !plain.node(reflect.ValueOf(bound), reflect.ValueOf(a)) {
				return c.fail("%s expected where the normal form has %s", exprText(bound), id.Name)
			}
			return true
		}
	}
	// look through `type x = func(...)` aliases of the package
	if _, ok := t.(*ast.FuncType); ok {
		if id, ok := a.(*ast.Ident); ok {
			if al, ok := c.aliases[id.Name]; ok {
				a = al
			}
		}
	}
	return c.node(reflect.ValueOf(t), reflect.ValueOf(a))
}

func exprText(e ast.Expr) string {
	switch x := e.(type) {
	case *ast.Ident:
		return x.Name
	case *ast.StarExpr:
		return "*" + exprText(x.X)
	case *ast.SelectorExpr:
		return exprText(x.X) + "." + x.Sel.Name
	case *ast.ArrayType:
		return "[]" + exprText(x.Elt)
	}
	return fmt.Sprintf("%T", e)
}

var (
	posType     = reflect.TypeOf(token.NoPos)
	objType     = reflect.TypeOf((*ast.Object)(nil))
	scopeType   = reflect.TypeOf((*ast.Scope)(nil))
	commentType = reflect.TypeOf((*ast.CommentGroup)(nil))
	exprType    = reflect.TypeOf((*ast.Expr)(nil)).Elem()
)

// flat parameter types of a nested func type (parameter names are irrelevant there)
func flatTypes(fl *ast.FieldList) []ast.Expr {
	var out []ast.Expr
	if fl == nil {
		return out
	}
	for _, f := range fl.List {
		n := len(f.Names)
		if n == 0 {
			n = 1
		}
		for i := 0; i < n; i++ {
			out = append(out, f.Type)
		}
	}
	return out
}

func (c *astCmp) nestedFuncType(t, a *ast.FuncType) bool {
	if t.TypeParams != nil || a.TypeParams != nil {
		return c.fail("type parameters")
	}
	for _, pair := range [][2]*ast.FieldList{{t.Params, a.Params}, {t.Results, a.Results}} {
		tt, aa := flatTypes(pair[0]), flatTypes(pair[1])
		if len(tt) != len(aa) {
			return c.fail("func type arity")
		}
		for i := range tt {
			if !c.expr(tt[i], aa[i]) {
				return false
			}
		}
	}
	return true
}

// declared field list (receiver, parameters): names are binders
func (c *astCmp) declFields(t, a *ast.FieldList) bool {
	if t == nil || a == nil {
		if (t == nil || len(t.List) == 0) && (a == nil || len(a.List) == 0) {
			return true
		}
		return c.fail("parameter list")
	}
	type pn struct {
		name *ast.Ident
		typ  ast.Expr
	}
	flat := func(fl *ast.FieldList) []pn {
		var out []pn
		for _, f := range fl.List {
			if len(f.Names) == 0 {
				out = append(out, pn{nil, f.Type})
			}
			for _, n := range f.Names {
				out = append(out, pn{n, f.Type})
			}
		}
		return out
	}
	tt, aa := flat(t), flat(a)
	if len(tt) != len(aa) {
		return c.fail("number of parameters/results")
	}
	for i := range tt {
		if (tt[i].name == nil) != (aa[i].name == nil) {
			return c.fail("named/unnamed parameter")
		}
		if tt[i].name != nil && !c.bind(tt[i].name, aa[i].name) {
			return false
		}
		if !c.expr(tt[i].typ, aa[i].typ) {
			return false
		}
	}
	return true
}

func (c *astCmp) funcDecl(t, a *ast.FuncDecl) bool {
	if (t.Recv == nil) != (a.Recv == nil) {
		return c.fail("receiver")
	}
	if t.Recv != nil && !c.declFields(t.Recv, a.Recv) {
		return false
	}
	if t.Type.TypeParams != nil || a.Type.TypeParams != nil {
		return c.fail("type parameters")
	}
	if !c.declFields(t.Type.Params, a.Type.Params) || !c.declFields(t.Type.Results, a.Type.Results) {
		return false
	}
	return c.node(reflect.ValueOf(t.Body), reflect.ValueOf(a.Body))
}

func (c *astCmp) node(t, a reflect.Value) bool {
	if t.Kind() == reflect.Interface || a.Kind() == reflect.Interface {
		if t.Kind() == reflect.Interface {
			if t.IsNil() {
				if a.Kind() == reflect.Interface && a.IsNil() {
					return true
				}
				return c.fail("node missing in the normal form")
			}
			// expressions go through expr() for metavariables and aliases
			if t.Type() == exprType && a.Kind() == reflect.Interface && !a.IsNil() {
				return c.expr(t.Interface().(ast.Expr), a.Interface().(ast.Expr))
			}
			t = t.Elem()
		}
		if a.Kind() == reflect.Interface {
			if a.IsNil() {
				return c.fail("node missing")
			}
			a = a.Elem()
		}
		return c.node(t, a)
	}
	if t.Type() != a.Type() {
		return c.fail("%s where the normal form has %s", a.Type(), t.Type())
	}
	switch t.Type() {
	case posType, objType, scopeType, commentType:
		return true
	}
	switch t.Kind() {
	case reflect.Ptr:
		if t.IsNil() || a.IsNil() {
			if t.IsNil() && a.IsNil() {
				return true
			}
			return c.fail("optional %s present on one side only", t.Type())
		}
		switch tn := t.Interface().(type) {
		case *ast.Ident:
			an := a.Interface().(*ast.Ident)
			if x, ok := c.fwd[tn.Name]; ok {
				if x != an.Name {
					return c.fail("identifier %s where %s (for %s) is expected", an.Name, x, tn.Name)
				}
				return true
			}
			if _, ok := c.rev[an.Name]; ok {
				return c.fail("identifier %s where %s is expected", an.Name, tn.Name)
			}
			if tn.Name != an.Name {
				return c.fail("identifier %s where %s is expected", an.Name, tn.Name)
			}
			return true
		case *ast.SelectorExpr:
			an := a.Interface().(*ast.SelectorExpr)
			if tn.Sel.Name != an.Sel.Name {
				return c.fail("selector .%s where .%s is expected", an.Sel.Name, tn.Sel.Name)
			}
			return c.expr(tn.X, an.X)
		case *ast.KeyValueExpr:
			an := a.Interface().(*ast.KeyValueExpr)
			tk, ok1 := tn.Key.(*ast.Ident)
			ak, ok2 := an.Key.(*ast.Ident)
			if ok1 != ok2 {
				return c.fail("composite literal key")
			}
			if ok1 {
				if tk.Name != ak.Name {
					return c.fail("composite literal key %s where %s is expected", ak.Name, tk.Name)
				}
			} else if !c.expr(tn.Key, an.Key) {
				return false
			}
			return c.expr(tn.Value, an.Value)
		case *ast.FuncType:
			return c.nestedFuncType(tn, a.Interface().(*ast.FuncType))
		case *ast.FuncLit:
			return c.fail("function literal")
		case *ast.AssignStmt:
			an := a.Interface().(*ast.AssignStmt)
			if tn.Tok != an.Tok || len(tn.Lhs) != len(an.Lhs) || len(tn.Rhs) != len(an.Rhs) {
				return c.fail("assignment shape")
			}
			// right-hand sides first: they are evaluated in the outer binding
			for i := range tn.Rhs {
				if !c.expr(tn.Rhs[i], an.Rhs[i]) {
					return false
				}
			}
			for i := range tn.Lhs {
				if tn.Tok == token.DEFINE {
					ti, ok1 := tn.Lhs[i].(*ast.Ident)
					ai, ok2 := an.Lhs[i].(*ast.Ident)
					if !ok1 || !ok2 {
						return c.fail("left-hand side of :=")
					}
					if !c.bind(ti, ai) {
						return false
					}
				} else if !c.expr(tn.Lhs[i], an.Lhs[i]) {
					return false
				}
			}
			return true
		case *ast.RangeStmt:
			an := a.Interface().(*ast.RangeStmt)
			if tn.Tok != an.Tok {
				return c.fail("range statement form")
			}
			if !c.expr(tn.X, an.X) {
				return false
			}
			for _, kv := range [][2]ast.Expr{{tn.Key, an.Key}, {tn.Value, an.Value}} {
				if (kv[0] == nil) != (kv[1] == nil) {
					return c.fail("range variables")
				}
				if kv[0] == nil {
					continue
				}
				if tn.Tok == token.DEFINE {
					ti, ok1 := kv[0].(*ast.Ident)
					ai, ok2 := kv[1].(*ast.Ident)
					if !ok1 || !ok2 || !c.bind(ti, ai) {
						return c.fail("range variables")
					}
				} else if !c.expr(kv[0], kv[1]) {
					return false
				}
			}
			return c.node(reflect.ValueOf(tn.Body), reflect.ValueOf(an.Body))
		case *ast.GenDecl:
			// `var buf bytes.Buffer` inside a body: the declared names are binders
			an := a.Interface().(*ast.GenDecl)
			if tn.Tok != an.Tok || len(tn.Specs) != len(an.Specs) {
				return c.fail("declaration shape")
			}
			for i := range tn.Specs {
				tv, ok1 := tn.Specs[i].(*ast.ValueSpec)
				av, ok2 := an.Specs[i].(*ast.ValueSpec)
				if !ok1 || !ok2 || len(tv.Names) != len(av.Names) || len(tv.Values) != len(av.Values) {
					return c.fail("declaration shape")
				}
				for j := range tv.Values {
					if !c.expr(tv.Values[j], av.Values[j]) {
						return false
					}
				}
				if !c.expr(tv.Type, av.Type) {
					return false
				}
				for j := range tv.Names {
					if !c.bind(tv.Names[j], av.Names[j]) {
						return false
					}
				}
			}
			return true
		}
		return c.node(t.Elem(), a.Elem())
	case reflect.Struct:
		for i := 0; i < t.NumField(); i++ {
			if !c.node(t.Field(i), a.Field(i)) {
				return false
			}
		}
		return true
	case reflect.Slice:
		if t.Len() != a.Len() {
			return c.fail("%d elements where the normal form has %d (%s)", a.Len(), t.Len(), t.Type())
		}
		for i := 0; i < t.Len(); i++ {
			if !c.node(t.Index(i), a.Index(i)) {
				return false
			}
		}
		return true
	case reflect.String:
		if t.String() != a.String() {
			return c.fail("literal %s where %s is expected", a.String(), t.String())
		}
		return true
	case reflect.Bool:
		if t.Bool() != a.Bool() {
			return c.fail("flag mismatch")
		}
		return true
	case reflect.Int, reflect.Int8, reflect.Int16, reflect.Int32, reflect.Int64:
		if t.Int() != a.Int() {
			return c.fail("token mismatch")
		}
		return true
	}
	return c.fail("unhandled node kind %s", t.Kind())
}

// ----------------------------------------------------------------------------------------

func parseNormalForms() []struct {
	op string
	fd *ast.FuncDecl
} {
	var out []struct {
		op string
		fd *ast.FuncDecl
	}
	fset := token.NewFileSet()
	for i, nf := range collectionNormalForms {
		f, err := parser.ParseFile(fset, fmt.Sprintf("normalform%d.go", i), "package nf\n"+nf.src, 0)
		if err != nil {
			fatal("normal form %s does not parse: %v", nf.op, err)
		}
		out = append(out, struct {
			op string
			fd *ast.FuncDecl
		}{nf.op, f.Decls[0].(*ast.FuncDecl)})
	}
	return out
}

func docHas(cg *ast.CommentGroup, marker string) bool {
	if cg == nil {
		return false
	}
	for _, c := range cg.List {
		if strings.TrimSpace(strings.TrimPrefix(c.Text, "//")) == marker {
			return true
		}
	}
	return false
}

func findCollTypes(p *pkg, rel string) []*collType {
	var out []*collType
	names := make([]string, 0, len(p.files))
	for n := range p.files {
		names = append(names, n)
	}
	sort.Strings(names)
	for _, fn := range names {
		for _, d := range p.files[fn].Decls {
			gd, ok := d.(*ast.GenDecl)
			if !ok || gd.Tok != token.TYPE {
				continue
			}
			for _, s := range gd.Specs {
				ts := s.(*ast.TypeSpec)
				doc := ts.Doc
				if doc == nil {
					doc = gd.Doc
				}
				variant := ""
				n := 0
				for _, m := range [][2]string{{"gen:OrderedMap", "VOrderedMap"}, {"gen:UnsafeOrderedMap", "VUnsafeOrderedMap"}, {"gen:Set", "VSet"}} {
					if docHas(doc, m[0]) {
						variant = m[1]
						n++
					}
				}
				if n == 0 {
					continue
				}
				if n > 1 {
					p.bad(ts, "type %s carries several gen: markers", ts.Name.Name)
				}
				if strings.HasSuffix(fn, "_gen.go") {
					p.bad(ts, "gen: marker inside a generated file")
				}
				ct := &collType{pkgRel: rel, name: ts.Name.Name, variant: variant, spec: ts}
				st, ok := ts.Type.(*ast.StructType)
				if !ok {
					p.bad(ts, "collection %s is not a struct", ct.name)
				}
				seen := map[string]bool{}
				for _, f := range st.Fields.List {
					if len(f.Names) != 1 {
						p.bad(f, "field list of collection %s", ct.name)
					}
					fname := f.Names[0].Name
					if seen[fname] {
						p.bad(f, "duplicate field")
					}
					seen[fname] = true
					switch fname {
					case "data":
						mt, ok := f.Type.(*ast.MapType)
						if !ok {
							p.bad(f, "%s.data is not a map", ct.name)
						}
						ct.keyT = mt.Key
						if variant == "VSet" {
							if est, ok := mt.Value.(*ast.StructType); !ok || len(est.Fields.List) != 0 {
								p.bad(f, "%s.data is not a map[K]struct{}", ct.name)
							}
						} else {
							ct.valT = mt.Value
						}
					case "order":
						if at, ok := f.Type.(*ast.ArrayType); !ok || at.Len != nil {
							p.bad(f, "%s.order is not a slice", ct.name)
						}
					case "mx":
						se, ok := f.Type.(*ast.SelectorExpr)
						if !ok || identName(se.X) != "sync" || se.Sel.Name != "RWMutex" || importsAt(p, f.Pos())["sync"] != "sync" {
							p.bad(f, "%s.mx is not a sync.RWMutex (of the standard library's package sync)", ct.name)
						}
						ct.hasMutex = true
					default:
						p.bad(f, "unexpected field %s in collection %s", fname, ct.name)
					}
				}
				if !seen["data"] || !seen["order"] {
					p.bad(ts, "collection %s lacks data/order", ct.name)
				}
				// order must be a slice of the key type
				for _, f := range st.Fields.List {
					if f.Names[0].Name == "order" {
						plain := &astCmp{p: p, ct: ct, fwd: map[string]string{}, rev: map[string]string{}}
						if !plain.node(reflect.ValueOf(ct.keyT), reflect.ValueOf(f.Type.(*ast.ArrayType).Elt)) {
							p.bad(f, "%s.order is not a slice of the key type", ct.name)
						}
					}
				}
				out = append(out, ct)
			}
		}
	}
	return out
}

func pkgAliases(p *pkg) map[string]ast.Expr {
	out := map[string]ast.Expr{}
	for _, f := range p.files {
		for _, d := range f.Decls {
			gd, ok := d.(*ast.GenDecl)
			if !ok || gd.Tok != token.TYPE {
				continue
			}
			for _, s := range gd.Specs {
				ts := s.(*ast.TypeSpec)
				if ts.Assign != token.NoPos {
					out[ts.Name.Name] = ts.Type
				}
			}
		}
	}
	return out
}

// lockPrefix recognises `recv.mx.Lock(); defer recv.mx.Unlock()` (or the R pair) at the
// head of the body and returns the lock constructor and the rest of the statements.
func lockPrefix(p *pkg, fd *ast.FuncDecl, recv string) (string, []ast.Stmt) {
	mxCall := func(e ast.Expr) string {
		call, ok := e.(*ast.CallExpr)
		if !ok || len(call.Args) != 0 || call.Ellipsis != token.NoPos {
			return ""
		}
		sel, ok := call.Fun.(*ast.SelectorExpr)
		if !ok {
			return ""
		}
		in, ok := sel.X.(*ast.SelectorExpr)
		if !ok || in.Sel.Name != "mx" || recv == "" || identName(in.X) != recv {
			return ""
		}
		return sel.Sel.Name
	}
	stmts := fd.Body.List
	lock := "LkNone"
	rest := stmts
	if len(stmts) >= 1 {
		if es, ok := stmts[0].(*ast.ExprStmt); ok {
			if nm := mxCall(es.X); nm != "" {
				if len(stmts) < 2 {
					p.bad(fd, "%s: lock taken but never released", fd.Name.Name)
				}
				ds, ok := stmts[1].(*ast.DeferStmt)
				if !ok {
					p.bad(stmts[1], "%s: the statement after %s() is not the deferred unlock", fd.Name.Name, nm)
				}
				un := mxCall(ds.Call)
				switch {
				case nm == "Lock" && un == "Unlock":
					lock = "LkWrite"
				case nm == "RLock" && un == "RUnlock":
					lock = "LkRead"
				default:
					p.bad(stmts[0], "%s: lock pair %s/%s", fd.Name.Name, nm, un)
				}
				rest = stmts[2:]
			}
		}
	}
	// no other mention of the mutex anywhere in the rest
	for _, s := range rest {
		ast.Inspect(s, func(n ast.Node) bool {
			if se, ok := n.(*ast.SelectorExpr); ok && se.Sel.Name == "mx" {
				p.bad(se, "%s: use of the mutex outside the lock prefix", fd.Name.Name)
			}
			return true
		})
	}
	return lock, rest
}

func receiverCalls(rest []ast.Stmt, recv string) []string {
	seen := map[string]bool{}
	for _, s := range rest {
		ast.Inspect(s, func(n ast.Node) bool {
			call, ok := n.(*ast.CallExpr)
			if !ok {
				return true
			}
			if sel, ok := call.Fun.(*ast.SelectorExpr); ok && recv != "" && identName(sel.X) == recv {
				seen[sel.Sel.Name] = true
			}
			return true
		})
	}
	out := make([]string, 0, len(seen))
	for n := range seen {
		out = append(out, n)
	}
	sort.Strings(out)
	return out
}

// constructorOf: a receiver-less function of a generated file belongs to the collection it returns
func constructorOf(fd *ast.FuncDecl) string {
	if fd.Type.Results == nil || len(fd.Type.Results.List) != 1 {
		return ""
	}
	return recvName(fd.Type.Results.List[0].Type)
}

var genMarkerLine = regexp.MustCompile(`(?m)^[ \t]*//[ \t]*gen:(OrderedMap|UnsafeOrderedMap|Set)[ \t]*\r?$`)

// collectionPackages: the packages of the library (directories relative to the repository root, sorted) in which a
// non-test file carries a `// gen:OrderedMap`, `// gen:UnsafeOrderedMap` or `// gen:Set` marker line - today catalog and
// directive.  Found by looking, so that a collection generated into another package is not silently left out.
// internal/ (the code generators themselves and other separate programs), test/ and testdata are not library code.
func collectionPackages(repo string) []string {
	seen := map[string]bool{}
	filepath.WalkDir(repo, func(path string, d os.DirEntry, err error) error {
		if err != nil {
			return nil
		}
		if d.IsDir() {
			n := d.Name()
			if path != repo && (strings.HasPrefix(n, ".") || n == "internal" || n == "test" || n == "testdata" || n == "vendor") {
				return filepath.SkipDir
			}
			return nil
		}
		if !strings.HasSuffix(path, ".go") || strings.HasSuffix(path, "_test.go") {
			return nil
		}
		src, rerr := os.ReadFile(path)
		if rerr != nil {
			fatal("%v", rerr)
		}
		if genMarkerLine.Match(src) {
			rel, _ := filepath.Rel(repo, filepath.Dir(path))
			seen[filepath.ToSlash(rel)] = true
		}
		return nil
	})
	out := make([]string, 0, len(seen))
	for r := range seen {
		out = append(out, r)
	}
	sort.Strings(out)
	if len(out) == 0 {
		fatal("no gen: collection marker found under %s", repo)
	}
	return out
}

func genCollections(repo string) string {
	nfs := parseNormalForms()
	type emitted struct {
		ct      *collType
		methods []collMethod
	}
	var all []emitted
	for _, rel := range collectionPackages(repo) {
		p := loadPkg(repo, rel)
		cts := findCollTypes(p, rel)
		if len(cts) == 0 {
			fatal("no gen: collection type found in %s", rel)
		}
		byName := map[string]*collType{}
		for _, ct := range cts {
			byName[ct.name] = ct
		}
		aliases := pkgAliases(p)
		methods := map[string][]collMethod{}
		fileNames := make([]string, 0, len(p.files))
		for n := range p.files {
			fileNames = append(fileNames, n)
		}
		sort.Strings(fileNames)
		for _, fn := range fileNames {
			isGen := strings.HasSuffix(fn, "_gen.go")
			for _, d := range p.files[fn].Decls {
				fd, ok := d.(*ast.FuncDecl)
				if !ok {
					continue
				}
				var ct *collType
				recv := ""
				if fd.Recv != nil && len(fd.Recv.List) == 1 {
					ct = byName[recvName(fd.Recv.List[0].Type)]
					if ct != nil {
						if !isGen {
							p.bad(fd, "method %s.%s declared outside the generated file", ct.name, fd.Name.Name)
						}
						if len(fd.Recv.List[0].Names) == 1 {
							recv = fd.Recv.List[0].Names[0].Name
						}
					}
				} else if fd.Recv == nil && isGen {
					ct = byName[constructorOf(fd)]
				}
				if ct == nil {
					if isGen {
						p.bad(fd, "function %s in a generated collection file belongs to no collection type", fd.Name.Name)
					}
					continue
				}
				if fd.Body == nil {
					p.bad(fd, "%s.%s has no body", ct.name, fd.Name.Name)
				}
				lock, rest := lockPrefix(p, fd, recv)
				if lock != "LkNone" && !ct.hasMutex {
					p.bad(fd, "%s.%s locks a mutex the type does not declare", ct.name, fd.Name.Name)
				}
				stripped := *fd
				body := *fd.Body
				body.List = rest
				stripped.Body = &body
				op := ""
				closest := ""
				for _, nf := range nfs {
					c := &astCmp{p: p, ct: ct, fwd: map[string]string{}, rev: map[string]string{}, aliases: aliases}
					if c.funcDecl(nf.fd, &stripped) {
						op = nf.op
						break
					}
					if nf.op == expectedOpByName[fd.Name.Name] && closest == "" {
						closest = fmt.Sprintf(" (against %s: %s)", nf.op, c.why)
					}
				}
				if op == "" {
					p.bad(fd, "body of %s.%s matches no normal form of the ordered collections%s", ct.name, fd.Name.Name, closest)
				}
				methods[ct.name] = append(methods[ct.name], collMethod{
					name: fd.Name.Name, op: op, lock: lock, calls: receiverCalls(rest, recv), pos: fd.Pos(),
				})
			}
		}
		outside := fieldUseOutsideGenerated(repo, rel, p, byName)
		if len(outside) != 0 {
			panic(unsupported{token.Position{Filename: outside[0].file, Line: outside[0].line},
				fmt.Sprintf("field %s of collection %s selected outside its generated file", outside[0].field, outside[0].typ)})
		}
		for _, ct := range cts {
			if len(methods[ct.name]) == 0 {
				p.bad(ct.spec, "collection %s has no generated methods", ct.name)
			}
			all = append(all, emitted{ct, methods[ct.name]})
		}
	}

	var b strings.Builder
	b.WriteString(header)
	b.WriteString("(* catalog/*_gen.go, directive/directives_gen.go: for every generated collection and every\n" +
		"   function of its generated file, the operation its body denotes (matched against the normal\n" +
		"   forms of go2coq/collections.go), the lock it holds while doing so, and the methods of the\n" +
		"   receiver it calls. *)\n")
	b.WriteString("From Coq Require Import List String.\nImport ListNotations.\nLocal Open Scope string_scope.\n\n")
	b.WriteString("Inductive op : Set :=\n")
	for _, o := range collectionOps {
		fmt.Fprintf(&b, "| %s\n", o)
	}
	b.WriteString(".\n\n")
	b.WriteString("(* LkWrite: m.mx.Lock(); defer m.mx.Unlock()   LkRead: m.mx.RLock(); defer m.mx.RUnlock()\n   LkNone: the mutex is not mentioned *)\n")
	b.WriteString("Inductive lock : Set := LkWrite | LkRead | LkNone.\n\n")
	b.WriteString("Inductive variant : Set := VOrderedMap | VUnsafeOrderedMap | VSet.\n\n")
	b.WriteString("Record method : Set := { m_name : string; m_op : op; m_lock : lock; m_calls : list string }.\n")
	b.WriteString("Record collection : Set := { c_pkg : string; c_name : string; c_variant : variant; c_has_mutex : bool; c_methods : list method }.\n\n")
	b.WriteString("Definition collections : list collection :=\n  [\n")
	for i, e := range all {
		fmt.Fprintf(&b, "    {| c_pkg := %s; c_name := %s; c_variant := %s; c_has_mutex := %v;\n       c_methods := [\n",
			coqString(e.ct.pkgRel), coqString(e.ct.name), e.ct.variant, e.ct.hasMutex)
		for j, m := range e.methods {
			sep := ";"
			if j == len(e.methods)-1 {
				sep = ""
			}
			fmt.Fprintf(&b, "         {| m_name := %s; m_op := %s; m_lock := %s; m_calls := [%s] |}%s\n",
				coqString(m.name), m.op, m.lock, joinMap(m.calls, coqString, "; "), sep)
		}
		sep := ";"
		if i == len(all)-1 {
			sep = ""
		}
		b.WriteString("       ] |}" + sep + "\n")
	}
	b.WriteString("  ].\n")
	return b.String()
}

// ----------------------------------------------------------------------------------------
// go/types pass: fields data/order/mx of a collection type selected outside *_gen.go

type outsideUse struct {
	file  string
	line  int
	typ   string
	field string
}

func fieldUseOutsideGenerated(repo, rel string, p *pkg, colls map[string]*collType) []outsideUse {
	dir := filepath.Join(repo, rel)
	// the answer depends on the package sources only: cache it by their hash
	h := sha256.New()
	names := make([]string, 0, len(p.files))
	for n := range p.files {
		names = append(names, n)
	}
	sort.Strings(names)
	for _, n := range names {
		src, err := os.ReadFile(filepath.Join(dir, n))
		if err != nil {
			fatal("%v", err)
		}
		fmt.Fprintf(h, "%s %d\n", n, len(src))
		h.Write(src)
	}
	cnames := make([]string, 0, len(colls))
	for n := range colls {
		cnames = append(cnames, n)
	}
	sort.Strings(cnames)
	fmt.Fprintf(h, "v1 %s %v", dir, cnames)
	cacheDir := filepath.Join(os.TempDir(), "verif_go2coq_cache")
	cacheFile := filepath.Join(cacheDir, "fielduse_"+hex.EncodeToString(h.Sum(nil))[:32])
	if data, err := os.ReadFile(cacheFile); err == nil {
		var out []outsideUse
		for _, line := range strings.Split(string(data), "\n") {
			var u outsideUse
			if n, _ := fmt.Sscanf(line, "%s %d %s %s", &u.file, &u.line, &u.typ, &u.field); n == 4 {
				out = append(out, u)
			}
		}
		return out
	}

	for _, kv := range [][2]string{{"GOFLAGS", "-mod=mod"}, {"GOPROXY", "off"}, {"GOSUMDB", "off"}, {"GOTOOLCHAIN", "local"}} {
		os.Setenv(kv[0], kv[1])
	}
	wd, _ := os.Getwd()
	if err := os.Chdir(repo); err != nil {
		fatal("%v", err)
	}
	defer os.Chdir(wd)
	var files []*ast.File
	for _, n := range names {
		files = append(files, p.files[n])
	}
	var firstErr error
	conf := types.Config{
		Importer: importer.ForCompiler(p.fset, "source", nil),
		Error: func(err error) {
			if firstErr == nil {
				firstErr = err
			}
		},
	}
	info := &types.Info{Selections: map[*ast.SelectorExpr]*types.Selection{}}
	conf.Check(rel, p.fset, files, info)
	if firstErr != nil {
		if te, ok := firstErr.(types.Error); ok {
			panic(unsupported{te.Fset.Position(te.Pos), "package " + rel + " does not type-check: " + te.Msg})
		}
		panic(unsupported{token.Position{Filename: dir}, "package " + rel + " does not type-check: " + firstErr.Error()})
	}
	var out []outsideUse
	for se, sel := range info.Selections {
		if sel.Kind() != types.FieldVal {
			continue
		}
		fname := sel.Obj().Name()
		if fname != "data" && fname != "order" && fname != "mx" {
			continue
		}
		t := sel.Recv()
		if pt, ok := t.(*types.Pointer); ok {
			t = pt.Elem()
		}
		named, ok := t.(*types.Named)
		if !ok || colls[named.Obj().Name()] == nil || named.Obj().Pkg() == nil || named.Obj().Pkg().Name() != rel {
			continue
		}
		pos := p.fset.Position(se.Pos())
		if strings.HasSuffix(pos.Filename, "_gen.go") {
			continue
		}
		out = append(out, outsideUse{pos.Filename, pos.Line, named.Obj().Name(), fname})
	}
	sort.Slice(out, func(i, j int) bool {
		if out[i].file != out[j].file {
			return out[i].file < out[j].file
		}
		return out[i].line < out[j].line
	})
	// composite literals with keyed data/order fields are selections too, but go/types
	// records them as Uses, not Selections: look at them syntactically
	for _, n := range names {
		if strings.HasSuffix(n, "_gen.go") {
			continue
		}
		ast.Inspect(p.files[n], func(nd ast.Node) bool {
			cl, ok := nd.(*ast.CompositeLit)
			if !ok || cl.Type == nil || colls[identName(cl.Type)] == nil {
				return true
			}
			if len(cl.Elts) != 0 {
				pos := p.fset.Position(cl.Pos())
				out = append(out, outsideUse{pos.Filename, pos.Line, identName(cl.Type), "(literal)"})
			}
			return true
		})
	}
	os.MkdirAll(cacheDir, 0o755)
	var sb strings.Builder
	for _, u := range out {
		fmt.Fprintf(&sb, "%s %d %s %s\n", u.file, u.line, u.typ, u.field)
	}
	tmp := cacheFile + fmt.Sprintf(".%d", os.Getpid())
	if os.WriteFile(tmp, []byte(sb.String()), 0o644) == nil {
		os.Rename(tmp, cacheFile)
	}
	return out
}
