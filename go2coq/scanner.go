package main

// Scanner step functions -> decision trees (gen/ScannerTable.v).
//
// Every top-level function of package scanner with the signature
// func(*Scanner, byte) *jerr.JApiError is a state.  Its body is executed
// symbolically: control flow on the byte and on the context predicates becomes
// tree nodes, effects become an action list, the way the function returns
// becomes the exit.  Static calls (return stateX(s, c), return s.helper(...))
// are inlined; `return s.step(s, c)` becomes XRedo.
//
// What is NOT translated but only recognised by name (s.found / s.foundAt, the step stack, the four context predicates,
// the two read-a-body helpers, the error constructors) and the driver that interprets the trees (Scanner.Next,
// processLexemeEvent, NewJApiScanner, ...) are modelled by hand in coq/model/ScannerSem.v; their declarations are
// PINNED (pins.go, checked by checkPins below before anything is generated).  Byte predicates and byte functions used
// in conditions (isWhitespace, IsNewLine, caseWhitespace, caseNewLine through otherByte) are evaluated from their
// bodies over the 256 bytes; the constant EOF is read and must be 0; every function that works on a Scanner must be
// accounted for (scannerFunctionsKnown).  DESIGN.md section 3.1 has the whole list.

import (
	"fmt"
	"go/ast"
	"go/parser"
	"go/token"
	"os"
	"path/filepath"
	"sort"
	"strconv"
	"strings"
)

type tree struct {
	leaf  bool
	acts  []string
	exit  string
	cond  string
	t, e  *tree
}

type symState struct {
	acts     []string
	rewound  bool // a rewind happened: positions/conditions after it are not modelled
	popped   bool
	depth    int
	env      map[string]string // string parameters of inlined helpers
	cname    string            // name of the byte parameter in the current function ("_" if unused)
	recv     string            // name of the *Scanner variable
}

func (s symState) clone() symState {
	n := s
	n.acts = append([]string(nil), s.acts...)
	return n
}

type scanTr struct {
	p      *pkg
	consts map[string]int
	states map[string]bool
	evts   map[string]bool
	// helpers whose bodies were translated because a step function returns through them
	inlined map[string]bool
	// byte classes of the helpers of step-helpers.go (isWhitespace, IsNewLine and the case* forms), derived from
	// their bodies by evaluation over the 256 bytes (predClass, caseClass), memoised
	classes map[string][]int
}

// evalBytePred evaluates a boolean expression over the byte parameter cname for the byte v.  Supported: comparisons of
// the parameter with byte constants, !, &&, ||, parentheses and calls of other byte predicates of the package on the
// parameter.  Anything else (a call into unicode, a table lookup, ...) is refused.
func (t *scanTr) evalBytePred(e ast.Expr, cname string, v int, depth int) bool {
	if depth > 8 {
		t.p.bad(e, "byte predicate nested too deeply")
	}
	switch x := e.(type) {
	case *ast.ParenExpr:
		return t.evalBytePred(x.X, cname, v, depth)
	case *ast.UnaryExpr:
		if x.Op == token.NOT {
			return !t.evalBytePred(x.X, cname, v, depth)
		}
	case *ast.BinaryExpr:
		switch x.Op {
		case token.LAND:
			return t.evalBytePred(x.X, cname, v, depth) && t.evalBytePred(x.Y, cname, v, depth)
		case token.LOR:
			return t.evalBytePred(x.X, cname, v, depth) || t.evalBytePred(x.Y, cname, v, depth)
		case token.EQL, token.NEQ, token.LSS, token.LEQ, token.GTR, token.GEQ:
			var k int
			var ok bool
			op := x.Op
			if identName(x.X) == cname {
				k, ok = t.byteConst(x.Y)
			} else if identName(x.Y) == cname {
				k, ok = t.byteConst(x.X)
				op = map[token.Token]token.Token{token.EQL: token.EQL, token.NEQ: token.NEQ, token.LSS: token.GTR, token.LEQ: token.GEQ, token.GTR: token.LSS, token.GEQ: token.LEQ}[op]
			}
			if !ok {
				t.p.bad(e, "comparison in a byte predicate")
			}
			switch op {
			case token.EQL:
				return v == k
			case token.NEQ:
				return v != k
			case token.LSS:
				return v < k
			case token.LEQ:
				return v <= k
			case token.GTR:
				return v > k
			case token.GEQ:
				return v >= k
			}
		}
	case *ast.CallExpr:
		if len(x.Args) == 1 && identName(x.Args[0]) == cname {
			if fd, ok := t.p.funcs[callName(x.Fun)]; ok && fd.Recv == nil {
				return t.evalPredFunc(fd, v, depth+1)
			}
		}
	}
	t.p.bad(e, "unsupported byte predicate")
	return false
}

// evalPredFunc: func f(c byte) bool { return <pred> }
func (t *scanTr) evalPredFunc(fd *ast.FuncDecl, v int, depth int) bool {
	if !isByteFunc(fd, "bool") || fd.Body == nil || len(fd.Body.List) != 1 {
		t.p.bad(fd, "byte predicate %s: expected func(c byte) bool { return ... }", fd.Name.Name)
	}
	r, ok := fd.Body.List[0].(*ast.ReturnStmt)
	if !ok || len(r.Results) != 1 {
		t.p.bad(fd, "byte predicate %s: expected a single return", fd.Name.Name)
	}
	return t.evalBytePred(r.Results[0], fd.Type.Params.List[0].Names[0].Name, v, depth)
}

// evalByteFunc evaluates func f(c byte) byte { ... } for the byte v.  Supported: `return e`, if / else over byte
// predicates (evalBytePred), blocks; e is the parameter, a byte constant, + - & | ^ (modulo 256) or a call of another
// byte function of the package.  Anything else is refused.
func (t *scanTr) evalByteFunc(fd *ast.FuncDecl, v int, depth int) int {
	if depth > 8 {
		t.p.bad(fd, "byte function nested too deeply")
	}
	if !isByteFunc(fd, "byte") || fd.Body == nil {
		t.p.bad(fd, "byte function %s: expected func(c byte) byte", fd.Name.Name)
	}
	r, ok := t.evalByteStmts(fd.Body.List, fd.Type.Params.List[0].Names[0].Name, v, depth)
	if !ok {
		t.p.bad(fd, "byte function %s falls off its end", fd.Name.Name)
	}
	return r
}

func (t *scanTr) evalByteStmts(ss []ast.Stmt, cname string, v int, depth int) (int, bool) {
	for _, s := range ss {
		switch x := s.(type) {
		case *ast.ReturnStmt:
			if len(x.Results) != 1 {
				t.p.bad(s, "return in a byte function")
			}
			return t.evalByteExpr(x.Results[0], cname, v, depth), true
		case *ast.BlockStmt:
			if r, ok := t.evalByteStmts(x.List, cname, v, depth); ok {
				return r, true
			}
		case *ast.IfStmt:
			if x.Init != nil {
				t.p.bad(s, "if with init in a byte function")
			}
			if t.evalBytePred(x.Cond, cname, v, depth) {
				if r, ok := t.evalByteStmts(x.Body.List, cname, v, depth); ok {
					return r, true
				}
			} else if x.Else != nil {
				if r, ok := t.evalByteStmts([]ast.Stmt{x.Else}, cname, v, depth); ok {
					return r, true
				}
			}
		default:
			t.p.bad(s, "statement %T in a byte function", s)
		}
	}
	return 0, false
}

func (t *scanTr) evalByteExpr(e ast.Expr, cname string, v int, depth int) int {
	switch x := e.(type) {
	case *ast.ParenExpr:
		return t.evalByteExpr(x.X, cname, v, depth)
	case *ast.Ident:
		if x.Name == cname {
			return v
		}
	case *ast.UnaryExpr:
		if x.Op == token.XOR {
			return ^t.evalByteExpr(x.X, cname, v, depth) & 0xff
		}
	case *ast.BinaryExpr:
		a, b := t.evalByteExpr(x.X, cname, v, depth), t.evalByteExpr(x.Y, cname, v, depth)
		switch x.Op {
		case token.ADD:
			return (a + b) & 0xff
		case token.SUB:
			return (a - b) & 0xff
		case token.AND:
			return a & b
		case token.OR:
			return a | b
		case token.XOR:
			return a ^ b
		}
	case *ast.CallExpr:
		if len(x.Args) == 1 {
			if fd, ok := t.p.funcs[callName(x.Fun)]; ok && fd.Recv == nil {
				return t.evalByteFunc(fd, t.evalByteExpr(x.Args[0], cname, v, depth), depth+1)
			}
		}
	}
	if k, ok := t.byteConst(e); ok {
		return k
	}
	t.p.bad(e, "unsupported byte expression")
	return 0
}

// isByteFunc: a package-level func(c byte) <result> with a named parameter
func isByteFunc(fd *ast.FuncDecl, result string) bool {
	return fd.Recv == nil && fd.Type.Params != nil && len(fd.Type.Params.List) == 1 && len(fd.Type.Params.List[0].Names) == 1 &&
		identName(fd.Type.Params.List[0].Type) == "byte" && fd.Type.Results != nil && len(fd.Type.Results.List) == 1 &&
		len(fd.Type.Results.List[0].Names) == 0 && identName(fd.Type.Results.List[0].Type) == result
}

// predClass: the bytes for which the package-level predicate `name` (func(c byte) bool) holds, by evaluation of its body
// over the 256 bytes (isWhitespace, IsNewLine).
func (t *scanTr) predClass(name string, at ast.Node) []int {
	key := "pred " + name
	if set, ok := t.classes[key]; ok {
		return set
	}
	fd, ok := t.p.funcs[name]
	if !ok || !isByteFunc(fd, "bool") {
		t.p.bad(at, "byte predicate %s: no func(c byte) bool of the package", name)
	}
	set := []int{}
	for v := 0; v < 256; v++ {
		if t.evalPredFunc(fd, v, 0) {
			set = append(set, v)
		}
	}
	t.classes[key] = set
	return set
}

// caseClass: the bytes c with f(c) == c for the package-level func f(c byte) byte: what `switch c { case f(c): }` tests
// (caseWhitespace, caseNewLine, through otherByte), by evaluation of the bodies over the 256 bytes.
func (t *scanTr) caseClass(name string, at ast.Node) []int {
	key := "case " + name
	if set, ok := t.classes[key]; ok {
		return set
	}
	fd, ok := t.p.funcs[name]
	if !ok || !isByteFunc(fd, "byte") {
		t.p.bad(at, "case function %s: no func(c byte) byte of the package", name)
	}
	set := []int{}
	for v := 0; v < 256; v++ {
		if t.evalByteFunc(fd, v, 0) == v {
			set = append(set, v)
		}
	}
	t.classes[key] = set
	return set
}

func stateCtor(name string) string {
	return "St" + strings.TrimPrefix(name, "state")
}

func (t *scanTr) isStepFunc(fd *ast.FuncDecl) bool {
	if fd.Recv != nil || fd.Type.Params == nil || len(fd.Type.Params.List) != 2 || fd.Type.Results == nil || len(fd.Type.Results.List) != 1 {
		return false
	}
	p0, ok := fd.Type.Params.List[0].Type.(*ast.StarExpr)
	if !ok || identName(p0.X) != "Scanner" {
		return false
	}
	if identName(fd.Type.Params.List[1].Type) != "byte" {
		return false
	}
	r, ok := fd.Type.Results.List[0].Type.(*ast.StarExpr)
	if !ok {
		return false
	}
	sel, ok := r.X.(*ast.SelectorExpr)
	return ok && sel.Sel.Name == "JApiError"
}

func (t *scanTr) byteConst(e ast.Expr) (int, bool) {
	switch x := e.(type) {
	case *ast.BasicLit:
		if x.Kind == token.CHAR {
			s, err := strconv.Unquote(x.Value)
			if err != nil || len(s) != 1 {
				t.p.bad(e, "char literal")
			}
			return int(s[0]), true
		}
		if x.Kind == token.INT {
			v, err := strconv.Atoi(x.Value)
			if err == nil && v >= 0 && v < 256 {
				return v, true
			}
		}
	case *ast.Ident:
		if v, ok := t.consts[x.Name]; ok {
			return v, true
		}
	}
	return 0, false
}

func byteSet(vs []int) string {
	sort.Ints(vs)
	out := make([]string, 0, len(vs))
	last := -1
	for _, v := range vs {
		if v == last {
			continue
		}
		last = v
		out = append(out, strconv.Itoa(v))
	}
	return "CByteIn [" + strings.Join(out, "; ") + "]"
}

func leaf(st symState, exit string) *tree {
	return &tree{leaf: true, acts: st.acts, exit: exit}
}

func node(cond string, a, b *tree) *tree {
	return &tree{cond: cond, t: a, e: b}
}

// isC reports whether e is the byte parameter of the current function.
func isC(e ast.Expr, st symState) bool {
	return st.cname != "_" && identName(e) == st.cname
}

// caseCond translates one expression of `switch c { case e: }`.
func (t *scanTr) caseCond(e ast.Expr, st symState) string {
	if v, ok := t.byteConst(e); ok {
		return byteSet([]int{v})
	}
	if c, ok := e.(*ast.CallExpr); ok && len(c.Args) == 1 && isC(c.Args[0], st) && identName(c.Fun) != "" {
		return byteSet(append([]int{}, t.caseClass(identName(c.Fun), e)...))
	}
	t.p.bad(e, "case expression")
	return ""
}

// branch translates a boolean expression into tree nodes.
func (t *scanTr) branch(e ast.Expr, st symState, thenK, elseK func(symState) *tree) *tree {
	if st.rewound {
		t.p.bad(e, "condition evaluated after a rewind of curIndex")
	}
	switch x := e.(type) {
	case *ast.ParenExpr:
		return t.branch(x.X, st, thenK, elseK)
	case *ast.UnaryExpr:
		if x.Op == token.NOT {
			return t.branch(x.X, st, elseK, thenK)
		}
	case *ast.BinaryExpr:
		switch x.Op {
		case token.LAND:
			return t.branch(x.X, st, func(s symState) *tree { return t.branch(x.Y, s, thenK, elseK) }, elseK)
		case token.LOR:
			return t.branch(x.X, st, thenK, func(s symState) *tree { return t.branch(x.Y, s, thenK, elseK) })
		case token.EQL, token.NEQ:
			var c string
			if isC(x.X, st) {
				v, ok := t.byteConst(x.Y)
				if !ok {
					t.p.bad(x.Y, "byte constant")
				}
				c = byteSet([]int{v})
			} else if t.isPrevByte(x.X, st) {
				v, ok := t.byteConst(x.Y)
				if !ok {
					t.p.bad(x.Y, "byte constant")
				}
				c = fmt.Sprintf("CPrevIs %d", v)
			} else {
				t.p.bad(e, "comparison")
			}
			if x.Op == token.NEQ {
				return node(c, elseK(st.clone()), thenK(st.clone()))
			}
			return node(c, thenK(st.clone()), elseK(st.clone()))
		}
	case *ast.CallExpr:
		name := callName(x.Fun)
		if identName(x.Fun) != "" && len(x.Args) == 1 && isC(x.Args[0], st) {
			return node(byteSet(append([]int{}, t.predClass(name, e)...)), thenK(st.clone()), elseK(st.clone()))
		}
		flags := map[string]string{
			"isDirective":                             "CIsDirective",
			"isDirectiveParameterHasTypeOrAnyOrEmpty": "CHasTypeOrAnyOrEmpty",
			"isDirectiveParameterHasAnyOrEmpty":       "CHasAnyOrEmpty",
			"isDirectiveParameterHasRegexNotation":    "CHasRegex",
		}
		if len(x.Args) == 0 {
			if sel, ok := x.Fun.(*ast.SelectorExpr); ok && identName(sel.X) == st.recv {
				if f, ok := flags[sel.Sel.Name]; ok {
					return node(f, thenK(st.clone()), elseK(st.clone()))
				}
			}
		}
	}
	t.p.bad(e, "condition")
	return nil
}

// s.data[s.curIndex-1]
func (t *scanTr) isPrevByte(e ast.Expr, st symState) bool {
	ix, ok := e.(*ast.IndexExpr)
	if !ok {
		return false
	}
	sel, ok := ix.X.(*ast.SelectorExpr)
	if !ok || identName(sel.X) != st.recv || sel.Sel.Name != "data" {
		return false
	}
	be, ok := ix.Index.(*ast.BinaryExpr)
	if !ok || be.Op != token.SUB {
		return false
	}
	if !t.isCurIndex(be.X, st) {
		return false
	}
	bl, ok := be.Y.(*ast.BasicLit)
	return ok && bl.Value == "1"
}

func (t *scanTr) isCurIndex(e ast.Expr, st symState) bool {
	sel, ok := e.(*ast.SelectorExpr)
	return ok && identName(sel.X) == st.recv && sel.Sel.Name == "curIndex"
}

// index expression of foundAt: s.curIndex or s.curIndex-k  -> k
func (t *scanTr) backOffset(e ast.Expr, st symState) int {
	if t.isCurIndex(e, st) {
		return 0
	}
	if be, ok := e.(*ast.BinaryExpr); ok && be.Op == token.SUB && t.isCurIndex(be.X, st) {
		if bl, ok := be.Y.(*ast.BasicLit); ok && bl.Kind == token.INT {
			v, _ := strconv.Atoi(bl.Value)
			return v
		}
	}
	t.p.bad(e, "foundAt index")
	return 0
}

func (t *scanTr) stateRef(e ast.Expr) (string, bool) {
	n := identName(e)
	if t.states[n] {
		return stateCtor(n), true
	}
	return "", false
}

func (t *scanTr) strArg(e ast.Expr, st symState) string {
	if bl, ok := e.(*ast.BasicLit); ok && bl.Kind == token.STRING {
		s, _ := strconv.Unquote(bl.Value)
		return s
	}
	if id, ok := e.(*ast.Ident); ok {
		if v, ok := st.env[id.Name]; ok {
			return v
		}
		if id.Name == "jerr" {
			return "<jerr>"
		}
	}
	if sel, ok := e.(*ast.SelectorExpr); ok && identName(sel.X) == "jerr" {
		return "jerr." + sel.Sel.Name
	}
	if c, ok := e.(*ast.CallExpr); ok && callName(c.Fun) == "fmt.Sprintf" {
		return "<formatted>"
	}
	t.p.bad(e, "string argument")
	return ""
}

func safeCoqString(s string) string {
	var b strings.Builder
	for _, r := range s {
		if r < 32 || r > 126 {
			b.WriteString("?")
		} else {
			b.WriteRune(r)
		}
	}
	return coqString(b.String())
}

const maxInline = 12

// exec runs a statement list; k is called when control falls off its end.
func (t *scanTr) exec(ss []ast.Stmt, st symState, k func(symState) *tree) *tree {
	if len(ss) == 0 {
		return k(st)
	}
	s := ss[0]
	rest := ss[1:]
	cont := func(st2 symState) *tree { return t.exec(rest, st2, k) }
	switch x := s.(type) {
	case *ast.ReturnStmt:
		return t.ret(x, st)
	case *ast.ExprStmt:
		call, ok := x.X.(*ast.CallExpr)
		if !ok {
			t.p.bad(s, "expression statement")
		}
		return t.effectCall(call, st, cont)
	case *ast.AssignStmt:
		// the two "read a body with the schema library" sequences
		if len(x.Lhs) == 2 && len(x.Rhs) == 1 && x.Tok == token.DEFINE {
			if call, ok := x.Rhs[0].(*ast.CallExpr); ok {
				if sel, ok := call.Fun.(*ast.SelectorExpr); ok && identName(sel.X) == st.recv {
					var act string
					switch sel.Sel.Name {
					case "readSchemaWithJsc":
						act = "AReadSchema"
					case "readEnumWithJsc":
						act = "AReadEnum"
					}
					if act != "" && len(rest) >= 2 && t.isReadTail(identName(x.Lhs[0]), identName(x.Lhs[1]), rest[0], rest[1], st) {
						if st.rewound {
							t.p.bad(s, "schema read after rewind")
						}
						st2 := st.clone()
						st2.acts = append(st2.acts, act)
						return t.exec(rest[2:], st2, k)
					}
				}
			}
			t.p.bad(s, "two-value assignment")
		}
		if len(x.Lhs) != 1 || len(x.Rhs) != 1 {
			t.p.bad(s, "assignment")
		}
		lhs, ok := x.Lhs[0].(*ast.SelectorExpr)
		if !ok || identName(lhs.X) != st.recv {
			t.p.bad(s, "assignment target")
		}
		st2 := st.clone()
		switch {
		case lhs.Sel.Name == "step" && x.Tok == token.ASSIGN:
			if ref, ok := t.stateRef(x.Rhs[0]); ok {
				st2.acts = append(st2.acts, "ASetStep "+ref)
			} else if t.isPopCall(x.Rhs[0], st) {
				st2.acts = append(st2.acts, "APop")
			} else {
				t.p.bad(s, "value assigned to step")
			}
		case lhs.Sel.Name == "curIndex" && x.Tok == token.SUB_ASSIGN:
			bl, ok := x.Rhs[0].(*ast.BasicLit)
			if !ok || bl.Kind != token.INT {
				t.p.bad(s, "rewind amount")
			}
			st2.acts = append(st2.acts, "ARewind "+bl.Value)
			st2.rewound = true
		default:
			t.p.bad(s, "assignment to %s", lhs.Sel.Name)
		}
		return cont(st2)
	case *ast.IncDecStmt:
		if x.Tok == token.DEC && t.isCurIndex(x.X, st) {
			st2 := st.clone()
			st2.acts = append(st2.acts, "ARewind 1")
			st2.rewound = true
			return cont(st2)
		}
		t.p.bad(s, "inc/dec statement")
	case *ast.IfStmt:
		if x.Init != nil {
			t.p.bad(s, "if with init")
		}
		thenK := func(s2 symState) *tree { return t.exec(x.Body.List, s2, cont) }
		elseK := cont
		if x.Else != nil {
			switch el := x.Else.(type) {
			case *ast.BlockStmt:
				elseK = func(s2 symState) *tree { return t.exec(el.List, s2, cont) }
			case *ast.IfStmt:
				elseK = func(s2 symState) *tree { return t.exec([]ast.Stmt{el}, s2, cont) }
			}
		}
		return t.branch(x.Cond, st, thenK, elseK)
	case *ast.SwitchStmt:
		if x.Init != nil {
			t.p.bad(s, "switch with init")
		}
		var clauses []*ast.CaseClause
		var deflt *ast.CaseClause
		for _, c := range x.Body.List {
			cc := c.(*ast.CaseClause)
			for _, b := range cc.Body {
				if br, ok := b.(*ast.BranchStmt); ok {
					t.p.bad(br, "branch statement in switch")
				}
			}
			if cc.List == nil {
				deflt = cc
			} else {
				clauses = append(clauses, cc)
			}
		}
		var build func(i int, st2 symState) *tree
		build = func(i int, st2 symState) *tree {
			if i == len(clauses) {
				if deflt != nil {
					return t.exec(deflt.Body, st2, cont)
				}
				return cont(st2)
			}
			cc := clauses[i]
			body := func(s3 symState) *tree { return t.exec(cc.Body, s3, cont) }
			next := func(s3 symState) *tree { return build(i+1, s3) }
			if x.Tag == nil {
				// tagless switch: each clause has boolean expressions (any of them)
				var or ast.Expr
				for _, e := range cc.List {
					if or == nil {
						or = e
					} else {
						or = &ast.BinaryExpr{X: or, Op: token.LOR, Y: e, OpPos: e.Pos()}
					}
				}
				return t.branch(or, st2, body, next)
			}
			if !isC(x.Tag, st2) {
				t.p.bad(x.Tag, "switch tag")
			}
			if st2.rewound {
				t.p.bad(x, "switch after rewind")
			}
			// merge byte constants of the clause into one set when possible
			var vals []int
			var others []string
			for _, e := range cc.List {
				if v, ok := t.byteConst(e); ok {
					vals = append(vals, v)
				} else {
					others = append(others, t.caseCond(e, st2))
				}
			}
			conds := others
			if len(vals) > 0 {
				conds = append([]string{byteSet(vals)}, conds...)
			}
			// chain: if c1 then body else if c2 then body ... else next
			var chain func(j int) *tree
			chain = func(j int) *tree {
				if j == len(conds) {
					return next(st2.clone())
				}
				return node(conds[j], body(st2.clone()), chain(j+1))
			}
			return chain(0)
		}
		return build(0, st)
	case *ast.BlockStmt:
		return t.exec(append(append([]ast.Stmt{}, x.List...), rest...), st, k)
	}
	t.p.bad(s, "statement %T", s)
	return nil
}

func (t *scanTr) isPopCall(e ast.Expr, st symState) bool {
	c, ok := e.(*ast.CallExpr)
	if !ok || len(c.Args) != 0 {
		return false
	}
	sel, ok := c.Fun.(*ast.SelectorExpr)
	if !ok || sel.Sel.Name != "Pop" {
		return false
	}
	in, ok := sel.X.(*ast.SelectorExpr)
	return ok && identName(in.X) == st.recv && in.Sel.Name == "stepStack"
}

// if je != nil { return je }; if n > 0 { s.curIndex += bytes.Index(n - 1) }
func (t *scanTr) isReadTail(n, je string, a, b ast.Stmt, st symState) bool {
	ia, ok := a.(*ast.IfStmt)
	if !ok || ia.Else != nil || ia.Init != nil || len(ia.Body.List) != 1 {
		return false
	}
	ca, ok := ia.Cond.(*ast.BinaryExpr)
	if !ok || ca.Op != token.NEQ || identName(ca.X) != je || identName(ca.Y) != "nil" {
		return false
	}
	ra, ok := ia.Body.List[0].(*ast.ReturnStmt)
	if !ok || len(ra.Results) != 1 || identName(ra.Results[0]) != je {
		return false
	}
	ib, ok := b.(*ast.IfStmt)
	if !ok || ib.Else != nil || ib.Init != nil || len(ib.Body.List) != 1 {
		return false
	}
	cb, ok := ib.Cond.(*ast.BinaryExpr)
	if !ok || cb.Op != token.GTR || identName(cb.X) != n {
		return false
	}
	if bl, ok := cb.Y.(*ast.BasicLit); !ok || bl.Value != "0" {
		return false
	}
	as, ok := ib.Body.List[0].(*ast.AssignStmt)
	if !ok || as.Tok != token.ADD_ASSIGN || len(as.Lhs) != 1 || !t.isCurIndex(as.Lhs[0], st) {
		return false
	}
	conv, ok := as.Rhs[0].(*ast.CallExpr)
	if !ok || callName(conv.Fun) != "bytes.Index" || len(conv.Args) != 1 {
		return false
	}
	sub, ok := conv.Args[0].(*ast.BinaryExpr)
	if !ok || sub.Op != token.SUB || identName(sub.X) != n {
		return false
	}
	bl, ok := sub.Y.(*ast.BasicLit)
	return ok && bl.Value == "1"
}

func (t *scanTr) effectCall(call *ast.CallExpr, st symState, cont func(symState) *tree) *tree {
	sel, ok := call.Fun.(*ast.SelectorExpr)
	if !ok {
		t.p.bad(call, "call statement")
	}
	st2 := st.clone()
	if identName(sel.X) == st.recv {
		switch sel.Sel.Name {
		case "found":
			if len(call.Args) == 1 && t.evts[identName(call.Args[0])] {
				if st.rewound {
					t.p.bad(call, "found after rewind")
				}
				st2.acts = append(st2.acts, "AFound 0 "+identName(call.Args[0]))
				return cont(st2)
			}
		case "foundAt":
			if len(call.Args) == 2 && t.evts[identName(call.Args[1])] {
				if st.rewound {
					t.p.bad(call, "foundAt after rewind")
				}
				st2.acts = append(st2.acts, fmt.Sprintf("AFound %d %s", t.backOffset(call.Args[0], st), identName(call.Args[1])))
				return cont(st2)
			}
		}
		t.p.bad(call, "scanner method call statement")
	}
	// s.stepStack.Push(x)
	if in, ok := sel.X.(*ast.SelectorExpr); ok && identName(in.X) == st.recv && in.Sel.Name == "stepStack" && sel.Sel.Name == "Push" && len(call.Args) == 1 {
		if ref, ok := t.stateRef(call.Args[0]); ok {
			st2.acts = append(st2.acts, "APush "+ref)
			return cont(st2)
		}
		if a, ok := call.Args[0].(*ast.SelectorExpr); ok && identName(a.X) == st.recv && a.Sel.Name == "step" {
			st2.acts = append(st2.acts, "APushCur")
			return cont(st2)
		}
	}
	t.p.bad(call, "call statement")
	return nil
}

func (t *scanTr) ret(r *ast.ReturnStmt, st symState) *tree {
	if len(r.Results) != 1 {
		t.p.bad(r, "return arity")
	}
	e := r.Results[0]
	if identName(e) == "nil" {
		return leaf(st, "XNil")
	}
	call, ok := e.(*ast.CallExpr)
	if !ok {
		t.p.bad(r, "return value")
	}
	// return stateX(s, c)  /  return helperFunc(s, "lit")
	if fn := identName(call.Fun); fn != "" {
		fd := t.p.funcs[fn]
		if fd == nil || fd.Recv != nil {
			t.p.bad(r, "call of %s", fn)
		}
		return t.inline(fd, call, "", st)
	}
	sel, ok := call.Fun.(*ast.SelectorExpr)
	if !ok || identName(sel.X) != st.recv {
		t.p.bad(r, "return call")
	}
	switch sel.Sel.Name {
	case "step":
		// return s.step(s, c)
		if len(call.Args) == 2 && identName(call.Args[0]) == st.recv && isC(call.Args[1], st) {
			if st.rewound {
				t.p.bad(r, "re-dispatch after rewind")
			}
			return leaf(st, "XRedo")
		}
	case "japiErrorUnexpectedChar":
		if len(call.Args) == 2 {
			if st.rewound {
				t.p.bad(r, "error after rewind")
			}
			return leaf(st, fmt.Sprintf("XErr (EUnexpected %s %s)", safeCoqString(t.strArg(call.Args[0], st)), safeCoqString(t.strArg(call.Args[1], st))))
		}
	case "japiErrorBasic":
		if len(call.Args) == 1 {
			if st.rewound {
				t.p.bad(r, "error after rewind")
			}
			return leaf(st, fmt.Sprintf("XErr (EBasic %s)", safeCoqString(t.strArg(call.Args[0], st))))
		}
	default:
		fd := t.p.funcs["Scanner."+sel.Sel.Name]
		if fd != nil {
			return t.inline(fd, call, sel.Sel.Name, st)
		}
	}
	t.p.bad(r, "return of %s", sel.Sel.Name)
	return nil
}

func (t *scanTr) inline(fd *ast.FuncDecl, call *ast.CallExpr, method string, st symState) *tree {
	if st.depth >= maxInline {
		t.p.bad(call, "static call chain deeper than %d (recursion?)", maxInline)
	}
	if method != "" {
		t.inlined["Scanner."+method] = true
	} else {
		t.inlined[fd.Name.Name] = true
	}
	st2 := st.clone()
	st2.depth++
	st2.env = map[string]string{}
	params := []*ast.Ident{}
	for _, f := range fd.Type.Params.List {
		for _, n := range f.Names {
			params = append(params, n)
		}
		if len(f.Names) == 0 {
			t.p.bad(fd, "unnamed parameter")
		}
	}
	if len(params) != len(call.Args) {
		t.p.bad(call, "argument count")
	}
	newRecv := st.recv
	newC := "_"
	if method != "" {
		newRecv = fd.Recv.List[0].Names[0].Name
	}
	for i, p := range params {
		a := call.Args[i]
		switch {
		case identName(a) == st.recv:
			if method != "" {
				t.p.bad(call, "scanner passed to a method")
			}
			newRecv = p.Name
		case isC(a, st):
			newC = p.Name
		default:
			st2.env[p.Name] = t.strArg(a, st)
		}
	}
	st2.recv = newRecv
	st2.cname = newC
	return t.exec(fd.Body.List, st2, func(symState) *tree {
		t.p.bad(fd, "function %s falls off its end", fd.Name.Name)
		return nil
	})
}

func (tr *tree) coq(indent string) string {
	if tr.leaf {
		return fmt.Sprintf("Leaf [%s] %s", strings.Join(tr.acts, "; "), parenExit(tr.exit))
	}
	return fmt.Sprintf("Node (%s)\n%s  (%s)\n%s  (%s)", tr.cond, indent, tr.t.coq(indent+"  "), indent, tr.e.coq(indent+"  "))
}

func parenExit(e string) string {
	if strings.Contains(e, " ") {
		return "(" + e + ")"
	}
	return e
}

type scanModel struct {
	stateNames []string
	trees      map[string]*tree
	initial    string
	begin      []string
	ending     []string
	single     []string
	pairs      [][2]string
	text       string
}

var scanCache = map[string]*scanModel{}

func genScanner(repo string) string { return buildScanner(repo).text }

func genTyping(repo string) string {
	m := buildScanner(repo)
	set := func(l []string) map[string]bool {
		r := map[string]bool{}
		for _, x := range l {
			r[x] = true
		}
		return r
	}
	pairs := map[string]string{}
	for _, p := range m.pairs {
		pairs[p[0]] = p[1]
	}
	ti := inferTyping(m.stateNames, m.trees, m.initial, set(m.begin), set(m.ending), set(m.single), pairs)
	return ti.coq()
}

func buildScanner(repo string) *scanModel {
	if m, ok := scanCache[repo]; ok {
		return m
	}
	p := loadPkg(repo, "scanner")
	t := &scanTr{p: p, consts: map[string]int{}, states: map[string]bool{}, evts: map[string]bool{}, inlined: map[string]bool{}}

	// byte constants of constants.go
	for _, f := range p.files {
		for _, d := range f.Decls {
			gd, ok := d.(*ast.GenDecl)
			if !ok || gd.Tok != token.CONST {
				continue
			}
			for _, s := range gd.Specs {
				vs := s.(*ast.ValueSpec)
				for i, n := range vs.Names {
					if i < len(vs.Values) {
						if v, ok := t.byteConst(vs.Values[i]); ok {
							t.consts[n.Name] = v
						}
					}
				}
			}
		}
	}
	t.classes = map[string][]int{}
	// Next() feeds the pseudo byte EOF after the last byte and refuses it inside the file; the hand model of the loop
	// (ScannerSem.main_loop, ENul) and the inferred typing know it as 0
	if v, ok := t.consts["EOF"]; !ok || v != 0 {
		p.bad(constSpec(p, "EOF"), "constant EOF: ScannerSem.main_loop models the end-of-file pseudo byte as 0")
	}
	checkPins(p, "scanner", "scanner")
	t.errorsCarryCurIndex()
	evts := constBlockNames(p, "lexeme-event.go", "LexemeEventType")
	for _, e := range evts {
		t.evts[e] = true
	}
	lexkinds := constBlockNames(p, "lexeme.go", "LexemeType")

	var stateNames []string
	for name, fd := range p.funcs {
		if t.isStepFunc(fd) {
			stateNames = append(stateNames, name)
			t.states[name] = true
		}
	}
	sort.Strings(stateNames)
	for _, n := range stateNames {
		if !strings.HasPrefix(n, "state") {
			p.bad(p.funcs[n], "step function %s is not named state*", n)
		}
	}

	begin := switchTrueSet(p, "LexemeEventType.IsBeginning")
	ending := switchTrueSet(p, "LexemeEventType.IsEnding")
	single := switchTrueSet(p, "LexemeEventType.IsSingle")
	toLex := t.toLexemeType()
	pairs := t.eventPairs()
	initial := t.initialState()

	var b strings.Builder
	b.WriteString(header)
	b.WriteString("(* scanner/*.go: one decision tree per step function *)\n")
	b.WriteString("From Coq Require Import List NArith Bool String.\nImport ListNotations.\nOpen Scope N_scope.\n\n")
	b.WriteString("Inductive state : Set :=\n")
	for _, n := range stateNames {
		fmt.Fprintf(&b, "| %s\n", stateCtor(n))
	}
	b.WriteString(".\n\nDefinition all_states : list state :=\n  [" + joinMap(stateNames, stateCtor, "; ") + "].\n\n")
	b.WriteString("Definition state_idx (s : state) : N :=\n  match s with\n")
	for i, n := range stateNames {
		fmt.Fprintf(&b, "  | %s => %d\n", stateCtor(n), i)
	}
	b.WriteString("  end.\n\n")
	b.WriteString("Definition state_of_idx (n : N) : state :=\n  match n with\n")
	for i, n := range stateNames {
		fmt.Fprintf(&b, "  | %d => %s\n", i, stateCtor(n))
	}
	fmt.Fprintf(&b, "  | _ => %s\n  end.\n\n", stateCtor(stateNames[0]))
	b.WriteString("Definition state_name (s : state) : string :=\n  match s with\n")
	for _, n := range stateNames {
		fmt.Fprintf(&b, "  | %s => %s\n", stateCtor(n), coqString(n))
	}
	b.WriteString("  end.\n\n")
	fmt.Fprintf(&b, "Definition initial_state : state := %s.\n\n", initial)

	b.WriteString("Inductive evt : Set :=\n")
	for _, e := range evts {
		fmt.Fprintf(&b, "| %s\n", e)
	}
	b.WriteString(".\n\nDefinition evt_idx (e : evt) : N :=\n  match e with\n")
	for i, e := range evts {
		fmt.Fprintf(&b, "  | %s => %d\n", e, i)
	}
	b.WriteString("  end.\n\n")
	b.WriteString("Definition all_evts : list evt :=\n  [" + strings.Join(evts, "; ") + "].\n\n")
	b.WriteString("Definition evt_of_idx (n : N) : evt :=\n  match n with\n")
	for i, e := range evts {
		fmt.Fprintf(&b, "  | %d => %s\n", i, e)
	}
	fmt.Fprintf(&b, "  | _ => %s\n  end.\n\n", evts[0])
	b.WriteString("Inductive lexkind : Set :=\n")
	for _, e := range lexkinds {
		fmt.Fprintf(&b, "| L%s\n", e)
	}
	b.WriteString(".\n\nDefinition lexkind_idx (k : lexkind) : N :=\n  match k with\n")
	for i, e := range lexkinds {
		fmt.Fprintf(&b, "  | L%s => %d\n", e, i)
	}
	b.WriteString("  end.\n\n")
	id := func(s string) string { return s }
	b.WriteString("Definition evt_beginning : list evt := [" + joinMap(begin, id, "; ") + "].\n")
	b.WriteString("Definition evt_ending : list evt := [" + joinMap(ending, id, "; ") + "].\n")
	b.WriteString("Definition evt_single : list evt := [" + joinMap(single, id, "; ") + "].\n\n")
	b.WriteString("(* LexemeEventType.ToLexemeType; None = the Go function panics *)\nDefinition evt_lexkind (e : evt) : option lexkind :=\n  match e with\n")
	for _, e := range evts {
		if k, ok := toLex[e]; ok {
			fmt.Fprintf(&b, "  | %s => Some L%s\n", e, k)
		} else {
			fmt.Fprintf(&b, "  | %s => None\n", e)
		}
	}
	b.WriteString("  end.\n\n")
	b.WriteString("(* begin/end pairs accepted by processLexemeEvent *)\nDefinition evt_pairs : list (evt * evt) :=\n  [")
	for i, pr := range pairs {
		if i > 0 {
			b.WriteString("; ")
		}
		fmt.Fprintf(&b, "(%s, %s)", pr[0], pr[1])
	}
	b.WriteString("].\n\n")
	b.WriteString(`Inductive cond : Set :=
| CByteIn (l : list N)          (* the current byte is one of l *)
| CIsDirective                  (* s.isDirective() *)
| CHasTypeOrAnyOrEmpty          (* s.isDirectiveParameterHasTypeOrAnyOrEmpty() *)
| CHasAnyOrEmpty                (* s.isDirectiveParameterHasAnyOrEmpty() *)
| CHasRegex                     (* s.isDirectiveParameterHasRegexNotation() *)
| CPrevIs (k : N).              (* s.data[s.curIndex-1] == k *)

Inductive act : Set :=
| AFound (back : N) (e : evt)   (* s.foundAt(s.curIndex - back, e) *)
| ASetStep (s : state)
| APush (s : state)
| APushCur                      (* s.stepStack.Push(s.step) *)
| APop                          (* s.step = s.stepStack.Pop() *)
| ARewind (n : N)               (* s.curIndex -= n *)
| AReadSchema                   (* n, je := readSchemaWithJsc(); error -> return; n > 0 -> curIndex += n-1 *)
| AReadEnum.

Inductive errkind : Set :=
| EUnexpected (where_ expected : string)   (* japiErrorUnexpectedChar *)
| EBasic (msg : string).                   (* japiErrorBasic *)

Inductive exit : Set :=
| XNil                          (* return nil *)
| XRedo                         (* return s.step(s, c) *)
| XErr (e : errkind).

Inductive tree : Set :=
| Leaf (acts : list act) (x : exit)
| Node (c : cond) (t e : tree).

`)
	b.WriteString("Definition step_tree (s : state) : tree :=\n  match s with\n")
	trees := map[string]*tree{}
	for _, n := range stateNames {
		fd := p.funcs[n]
		st := symState{recv: fd.Type.Params.List[0].Names[0].Name, cname: fd.Type.Params.List[1].Names[0].Name, env: map[string]string{}}
		tr := t.exec(fd.Body.List, st, func(symState) *tree {
			p.bad(fd, "function %s falls off its end", n)
			return nil
		})
		trees[n] = tr
		fmt.Fprintf(&b, "  | %s =>\n    %s\n", stateCtor(n), tr.coq("    "))
	}
	b.WriteString("  end.\n")
	t.scannerFunctionsKnown(repo)
	m := &scanModel{stateNames: stateNames, trees: trees, initial: initial, begin: begin, ending: ending, single: single, pairs: pairs, text: b.String()}
	scanCache[repo] = m
	return m
}

// ToLexemeType: func (e LexemeEventType) ToLexemeType() LexemeType { switch e { case A, B: return X ... default: panic(..) } }
// An event without a case is one for which the Go function panics (evt_lexkind = None): the default clause must be
// there and must be a panic, and nothing may follow the switch.
func (t *scanTr) toLexemeType() map[string]string {
	fd := t.p.funcs["LexemeEventType.ToLexemeType"]
	if fd == nil {
		fatal("LexemeEventType.ToLexemeType not found")
	}
	if len(fd.Body.List) != 1 || len(fd.Recv.List[0].Names) != 1 {
		t.p.bad(fd, "ToLexemeType shape: a single switch over the receiver expected")
	}
	sw, ok := fd.Body.List[0].(*ast.SwitchStmt)
	if !ok || sw.Init != nil || identName(sw.Tag) != fd.Recv.List[0].Names[0].Name {
		t.p.bad(fd, "ToLexemeType shape: a single switch over the receiver expected")
	}
	out := map[string]string{}
	sawDefault := false
	for _, c := range sw.Body.List {
		cc := c.(*ast.CaseClause)
		if cc.List == nil {
			sawDefault = true
			isPanic := false
			if len(cc.Body) == 1 {
				if es, ok := cc.Body[0].(*ast.ExprStmt); ok {
					if call, ok := es.X.(*ast.CallExpr); ok && identName(call.Fun) == "panic" {
						isPanic = true
					}
				}
			}
			if !isPanic {
				t.p.bad(cc, "ToLexemeType default clause: a panic expected (evt_lexkind = None stands for it)")
			}
			continue
		}
		if len(cc.Body) != 1 {
			t.p.bad(cc, "ToLexemeType case body")
		}
		r, ok := cc.Body[0].(*ast.ReturnStmt)
		if !ok || len(r.Results) != 1 || identName(r.Results[0]) == "" {
			t.p.bad(cc, "ToLexemeType case body")
		}
		for _, e := range cc.List {
			n := identName(e)
			if !t.evts[n] {
				t.p.bad(e, "ToLexemeType case expression: a LexemeEventType constant expected")
			}
			if _, dup := out[n]; dup {
				t.p.bad(e, "ToLexemeType: %s occurs in two cases", n)
			}
			out[n] = identName(r.Results[0])
		}
	}
	if !sawDefault {
		t.p.bad(sw, "ToLexemeType has no default clause")
	}
	return out
}

// the case list `startType == A && eventType == B, ...` inside processLexemeEvent: exactly one clause, every expression
// of it of that form (the rest of the function is pinned with this clause blanked out: pins.go)
func (t *scanTr) eventPairs() [][2]string {
	fd := t.p.funcs["Scanner.processLexemeEvent"]
	if fd == nil {
		fatal("processLexemeEvent not found")
	}
	var out [][2]string
	clauses := 0
	pairOf := func(e ast.Expr) ([2]string, bool) {
		be, ok := e.(*ast.BinaryExpr)
		if !ok || be.Op != token.LAND {
			return [2]string{}, false
		}
		l, ok1 := be.X.(*ast.BinaryExpr)
		r, ok2 := be.Y.(*ast.BinaryExpr)
		if ok1 && ok2 && l.Op == token.EQL && r.Op == token.EQL && identName(l.X) == "startType" && identName(r.X) == "eventType" &&
			t.evts[identName(l.Y)] && t.evts[identName(r.Y)] {
			return [2]string{identName(l.Y), identName(r.Y)}, true
		}
		return [2]string{}, false
	}
	ast.Inspect(fd.Body, func(n ast.Node) bool {
		cc, ok := n.(*ast.CaseClause)
		if !ok {
			return true
		}
		some := false
		for _, e := range cc.List {
			if _, ok := pairOf(e); ok {
				some = true
			}
		}
		if !some {
			return true
		}
		clauses++
		for _, e := range cc.List {
			pr, ok := pairOf(e)
			if !ok {
				t.p.bad(e, "processLexemeEvent: `startType == <begin event> && eventType == <end event>` expected in the clause of the accepted pairs")
			}
			out = append(out, pr)
		}
		return true
	})
	if clauses != 1 {
		t.p.bad(fd, "processLexemeEvent: %d clauses of begin/end pairs (one expected)", clauses)
	}
	return out
}

// constSpec: the value spec that declares the constant (for positions in messages); the package itself when absent
func constSpec(p *pkg, name string) ast.Node {
	for _, fn := range sortedFileNames(p) {
		for _, d := range p.files[fn].Decls {
			if gd, ok := d.(*ast.GenDecl); ok && gd.Tok == token.CONST {
				for _, s := range gd.Specs {
					for _, n := range s.(*ast.ValueSpec).Names {
						if n.Name == name {
							return n
						}
					}
				}
			}
		}
	}
	for _, fn := range sortedFileNames(p) {
		return p.files[fn]
	}
	return nil
}

// errorsCarryCurIndex: japiErrorUnexpectedChar (exit XErr (EUnexpected ..)) builds a message the model does not
// represent; what the model says about it is the POSITION: every return of the function must be
// recv.japiError(<message>, recv.curIndex) (japiError and japiErrorBasic are pinned).
func (t *scanTr) errorsCarryCurIndex() {
	fd := t.p.funcs["Scanner.japiErrorUnexpectedChar"]
	if fd == nil {
		p := t.p
		panic(unsupported{token.Position{Filename: p.dir}, "Scanner.japiErrorUnexpectedChar not found (exit XErr (EUnexpected ..) of the scanner table)"})
	}
	if len(fd.Recv.List[0].Names) != 1 || len(fd.Body.List) == 0 {
		t.p.bad(fd, "japiErrorUnexpectedChar shape")
	}
	recv := fd.Recv.List[0].Names[0].Name
	if _, ok := fd.Body.List[len(fd.Body.List)-1].(*ast.ReturnStmt); !ok {
		t.p.bad(fd, "japiErrorUnexpectedChar: the last statement is not a return")
	}
	ast.Inspect(fd.Body, func(n ast.Node) bool {
		switch x := n.(type) {
		case *ast.FuncLit:
			t.p.bad(x, "japiErrorUnexpectedChar: function literal")
		case *ast.AssignStmt:
			for _, l := range x.Lhs {
				if _, ok := l.(*ast.Ident); !ok {
					t.p.bad(x, "japiErrorUnexpectedChar: assignment to something that is not a local variable")
				}
			}
		case *ast.ReturnStmt:
			ok := false
			if len(x.Results) == 1 {
				if call, isCall := x.Results[0].(*ast.CallExpr); isCall && len(call.Args) == 2 {
					if sel, isSel := call.Fun.(*ast.SelectorExpr); isSel && identName(sel.X) == recv && sel.Sel.Name == "japiError" {
						if a, isSel := call.Args[1].(*ast.SelectorExpr); isSel && identName(a.X) == recv && a.Sel.Name == "curIndex" {
							ok = true
						}
					}
				}
			}
			if !ok {
				t.p.bad(x, "japiErrorUnexpectedChar: `return %s.japiError(<message>, %s.curIndex)` expected (ScannerSem.dispatch: XErr e => Err (pos g') (EStep e))", recv, recv)
			}
		}
		return true
	})
}

// scannerFunctionsKnown: closed world.  Every function of package scanner that works on a Scanner (method of Scanner, or
// plain function with a *Scanner parameter)
// must be one the model accounts for: a step function or a helper translated with it, a pinned function (pins.go), the
// error constructors, a read-only accessor (`return s.<field>`), or a setter of scannerUncalledSetters that nothing in
// the module calls.  A new method that moves curIndex or touches the stacks would otherwise be invisible to the model.
var scannerUncalledSetters = map[string]bool{"Scanner.SetCurrentIndex": true}

func (t *scanTr) scannerFunctionsKnown(repo string) {
	pinned := map[string]bool{}
	for _, pn := range pins {
		if pn.pkg == "scanner" {
			for _, d := range pn.decls {
				pinned[d.name] = true
			}
		}
	}
	isScannerType := func(e ast.Expr) bool {
		if st, ok := e.(*ast.StarExpr); ok {
			e = st.X
		}
		return identName(e) == "Scanner"
	}
	var names []string
	for n := range t.p.funcs {
		names = append(names, n)
	}
	sort.Strings(names)
	for _, name := range names {
		fd := t.p.funcs[name]
		onScanner := fd.Recv != nil && len(fd.Recv.List) == 1 && isScannerType(fd.Recv.List[0].Type)
		if fd.Recv == nil && fd.Type.Params != nil {
			for _, f := range fd.Type.Params.List {
				if isScannerType(f.Type) {
					onScanner = true
				}
			}
		}
		if !onScanner || t.states[name] || t.inlined[name] || pinned[name] || name == "Scanner.japiErrorUnexpectedChar" {
			continue
		}
		if scannerUncalledSetters[name] {
			if pos, found := callerInModule(repo, fd.Name.Name); found {
				panic(unsupported{pos, fmt.Sprintf("call of %s: the scanner model (coq/model/ScannerSem.v, Core.v) has no counterpart of this setter; it is tolerated only while nothing in the module calls it", name)})
			}
			continue
		}
		// read-only accessor
		if fd.Recv != nil && len(fd.Recv.List[0].Names) == 1 && fd.Body != nil && len(fd.Body.List) == 1 {
			if r, ok := fd.Body.List[0].(*ast.ReturnStmt); ok && len(r.Results) == 1 {
				if sel, ok := r.Results[0].(*ast.SelectorExpr); ok && identName(sel.X) == fd.Recv.List[0].Names[0].Name {
					continue
				}
			}
		}
		t.p.bad(fd, "function %s works on the Scanner but is neither a step function, nor a helper a step function returns through, "+
			"nor pinned in go2coq/pins.go, nor a read-only accessor: the scanner model (coq/model/ScannerSem.v) does not know it", name)
	}
}

// callerInModule: the first call `x.<method>(...)` in a non-test Go file of the repository
func callerInModule(repo, method string) (token.Position, bool) {
	var res token.Position
	found := false
	filepath.WalkDir(repo, func(path string, d os.DirEntry, err error) error {
		if err != nil || found {
			return nil
		}
		if d.IsDir() {
			if n := d.Name(); path != repo && (strings.HasPrefix(n, ".") || n == "testdata" || n == "vendor") {
				return filepath.SkipDir
			}
			return nil
		}
		if !strings.HasSuffix(path, ".go") || strings.HasSuffix(path, "_test.go") {
			return nil
		}
		fset := token.NewFileSet()
		f, perr := parser.ParseFile(fset, path, nil, 0)
		if perr != nil {
			return nil
		}
		ast.Inspect(f, func(n ast.Node) bool {
			if call, ok := n.(*ast.CallExpr); ok && !found {
				if sel, ok := call.Fun.(*ast.SelectorExpr); ok && sel.Sel.Name == method {
					res, found = fset.Position(call.Pos()), true
				}
			}
			return !found
		})
		return nil
	})
	return res, found
}

func (t *scanTr) initialState() string {
	fd := t.p.funcs["NewJApiScanner"]
	if fd == nil {
		fatal("NewJApiScanner not found")
	}
	res := ""
	ast.Inspect(fd.Body, func(n ast.Node) bool {
		kv, ok := n.(*ast.KeyValueExpr)
		if ok && identName(kv.Key) == "step" {
			if ref, ok := t.stateRef(kv.Value); ok {
				res = ref
			}
		}
		return true
	})
	if res == "" {
		fatal("initial step not found in NewJApiScanner")
	}
	return res
}
