package main

// catalog/rules_builder.go and catalog/rules.go -> gen/RulesFacts.v
//
// The hand-written pair RulesBuilder (index map + data slice behind a mutex) / Rules (the
// same struct read without any lock) gets the facts the generated collections get
// (collections.go): for every function of the two files
//   1. the lock prefix (`b.mx.Lock(); defer b.mx.Unlock()` or the R pair) is stripped and
//      recorded; any other mention of the mutex is rejected (lockPrefix of collections.go),
//   2. the remaining function (signature + body) is compared with the NORMAL FORMS below on
//      the AST, up to consistent renaming of receiver, parameters and locals (astCmp of
//      collections.go); the operation a function denotes is decided by its BODY,
//   3. the methods of the receiver called in the body are recorded.
// A body that matches no normal form, a method of RulesBuilder/Rules declared in another file,
// an unexpected field of either struct => FAILED rules.
//
// With go/types: every selection of RulesBuilder.rules / RulesBuilder.mx outside
// rules_builder.go and of Rules.index / Rules.data outside rules.go and rules_builder.go is
// listed with a syntactic read/write class (write = assignment / inc-dec target rooted at the
// selection, `&sel`, delete(sel, ..)).  model/RulesLocks.v demands that all of them are reads.
//
// Coq (model/RulesLocks.v, proofs/RulesBuilderProofs.v) then checks: writers hold Lock for
// the whole body, names carry the expected operation, no locked method calls a locking one,
// and RECORDS that the readers take no lock (the premise of the finding proved there).

import (
	"crypto/sha256"
	"encoding/hex"
	"fmt"
	"go/ast"
	"go/importer"
	"go/parser"
	"go/token"
	"go/types"
	"os"
	"path/filepath"
	"sort"
	"strings"
)

const (
	rulesBuilderFile = "rules_builder.go"
	rulesFile        = "rules.go"
)

// The lock prefix is NOT part of a normal form.  T_ stands for the type the function belongs to.
var rulesNormalForms = []struct {
	typ string // "RulesBuilder" | "Rules"
	op  string
	src string
}{
	{"RulesBuilder", "RoNewBuilder", `func F(caption int) *T_ {
		return &T_{
			rules: &Rules{
				data:  make([]Rule, 0, caption),
				index: make(map[string]int, caption),
			},
		}
	}`},
	// Set: the key of the rule is overwritten, the index entry is written FIRST, then the
	// rule is appended - also when the key is already present (nothing is overwritten in place)
	{"RulesBuilder", "RoSet", `func (b *T_) F(k string, r Rule) {
		r.Key = k
		b.rules.index[k] = len(b.rules.data)
		b.rules.data = append(b.rules.data, r)
	}`},
	{"RulesBuilder", "RoAppend", `func (b *T_) F(r Rule) {
		b.rules.data = append(b.rules.data, r)
	}`},
	// the pointer itself: an alias of the state the builder keeps writing, not a copy
	{"RulesBuilder", "RoRules", `func (b *T_) F() *Rules {
		return b.rules
	}`},
	{"Rules", "RoNewRules", `func F(d []Rule) *T_ {
		rr := &T_{
			data:  d,
			index: make(map[string]int, len(d)),
		}
		for i, r := range d {
			rr.index[r.Key] = i
		}
		return rr
	}`},
	{"Rules", "RoLen", `func (rr *T_) F() int {
		return len(rr.data)
	}`},
	{"Rules", "RoHas", `func (rr *T_) F(k string) bool {
		if rr == nil {
			return false
		}
		_, ok := rr.index[k]
		return ok
	}`},
	{"Rules", "RoGet", `func (rr *T_) F(k string) (Rule, bool) {
		if rr == nil {
			return Rule{}, false
		}
		i, ok := rr.index[k]
		if !ok {
			return Rule{}, false
		}
		return rr.data[i], true
	}`},
	{"Rules", "RoEach", `func (rr *T_) F(fn func(k string, v Rule) error) error {
		if rr != nil {
			for _, v := range rr.data {
				if err := fn(v.Key, v); err != nil {
					return err
				}
			}
		}
		return nil
	}`},
	{"Rules", "RoMarshalJSON", `func (rr *T_) F() ([]byte, error) {
		return json.Marshal(rr.data)
	}`},
}

var rulesOps = []string{"RoNewBuilder", "RoSet", "RoAppend", "RoRules", "RoNewRules", "RoLen", "RoHas", "RoGet", "RoEach", "RoMarshalJSON"}

// only used to word the failure message
var rulesExpectedOp = map[string]string{
	"RulesBuilder.newRulesBuilder": "RoNewBuilder", "RulesBuilder.Set": "RoSet", "RulesBuilder.Append": "RoAppend",
	"RulesBuilder.Rules": "RoRules", "Rules.NewRules": "RoNewRules", "Rules.Len": "RoLen", "Rules.Has": "RoHas",
	"Rules.Get": "RoGet", "Rules.Each": "RoEach", "Rules.MarshalJSON": "RoMarshalJSON",
}

type rulesMethod struct {
	typ, name, file, op, lock string
	calls                     []string
}

func typeText(e ast.Expr) string {
	switch x := e.(type) {
	case *ast.Ident:
		return x.Name
	case *ast.StarExpr:
		return "*" + typeText(x.X)
	case *ast.SelectorExpr:
		return typeText(x.X) + "." + x.Sel.Name
	case *ast.ArrayType:
		if x.Len == nil {
			return "[]" + typeText(x.Elt)
		}
	case *ast.MapType:
		return "map[" + typeText(x.Key) + "]" + typeText(x.Value)
	}
	return fmt.Sprintf("%T", e)
}

// rulesStruct checks that the struct `name` has exactly the fields `want` (name -> type text)
func rulesStruct(p *pkg, name, file string, want map[string]string) *ast.TypeSpec {
	f := p.files[file]
	if f == nil {
		fatal("catalog/%s is missing", file)
	}
	for _, d := range f.Decls {
		gd, ok := d.(*ast.GenDecl)
		if !ok || gd.Tok != token.TYPE {
			continue
		}
		for _, s := range gd.Specs {
			ts := s.(*ast.TypeSpec)
			if ts.Name.Name != name {
				continue
			}
			st, ok := ts.Type.(*ast.StructType)
			if !ok {
				p.bad(ts, "%s is not a struct", name)
			}
			seen := map[string]bool{}
			for _, fl := range st.Fields.List {
				if len(fl.Names) != 1 {
					p.bad(fl, "field list of %s", name)
				}
				fn := fl.Names[0].Name
				wt, ok := want[fn]
				if !ok {
					p.bad(fl, "unexpected field %s in %s (the model of model/RulesBuilder.v knows %v)", fn, name, sortedKeys(want))
				}
				if got := typeText(fl.Type); got != wt {
					p.bad(fl, "%s.%s has type %s, the model expects %s", name, fn, got, wt)
				}
				if wt == "sync.RWMutex" && importsAt(p, fl.Pos())["sync"] != "sync" {
					p.bad(fl, "%s.%s: sync is not the standard library's package sync in this file", name, fn)
				}
				seen[fn] = true
			}
			for fn := range want {
				if !seen[fn] {
					p.bad(ts, "%s lacks the field %s", name, fn)
				}
			}
			return ts
		}
	}
	fatal("type %s not found in catalog/%s", name, file)
	return nil
}

func sortedKeys(m map[string]string) []string {
	out := make([]string, 0, len(m))
	for k := range m {
		out = append(out, k)
	}
	sort.Strings(out)
	return out
}

func genRules(repo string) string {
	p := loadPkg(repo, "catalog")
	rulesStruct(p, "RulesBuilder", rulesBuilderFile, map[string]string{"rules": "*Rules", "mx": "sync.RWMutex"})
	rulesStruct(p, "Rules", rulesFile, map[string]string{"index": "map[string]int", "data": "[]Rule"})
	home := map[string]string{"RulesBuilder": rulesBuilderFile, "Rules": rulesFile}
	hasMutex := map[string]bool{"RulesBuilder": true, "Rules": false}

	type nf struct {
		typ, op string
		fd      *ast.FuncDecl
	}
	var nfs []nf
	fset := token.NewFileSet()
	for i, n := range rulesNormalForms {
		f, err := parser.ParseFile(fset, fmt.Sprintf("rulesnf%d.go", i), "package nf\n"+n.src, 0)
		if err != nil {
			fatal("normal form %s does not parse: %v", n.op, err)
		}
		nfs = append(nfs, nf{n.typ, n.op, f.Decls[0].(*ast.FuncDecl)})
	}

	aliases := pkgAliases(p)
	var methods []rulesMethod
	fileNames := make([]string, 0, len(p.files))
	for n := range p.files {
		fileNames = append(fileNames, n)
	}
	sort.Strings(fileNames)
	for _, fn := range fileNames {
		inHome := fn == rulesBuilderFile || fn == rulesFile
		for _, d := range p.files[fn].Decls {
			fd, ok := d.(*ast.FuncDecl)
			if !ok {
				continue
			}
			typ, recv := "", ""
			if fd.Recv != nil && len(fd.Recv.List) == 1 {
				typ = recvName(fd.Recv.List[0].Type)
				if home[typ] == "" {
					if inHome {
						p.bad(fd, "method %s.%s declared in %s: only RulesBuilder and Rules are modelled there", typ, fd.Name.Name, fn)
					}
					continue
				}
				if home[typ] != fn {
					p.bad(fd, "method %s.%s declared outside %s", typ, fd.Name.Name, home[typ])
				}
				if len(fd.Recv.List[0].Names) == 1 {
					recv = fd.Recv.List[0].Names[0].Name
				}
			} else if fd.Recv == nil && inHome {
				typ = constructorOf(fd)
				if home[typ] != fn {
					p.bad(fd, "function %s in %s builds neither a RulesBuilder nor a Rules", fd.Name.Name, fn)
				}
			} else {
				continue
			}
			if fd.Body == nil {
				p.bad(fd, "%s.%s has no body", typ, fd.Name.Name)
			}
			lock, rest := lockPrefix(p, fd, recv)
			if lock != "LkNone" && !hasMutex[typ] {
				p.bad(fd, "%s.%s locks a mutex the type does not declare", typ, fd.Name.Name)
			}
			stripped := *fd
			body := *fd.Body
			body.List = rest
			stripped.Body = &body
			op, closest := "", ""
			for _, n := range nfs {
				if n.typ != typ {
					continue
				}
				c := &astCmp{p: p, ct: &collType{name: typ}, fwd: map[string]string{}, rev: map[string]string{}, aliases: aliases}
				if c.funcDecl(n.fd, &stripped) {
					op = n.op
					break
				}
				if n.op == rulesExpectedOp[typ+"."+fd.Name.Name] && closest == "" {
					closest = fmt.Sprintf(" (against %s: %s)", n.op, c.why)
				}
			}
			if op == "" {
				p.bad(fd, "body of %s.%s matches no normal form of the rules builder model%s", typ, fd.Name.Name, closest)
			}
			methods = append(methods, rulesMethod{typ: typ, name: fd.Name.Name, file: fn, op: op,
				lock: map[string]string{"LkWrite": "RlWrite", "LkRead": "RlRead", "LkNone": "RlNone"}[lock],
				calls: receiverCalls(rest, recv)})
		}
	}
	outside := rulesFieldUseOutside(repo, p)

	var b strings.Builder
	b.WriteString(header)
	b.WriteString("(* catalog/rules_builder.go, catalog/rules.go: for every function of the two files the operation its\n" +
		"   body denotes (matched against the normal forms of go2coq/rules.go), the lock it holds while doing so\n" +
		"   (RlWrite: first statement b.mx.Lock(), second the deferred Unlock, the mutex mentioned nowhere else),\n" +
		"   the receiver methods it calls; and every selection of the fields of the two structs outside their\n" +
		"   files, with a read/write class. *)\n")
	b.WriteString("From Coq Require Import List String.\nImport ListNotations.\nLocal Open Scope string_scope.\n\n")
	b.WriteString("Inductive rules_op : Set :=\n")
	for _, o := range rulesOps {
		fmt.Fprintf(&b, "| %s\n", o)
	}
	b.WriteString(".\n\nInductive rules_lock : Set := RlWrite | RlRead | RlNone.\n\n")
	b.WriteString("Record rules_method : Set := { rm_type : string; rm_name : string; rm_file : string; rm_op : rules_op; rm_lock : rules_lock; rm_calls : list string }.\n\n")
	fmt.Fprintf(&b, "Definition rules_builder_has_mutex : bool := %v.\n", hasMutex["RulesBuilder"])
	fmt.Fprintf(&b, "Definition rules_has_mutex : bool := %v.\n\n", hasMutex["Rules"])
	b.WriteString("Definition rules_methods : list rules_method :=\n  [\n")
	for i, m := range methods {
		sep := ";"
		if i == len(methods)-1 {
			sep = ""
		}
		fmt.Fprintf(&b, "    {| rm_type := %s; rm_name := %s; rm_file := %s; rm_op := %s; rm_lock := %s; rm_calls := [%s] |}%s\n",
			coqString(m.typ), coqString(m.name), coqString(m.file), m.op, m.lock, joinMap(m.calls, coqString, "; "), sep)
	}
	b.WriteString("  ].\n\n")
	b.WriteString("(* (file, struct, field, is_write) *)\n")
	b.WriteString("Definition rules_outside_uses : list (string * string * string * bool) :=\n  [")
	for i, u := range outside {
		if i != 0 {
			b.WriteString(";")
		}
		fmt.Fprintf(&b, "\n    (%s, %s, %s, %v)", coqString(filepath.Base(u.file)), coqString(u.typ), coqString(u.field), u.write)
	}
	if len(outside) != 0 {
		b.WriteString("\n  ")
	}
	b.WriteString("].\n")
	return b.String()
}

// ----------------------------------------------------------------------------------------
// go/types pass: fields of RulesBuilder / Rules selected outside their own files

type rulesOutsideUse struct {
	file  string
	line  int
	typ   string
	field string
	write bool
}

func rulesFieldUseOutside(repo string, p *pkg) []rulesOutsideUse {
	dir := filepath.Join(repo, "catalog")
	h := sha256.New()
	names := make([]string, 0, len(p.files))
	for n := range p.files {
		names = append(names, n)
	}
	sort.Strings(names)
	for _, n := range names {
		src, err := os.ReadFile(filepath.Join(dir, n))
		if err != nil {
			fatal("%v", err)
		}
		fmt.Fprintf(h, "%s %d\n", n, len(src))
		h.Write(src)
	}
	fmt.Fprintf(h, "rules-v1 %s", dir)
	cacheDir := filepath.Join(os.TempDir(), "verif_go2coq_cache")
	cacheFile := filepath.Join(cacheDir, "rulesuse_"+hex.EncodeToString(h.Sum(nil))[:32])
	if data, err := os.ReadFile(cacheFile); err == nil {
		var out []rulesOutsideUse
		for _, line := range strings.Split(string(data), "\n") {
			var u rulesOutsideUse
			if n, _ := fmt.Sscanf(line, "%s %d %s %s %t", &u.file, &u.line, &u.typ, &u.field, &u.write); n == 5 {
				out = append(out, u)
			}
		}
		return out
	}

	for _, kv := range [][2]string{{"GOFLAGS", "-mod=mod"}, {"GOPROXY", "off"}, {"GOSUMDB", "off"}, {"GOTOOLCHAIN", "local"}} {
		os.Setenv(kv[0], kv[1])
	}
	wd, _ := os.Getwd()
	if err := os.Chdir(repo); err != nil {
		fatal("%v", err)
	}
	defer os.Chdir(wd)
	var files []*ast.File
	for _, n := range names {
		files = append(files, p.files[n])
	}
	var firstErr error
	conf := types.Config{
		Importer: importer.ForCompiler(p.fset, "source", nil),
		Error: func(err error) {
			if firstErr == nil {
				firstErr = err
			}
		},
	}
	info := &types.Info{Selections: map[*ast.SelectorExpr]*types.Selection{}}
	conf.Check("catalog", p.fset, files, info)
	if firstErr != nil {
		if te, ok := firstErr.(types.Error); ok {
			panic(unsupported{te.Fset.Position(te.Pos), "package catalog does not type-check: " + te.Msg})
		}
		panic(unsupported{token.Position{Filename: dir}, "package catalog does not type-check: " + firstErr.Error()})
	}
	// selections that are the root of a write
	written := map[*ast.SelectorExpr]bool{}
	var root func(e ast.Expr) *ast.SelectorExpr
	root = func(e ast.Expr) *ast.SelectorExpr {
		switch x := e.(type) {
		case *ast.SelectorExpr:
			return x
		case *ast.IndexExpr:
			return root(x.X)
		case *ast.SliceExpr:
			return root(x.X)
		case *ast.StarExpr:
			return root(x.X)
		case *ast.ParenExpr:
			return root(x.X)
		}
		return nil
	}
	mark := func(e ast.Expr) {
		if se := root(e); se != nil {
			written[se] = true
		}
	}
	for _, n := range names {
		ast.Inspect(p.files[n], func(nd ast.Node) bool {
			switch x := nd.(type) {
			case *ast.AssignStmt:
				for _, l := range x.Lhs {
					mark(l)
				}
			case *ast.IncDecStmt:
				mark(x.X)
			case *ast.RangeStmt:
				if x.Tok == token.ASSIGN {
					if x.Key != nil {
						mark(x.Key)
					}
					if x.Value != nil {
						mark(x.Value)
					}
				}
			case *ast.UnaryExpr:
				if x.Op == token.AND {
					mark(x.X)
				}
			case *ast.CallExpr:
				if id, ok := x.Fun.(*ast.Ident); ok && (id.Name == "delete" || id.Name == "clear") && len(x.Args) >= 1 {
					mark(x.Args[0])
				}
			}
			return true
		})
	}
	allowed := map[string]map[string]bool{
		"RulesBuilder": {rulesBuilderFile: true},
		"Rules":        {rulesFile: true, rulesBuilderFile: true},
	}
	fields := map[string]map[string]bool{
		"RulesBuilder": {"rules": true, "mx": true},
		"Rules":        {"index": true, "data": true},
	}
	var out []rulesOutsideUse
	for se, sel := range info.Selections {
		if sel.Kind() != types.FieldVal {
			continue
		}
		t := sel.Recv()
		if pt, ok := t.(*types.Pointer); ok {
			t = pt.Elem()
		}
		named, ok := t.(*types.Named)
		if !ok || named.Obj().Pkg() == nil || named.Obj().Pkg().Name() != "catalog" {
			continue
		}
		tn := named.Obj().Name()
		if !fields[tn][sel.Obj().Name()] {
			continue
		}
		pos := p.fset.Position(se.Pos())
		if allowed[tn][filepath.Base(pos.Filename)] {
			continue
		}
		out = append(out, rulesOutsideUse{pos.Filename, pos.Line, tn, sel.Obj().Name(), written[se]})
	}
	// keyed composite literals outside the home files build a value by hand: a write of every keyed field
	for _, n := range names {
		ast.Inspect(p.files[n], func(nd ast.Node) bool {
			cl, ok := nd.(*ast.CompositeLit)
			if !ok || cl.Type == nil {
				return true
			}
			tn := identName(cl.Type)
			if fields[tn] == nil || allowed[tn][n] || len(cl.Elts) == 0 {
				return true
			}
			pos := p.fset.Position(cl.Pos())
			out = append(out, rulesOutsideUse{pos.Filename, pos.Line, tn, "(literal)", true})
			return true
		})
	}
	sort.Slice(out, func(i, j int) bool {
		if out[i].file != out[j].file {
			return out[i].file < out[j].file
		}
		if out[i].line != out[j].line {
			return out[i].line < out[j].line
		}
		return out[i].field < out[j].field
	})
	os.MkdirAll(cacheDir, 0o755)
	var sb strings.Builder
	for _, u := range out {
		fmt.Fprintf(&sb, "%s %d %s %s %t\n", u.file, u.line, u.typ, u.field, u.write)
	}
	tmp := cacheFile + fmt.Sprintf(".%d", os.Getpid())
	if os.WriteFile(tmp, []byte(sb.String()), 0o644) == nil {
		os.Rename(tmp, cacheFile)
	}
	return out
}
