package main

// PINS.  Functions (and a few variables) of /repo that a Coq definition models BY HAND and that the translator therefore
// does not translate: it only recognises their NAME at the call sites (s.found(..) -> AFound, s.isDirective() ->
// CIsDirective, ...) or interprets the data it reads through them (ss[de] is "the keyword of de" because
// Enumeration.String says so).  Without a check a change of such a body would leave the regenerated Coq - and every
// theorem over it - unchanged although the behaviour changed.
//
// Every entry holds the exact text (go/printer of the declaration: comments dropped, gofmt layout, empty lines ignored)
// the hand model was written from.  A generator that depends on an entry compares it with the current source first and FAILS (like any
// unsupported construct: `FAILED <generator> <file>:<line>: unsupported pin ...`, which every check that needs the
// generator turns into a broken obligation) when they differ.  The message names the declaration and the Coq
// definitions to re-read.  After the model (and its proofs) have been brought in line, the new text is pasted here.
//
// Holes: parts of a pinned declaration that ARE derived from the source by the translator are blanked out on both sides
// before the comparison (a regular expression and the placeholder that replaces what it matches), so that the edits the
// translator follows by itself do not break the pin.
//
// What is NOT here: everything the translator translates or evaluates (step functions and the helpers they return
// through, the byte classes, the event tables, the directive tables, validateIncludeFileName, tagName, the generated
// collections, RulesBuilder/Rules: those are compared with normal forms in collections.go / rules.go, which are pins of
// the same kind kept next to the code that uses them).  DESIGN.md section 3.1 lists every assumption of the translator
// and what covers it.

import (
	"bytes"
	"fmt"
	"go/ast"
	"go/printer"
	"go/token"
	"regexp"
	"strings"
)

type pinDecl struct {
	name string // key of pkg.funcs ("Type.Method" / "func") or "var X" / "const X" / "type X"
	text string
}

type pinHole struct {
	re   string
	with string
}

type pin struct {
	gen   string // the generator that checks the entry
	pkg   string // package directory, relative to the repository root
	coq   string // the Coq counterpart
	holes []pinHole
	decls []pinDecl
}

var pins = []pin{
	// ---------------------------------------------------------------------------------------------------------------
	// scanner driver: coq/model/ScannerSem.v interprets the regenerated decision trees
	{
		gen: "scanner", pkg: "scanner",
		// the registers of the machine and the types behind them: which Push / Pop the calls s.stepStack.Push(..) and
		// s.stack.Pop() resolve to, the order of the fields in the literal LexemeEvent{t, i}
		coq: "ScannerSem.cfg (reg, sstk, pos, pre/rest, finds, estk, lastp)",
		decls: []pinDecl{
			{"type Scanner", `Scanner struct {
	data bytes.Bytes
	file *fs.File

	step stepFunc

	stepStack stepFuncStack

	finds []LexemeEvent

	stack                   eventStack
	lastDirectiveParameters []*Lexeme
	curIndex                bytes.Index
	dataSize                bytes.Index
}`},
			{"type stepFunc", `stepFunc func(*Scanner, byte) *jerr.JApiError`},
			{"type stepFuncStack", `stepFuncStack []stepFunc`},
			{"type eventStack", `eventStack []LexemeEvent`},
			{"type LexemeEvent", `LexemeEvent struct {
	type_    LexemeEventType
	position bytes.Index
}`},
		},
	},
	{
		gen: "scanner", pkg: "scanner",
		// next (the first `if`), main_loop (the `for s.curIndex <= s.dataSize` loop, EOF pseudo byte, ENul), drain (the
		// `for range s.finds` loop), note_lexeme (the switch on lex.Type())
		coq: "ScannerSem.next / main_loop / drain / note_lexeme",
		decls: []pinDecl{{"Scanner.Next", `func (s *Scanner) Next() (*Lexeme, *jerr.JApiError) {
	if len(s.finds) != 0 {
		lex, je := s.processLexemeEvent(s.shiftFound())
		if je != nil {
			return nil, je
		}
		if lex != nil {
			return lex, nil
		}
	}

	for s.curIndex <= s.dataSize {
		var c byte
		if s.curIndex == s.dataSize {

			c = EOF
		} else {
			c = s.data[s.curIndex]
			if c == EOF {
				return nil, s.japiErrorBasic("File cannot contain byte zero")
			}
		}

		je := s.step(s, c)
		if je != nil {
			return nil, je
		}
		s.curIndex++

		for range s.finds {
			lex, je := s.processLexemeEvent(s.shiftFound())
			if je != nil {
				return nil, je
			}
			if lex != nil {
				switch lex.Type() {
				case Parameter:
					s.lastDirectiveParameters = append(s.lastDirectiveParameters, lex)
				case Keyword:
					s.lastDirectiveParameters = s.lastDirectiveParameters[:0]
				default:

				}
				return lex, nil
			}
		}
	}

	return nil, nil
}`}},
	},
	{
		gen: "scanner", pkg: "scanner",
		// process_event; the accepted begin/end pairs are derived (evt_pairs), as are IsBeginning / IsEnding / IsSingle
		// (evt_beginning / evt_ending / evt_single) and ToLexemeType (evt_lexkind)
		coq:   "ScannerSem.process_event (EMismatch, EUnsupportedEvent, the two panics)",
		holes: []pinHole{{`(?s)case startType == .*?:\n`, "case <begin/end pairs, derived: evt_pairs>:\n"}},
		decls: []pinDecl{{"Scanner.processLexemeEvent", `func (s *Scanner) processLexemeEvent(lexEvent LexemeEvent) (*Lexeme, *jerr.JApiError) {
	eventType := lexEvent.type_
	switch {
	case eventType.IsBeginning():
		s.stack.Push(lexEvent)
		return nil, nil
	case eventType.IsEnding():
		startEvent := s.stack.Pop()
		startType := startEvent.type_
		switch {
		case <begin/end pairs, derived: evt_pairs>:

			lex := NewLexeme(eventType.ToLexemeType(), startEvent.position, lexEvent.position, s.file)

			return lex, nil
		default:
			return nil, s.japiErrorBasic("Ending lexeme event does not match beginning event")
		}
	case eventType.IsSingle():
		lex := NewLexeme(eventType.ToLexemeType(), lexEvent.position, lexEvent.position, s.file)
		return lex, nil
	default:
		return nil, s.japiErrorBasic("Unsupported lexeme event type")
	}
}`}},
	},
	{
		gen: "scanner", pkg: "scanner",
		// AFound back e appends (e, pos - back) to finds (s.found(e) is translated to AFound 0 e); shiftFound takes the
		// OLDEST find and panics on none
		coq: "ScannerSem.exec_act (AFound), the head of [finds] in drain / next (Panic \"Empty set of found lexemes\")",
		decls: []pinDecl{
			{"Scanner.foundAt", `func (s *Scanner) foundAt(i bytes.Index, t LexemeEventType) {
	s.finds = append(s.finds, LexemeEvent{t, i})
}`},
			{"Scanner.found", `func (s *Scanner) found(t LexemeEventType) {
	s.foundAt(s.curIndex, t)
}`},
			{"Scanner.shiftFound", `func (s *Scanner) shiftFound() LexemeEvent {
	length := len(s.finds)
	if length == 0 {
		panic("Empty set of found lexemes")
	}
	lexEvent := s.finds[0]
	copy(s.finds[0:], s.finds[1:])
	s.finds = s.finds[:length-1]
	return lexEvent
}`},
		},
	},
	{
		gen: "scanner", pkg: "scanner",
		coq: "ScannerSem.exec_act (APush, APushCur, APop with Panic \"Reading from empty stack\"): [sstk], top first",
		decls: []pinDecl{
			{"stepFuncStack.Push", `func (stack *stepFuncStack) Push(val stepFunc) {
	*stack = append(*stack, val)
}`},
			{"stepFuncStack.Pop", `func (stack *stepFuncStack) Pop() stepFunc {
	f := stack.peek()
	count := len(*stack)
	*stack = (*stack)[:count-1]
	return f
}`},
			{"stepFuncStack.peek", `func (stack *stepFuncStack) peek() stepFunc {
	count := len(*stack)
	if count == 0 {
		panic("Reading from empty stack")
	}
	return (*stack)[count-1]
}`},
		},
	},
	{
		gen: "scanner", pkg: "scanner",
		coq: "ScannerSem.process_event: [estk], top first (push on a beginning, pop on an ending, Panic \"Reading from empty stack\")",
		decls: []pinDecl{
			{"eventStack.Push", `func (stack *eventStack) Push(lex LexemeEvent) {
	*stack = append(*stack, lex)
}`},
			{"eventStack.Pop", `func (stack *eventStack) Pop() LexemeEvent {
	lex := stack.peek()
	count := len(*stack)
	*stack = (*stack)[:count-1]
	return lex
}`},
			{"eventStack.peek", `func (stack *eventStack) peek() LexemeEvent {
	count := len(*stack)
	if count == 0 {
		panic("Reading from empty stack")
	}
	return (*stack)[count-1]
}`},
		},
	},
	{
		gen: "scanner", pkg: "scanner",
		// cond CIsDirective; LineFrom is the schema library's (ScannerSem.take_until_lf, compared in C14's lexeme-stream stage)
		coq: "ScannerSem.is_directive_at (eval_cond CIsDirective)",
		decls: []pinDecl{{"Scanner.isDirective", `func (s *Scanner) isDirective() bool {
	b, err := s.data.LineFrom(s.curIndex)
	if err != nil {
		return false
	}

	return directive.IsStartWithDirective(b)
}`}},
	},
	{
		gen: "scanner", pkg: "scanner",
		// conds CHasTypeOrAnyOrEmpty / CHasAnyOrEmpty / CHasRegex over the values of lastDirectiveParameters; Unquote,
		// TrimSquareBrackets, IsUserTypeName, Equals are the schema library's (ScannerSem.lib_unquote, trim_square_brackets,
		// is_user_type_name: compared in C14's lexeme-stream stage and C17)
		coq: "ScannerSem.has_type_or_any_or_empty / has_any_or_empty / has_regex, w_any / w_empty / w_regex",
		decls: []pinDecl{
			{"var anyType", `anyType = []byte("any")`},
			{"var emptyType", `emptyType = []byte("empty")`},
			{"var regexType", `regexType = []byte("regex")`},
			{"Scanner.isDirectiveParameterHasTypeOrAnyOrEmpty", `func (s *Scanner) isDirectiveParameterHasTypeOrAnyOrEmpty() bool {
	for _, lex := range s.lastDirectiveParameters {
		v := lex.Value().Unquote().TrimSquareBrackets()
		switch {
		case v.Equals(anyType), v.Equals(emptyType), v.IsUserTypeName():
			return true
		}
	}
	return false
}`},
			{"Scanner.isDirectiveParameterHasAnyOrEmpty", `func (s *Scanner) isDirectiveParameterHasAnyOrEmpty() bool {
	for _, lex := range s.lastDirectiveParameters {
		v := lex.Value().Unquote().TrimSquareBrackets()
		switch {
		case v.Equals(anyType), v.Equals(emptyType):
			return false
		}
	}
	return true
}`},
			{"Scanner.isDirectiveParameterHasRegexNotation", `func (s *Scanner) isDirectiveParameterHasRegexNotation() bool {
	for _, lex := range s.lastDirectiveParameters {
		v := lex.Value().Unquote()
		if v.Equals(regexType) {
			return true
		}
	}
	return false
}`},
		},
	},
	{
		gen: "scanner", pkg: "scanner",
		// acts AReadSchema / AReadEnum: the oracle is asked about the bytes from curIndex to the end of the file, an error
		// is reported at curIndex + its position (the tail `if je != nil {return je}; if n > 0 {curIndex += n-1}` is
		// matched by the translator at every call site: isReadTail)
		coq: "ScannerSem.read_body with the oracles jsc_len / enum_len",
		decls: []pinDecl{
			{"Scanner.readSchemaWithJsc", `func (s *Scanner) readSchemaWithJsc() (uint, *jerr.JApiError) {
	fc := s.file.Content()
	file := fs.NewFile("", fc.Slice(s.curIndex, bytes.Index(fc.Len()-1)))

	l, err := jschema.FromFile(file).Len()
	if err != nil {
		err := kit.ConvertError(file, err)
		return 0, s.japiError(err.Message(), s.curIndex+bytes.Index(err.Position()))
	}
	return l, nil
}`},
			{"Scanner.readEnumWithJsc", `func (s *Scanner) readEnumWithJsc() (uint, *jerr.JApiError) {
	fc := s.file.Content()
	file := fs.NewFile("", fc.Slice(s.curIndex, bytes.Index(fc.Len()-1)))

	l, err := enum.FromFile(file).Len()
	if err != nil {
		err := kit.ConvertError(file, err)
		return 0, s.japiError(err.Message(), s.curIndex+bytes.Index(err.Position()))
	}
	return l, nil
}`},
		},
	},
	{
		gen: "scanner", pkg: "scanner",
		// exits XErr: the diagnostic carries the CURRENT index (japiErrorUnexpectedChar, whose message text is not modelled,
		// is checked separately: every return of it is s.japiError(_, s.curIndex))
		coq: "ScannerSem.dispatch: XErr e => Err (pos g') (EStep e); main_loop: Err (pos g) ENul; read_body: Err (pos g + p)",
		decls: []pinDecl{
			{"Scanner.japiError", `func (s Scanner) japiError(msg string, i bytes.Index) *jerr.JApiError {
	return jerr.NewJApiError(msg, s.file, i)
}`},
			{"Scanner.japiErrorBasic", `func (s Scanner) japiErrorBasic(msg string) *jerr.JApiError {
	return jerr.NewJApiError(msg, s.file, s.curIndex)
}`},
		},
	},
	{
		gen: "scanner", pkg: "scanner",
		// everything but the initial step (derived: initial_state) starts empty / at zero; data is the whole file
		coq:   "ScannerSem.init_cfg, the [size] argument of scan (len(s.data))",
		holes: []pinHole{{`step:\s+\w+,`, "step: <derived: initial_state>,"}},
		decls: []pinDecl{{"NewJApiScanner", `func NewJApiScanner(file *fs.File) *Scanner {
	s := Scanner{
		step: <derived: initial_state>,
		file:                    file,
		data:                    file.Content(),
		finds:                   make([]LexemeEvent, 0, 5),
		stepStack:               make(stepFuncStack, 0, 5),
		lastDirectiveParameters: make([]*Lexeme, 0, 5),
		stack:                   make(eventStack, 0, 5),
	}
	s.dataSize = bytes.Index(len(s.data))
	return &s
}`}},
	},
	{
		gen: "scanner", pkg: "scanner",
		// a lexeme is (kind, begin, end) with an INCLUSIVE end; Slice is the schema library's
		coq: "ScannerSem.lexeme / lex_value (Panic \"slice bounds out of range\") / note_lexeme",
		decls: []pinDecl{
			{"NewLexeme", `func NewLexeme(type_ LexemeType, begin bytes.Index, end bytes.Index, file *fs.File) *Lexeme {
	return &Lexeme{
		file:  file,
		type_: type_,
		begin: begin,
		end:   end,
	}
}`},
			{"Lexeme.Value", `func (lex Lexeme) Value() bytes.Bytes {
	return lex.file.Content().Slice(lex.begin, lex.end)
}`},
			{"Lexeme.Type", `func (lex Lexeme) Type() LexemeType {
	return lex.type_
}`},
		},
	},

	// ---------------------------------------------------------------------------------------------------------------
	// directive tables: how the data of gen/DirectiveTables.v is READ by the library
	{
		gen: "tables", pkg: "directive",
		// kind_keyword is emitted as ss[i] for the i-th constant; the keyword -> kind direction is modelled by hand
		coq: "DirectiveTables.kind_keyword (= ss[de]), Core.directive_type",
		decls: []pinDecl{
			{"Enumeration.String", `func (de Enumeration) String() string {
	return ss[de]
}`},
			{"NewDirectiveType", `func NewDirectiveType(s string) (Enumeration, error) {
	eeOnce.Do(func() {
		ee = make(map[string]Enumeration)
		for i := 0; i < len(ss); i++ {
			if Enumeration(i) != HTTPResponseCode {
				ee[ss[i]] = Enumeration(i)
			}
		}
	})

	if v, ok := ee[s]; ok {
		return v, nil
	}

	if IsHTTPResponseCode(s) {
		return HTTPResponseCode, nil
	}

	return Jsight, errors.New("unknown directive type")
}`},
		},
	},
	{
		gen: "tables", pkg: "directive",
		// the range itself is derived from isHTTPResponseCode (response_code_lo / response_code_hi)
		coq: "Core.is_response_code, the first disjunct of ScannerSem.is_start_with_directive",
		decls: []pinDecl{{"IsHTTPResponseCode", `func IsHTTPResponseCode(s string) bool {
	code, err := strconv.Atoi(s)
	if err != nil {
		return false
	}

	if s[0] == '0' {
		return false
	}

	return isHTTPResponseCode(code)
}`}},
	},
	{
		gen: "tables", pkg: "directive",
		// context_table is emitted as (parent, arguments of createEnumerationSet): a child is admitted iff it is among them
		coq: "Core.ctx_allowed over DirectiveTables.context_table",
		decls: []pinDecl{
			{"Enumeration.IsAllowedForDirectiveContext", `func (de Enumeration) IsAllowedForDirectiveContext(child Enumeration) bool {
	s, ok := directiveAllowedToDirectiveContext[de]
	if !ok {
		return false
	}

	_, ok = s[child]
	return ok
}`},
			{"createEnumerationSet", `func createEnumerationSet(ee ...Enumeration) map[Enumeration]struct{} {
	if len(ee) == 0 {
		return nil
	}

	res := make(map[Enumeration]struct{}, len(ee))
	for _, e := range ee {
		res[e] = struct{}{}
	}
	return res
}`},
		},
	},
	{
		gen: "tables", pkg: "directive",
		// read by the scanner's isDirective (cond CIsDirective)
		coq: "ScannerSem.is_start_with_directive",
		decls: []pinDecl{{"IsStartWithDirective", `func IsStartWithDirective(b bytes.Bytes) bool {
	if len(b) < 3 {
		return false
	}

	switch b[0] {
	case '1', '2', '3', '4', '5':
		if IsHTTPResponseCode(string(b[0:3])) {
			return true
		}
	}

	s := string(b)

	for i := 0; i < len(ss); i++ {
		de := Enumeration(i)
		if de == HTTPResponseCode {
			continue
		}
		if strings.HasPrefix(s, de.String()) {
			return true
		}
	}

	return false
}`}},
	},
}

// declNode finds the declaration a pinDecl names: a function / method (key of pkg.funcs) or the value spec of a
// package-level variable or constant ("var X", "const X"), or a type spec ("type X").
func declNode(p *pkg, name string) ast.Node {
	for _, kw := range []string{"var ", "const "} {
		if strings.HasPrefix(name, kw) {
			want := strings.TrimPrefix(name, kw)
			tok := map[string]token.Token{"var ": token.VAR, "const ": token.CONST}[kw]
			for _, fn := range sortedFileNames(p) {
				for _, d := range p.files[fn].Decls {
					gd, ok := d.(*ast.GenDecl)
					if !ok || gd.Tok != tok {
						continue
					}
					for _, s := range gd.Specs {
						vs := s.(*ast.ValueSpec)
						for i, n := range vs.Names {
							if n.Name != want {
								continue
							}
							if len(vs.Names) == 1 {
								c := *vs
								c.Doc, c.Comment = nil, nil
								return &c
							}
							// one name of `a, b = x, y`: print it as a spec of its own
							c := ast.ValueSpec{Names: []*ast.Ident{n}, Type: vs.Type}
							if i < len(vs.Values) {
								c.Values = []ast.Expr{vs.Values[i]}
							}
							return &c
						}
					}
				}
			}
			return nil
		}
	}
	if strings.HasPrefix(name, "type ") {
		want := strings.TrimPrefix(name, "type ")
		for _, fn := range sortedFileNames(p) {
			for _, d := range p.files[fn].Decls {
				gd, ok := d.(*ast.GenDecl)
				if !ok || gd.Tok != token.TYPE {
					continue
				}
				for _, s := range gd.Specs {
					ts := s.(*ast.TypeSpec)
					if ts.Name.Name != want {
						continue
					}
					c := *ts
					c.Doc, c.Comment = nil, nil
					if st, ok := ts.Type.(*ast.StructType); ok && st.Fields != nil {
						// the comments of the fields are not part of the pinned text
						fl := *st.Fields
						fl.List = nil
						for _, f := range st.Fields.List {
							fc := *f
							fc.Doc, fc.Comment = nil, nil
							fl.List = append(fl.List, &fc)
						}
						sc := *st
						sc.Fields = &fl
						c.Type = &sc
					}
					return &c
				}
			}
		}
		return nil
	}
	fd, ok := p.funcs[name]
	if !ok {
		return nil
	}
	c := *fd
	c.Doc = nil
	return &c
}

// declText: go/printer text of a declaration without its comments
func declText(p *pkg, n ast.Node) string {
	var b bytes.Buffer
	cfg := printer.Config{Mode: printer.UseSpaces | printer.TabIndent, Tabwidth: 8} // gofmt's
	if err := cfg.Fprint(&b, p.fset, n); err != nil {
		fatal("%v", err)
	}
	return b.String()
}

func applyHoles(pn *pin, s string) string {
	for _, h := range pn.holes {
		s = regexp.MustCompile(h.re).ReplaceAllString(s, h.with)
	}
	return s
}

// withoutBlankLines: where go/printer leaves an empty line depends on the comments that were dropped (a comment line
// that is added or removed moves the statements apart); empty lines are not part of the pinned text
func withoutBlankLines(s string) string {
	var out []string
	for _, l := range strings.Split(s, "\n") {
		if strings.TrimSpace(l) != "" {
			out = append(out, l)
		}
	}
	return strings.Join(out, "\n")
}

// firstDifference: 1-based line number and the two lines where got and want part
func firstDifference(got, want string) (int, string, string) {
	g, w := strings.Split(got, "\n"), strings.Split(want, "\n")
	for i := 0; i < len(g) || i < len(w); i++ {
		var a, b string
		if i < len(g) {
			a = g[i]
		} else {
			a = "<end>"
		}
		if i < len(w) {
			b = w[i]
		} else {
			b = "<end>"
		}
		if a != b {
			return i + 1, strings.TrimSpace(a), strings.TrimSpace(b)
		}
	}
	return 0, "", ""
}

// checkPins compares every pinned declaration of generator gen in package p (directory rel) with the source and fails
// the generator on the first difference.
func checkPins(p *pkg, gen, rel string) {
	n := 0
	for i := range pins {
		pn := &pins[i]
		if pn.gen != gen || pn.pkg != rel {
			continue
		}
		for _, d := range pn.decls {
			n++
			node := declNode(p, d.name)
			if node == nil {
				panic(unsupported{token.Position{Filename: p.dir}, fmt.Sprintf(
					"pin: %s.%s is gone (renamed, moved to another package or deleted); it is modelled by hand in Coq as %s - "+
						"re-read the code that replaces it, update that model and its proofs, then the entry in go2coq/pins.go",
					rel, d.name, pn.coq)})
			}
			got, want := withoutBlankLines(applyHoles(pn, declText(p, node))), withoutBlankLines(d.text)
			if got == want {
				continue
			}
			line, a, b := firstDifference(got, want)
			pos := p.fset.Position(node.Pos())
			panic(unsupported{pos, fmt.Sprintf(
				"pin: %s.%s is no longer the text its hand model was written from (non-blank line %d of the declaration is %q, the pinned text has %q); "+
					"it is modelled by hand in Coq as %s - the regenerated files cannot follow this edit: re-read the function, "+
					"update that model and its proofs, then paste the new text into go2coq/pins.go",
				rel, d.name, line, a, b, pn.coq)})
		}
	}
	if n == 0 {
		fatal("no pin for generator %s in package %s", gen, rel)
	}
}
