package main

// Translator for straight-line string functions: a sequence of assignments and
// `if cond { return … }` over a whitelist of calls.  Used for
// core.validateIncludeFileName and catalog.tagName.

import (
	"fmt"
	"go/ast"
	"go/token"
	"strconv"
	"strings"
)

type exprTr struct {
	p       *pkg
	retKind string // "error" | "string"
	hoisted []string
	nidx    int
	// import name -> path of the file that holds the function (the whitelisted calls must be the standard library's)
	imports map[string]string
	// named types of the package whose underlying type is string (a conversion to one is the identity on bytes)
	stringTypes map[string]bool
}

// the whitelist: qualified call -> package it must come from.  The Gallina counterparts (coq/lib/Bytes.v: replace_first,
// replace_all, path_escape, contains, contains_byte) are compared with the real functions in C08 / C19 on every run.
var exprStdCalls = map[string]string{
	"strings.Replace": "strings", "strings.ReplaceAll": "strings", "strings.Contains": "strings", "strings.ContainsRune": "strings",
	"url.PathEscape": "net/url", "errors.New": "errors",
}

// stdCall returns the qualified name of the called function when it is a whitelisted standard-library call, after
// checking that the qualifier is the import of that very package in this file (not a local package of the same name,
// not a variable).
func (t *exprTr) stdCall(e ast.Expr, at ast.Node) string {
	fn := callName(e)
	want, ok := exprStdCalls[fn]
	if !ok {
		return fn
	}
	q := strings.SplitN(fn, ".", 2)[0]
	if got := t.imports[q]; got != want {
		t.p.bad(at, "call %s: %s is not the import of %q in this file (it is %q)", fn, q, want, got)
	}
	return fn
}

func fileImports(p *pkg, fd *ast.FuncDecl) map[string]string { return importsAt(p, fd.Pos()) }

// importsAt: import name -> import path of the file that contains pos
func importsAt(p *pkg, pos token.Pos) map[string]string {
	out := map[string]string{}
	for _, f := range p.files {
		if f.Pos() <= pos && pos < f.End() {
			for _, im := range f.Imports {
				path, _ := strconv.Unquote(im.Path.Value)
				name := path[strings.LastIndex(path, "/")+1:]
				if im.Name != nil {
					name = im.Name.Name
				}
				out[name] = path
			}
		}
	}
	return out
}

func stringTypesOf(p *pkg) map[string]bool {
	out := map[string]bool{}
	for _, f := range p.files {
		for _, d := range f.Decls {
			gd, ok := d.(*ast.GenDecl)
			if !ok || gd.Tok != token.TYPE {
				continue
			}
			for _, s := range gd.Specs {
				ts := s.(*ast.TypeSpec)
				if identName(ts.Type) == "string" && ts.TypeParams == nil {
					out[ts.Name.Name] = true
				}
			}
		}
	}
	return out
}

func coqString(s string) string {
	// Coq string literal: only '"' needs doubling; restrict to printable ASCII
	for _, r := range s {
		if r < 32 || r > 126 {
			panic(fmt.Sprintf("non-printable literal %q", s))
		}
	}
	return `"` + strings.ReplaceAll(s, `"`, `""`) + `"`
}

func (t *exprTr) strLit(e ast.Expr) (string, bool) {
	if bl, ok := e.(*ast.BasicLit); ok && bl.Kind == token.STRING {
		s, err := strconv.Unquote(bl.Value)
		if err != nil {
			t.p.bad(e, "string literal")
		}
		return s, true
	}
	return "", false
}

func (t *exprTr) charLit(e ast.Expr) (int, bool) {
	if bl, ok := e.(*ast.BasicLit); ok && bl.Kind == token.CHAR {
		s, err := strconv.Unquote(bl.Value)
		if err != nil || len(s) != 1 {
			t.p.bad(e, "char literal (single byte expected)")
		}
		return int(s[0]), true
	}
	return 0, false
}

// byte-valued expression: s[k] (hoisted, may panic) or char literal
func (t *exprTr) byteExpr(e ast.Expr) string {
	if c, ok := t.charLit(e); ok {
		return strconv.Itoa(c)
	}
	if ix, ok := e.(*ast.IndexExpr); ok {
		id, ok1 := ix.X.(*ast.Ident)
		bl, ok2 := ix.Index.(*ast.BasicLit)
		if ok1 && ok2 && bl.Kind == token.INT {
			v := fmt.Sprintf("b%d", t.nidx)
			t.nidx++
			t.hoisted = append(t.hoisted, fmt.Sprintf("gbind (gidx %s %s) (fun %s =>", id.Name, bl.Value, v))
			return v
		}
	}
	t.p.bad(e, "byte expression")
	return ""
}

func (t *exprTr) strExpr(e ast.Expr) string {
	if s, ok := t.strLit(e); ok {
		return "(bs " + coqString(s) + ")"
	}
	switch x := e.(type) {
	case *ast.Ident:
		return x.Name
	case *ast.ParenExpr:
		return t.strExpr(x.X)
	case *ast.CallExpr:
		fn := t.stdCall(x.Fun, e)
		switch fn {
		case "strings.Replace":
			if len(x.Args) == 4 {
				if bl, ok := x.Args[3].(*ast.BasicLit); ok && bl.Value == "1" {
					t.nonEmptyLit(x.Args[1])
					return fmt.Sprintf("(replace_first %s %s %s)", t.strExpr(x.Args[1]), t.strExpr(x.Args[2]), t.strExpr(x.Args[0]))
				}
			}
		case "strings.ReplaceAll":
			t.nonEmptyLit(x.Args[1])
			return fmt.Sprintf("(replace_all %s %s %s)", t.strExpr(x.Args[1]), t.strExpr(x.Args[2]), t.strExpr(x.Args[0]))
		case "url.PathEscape":
			return fmt.Sprintf("(path_escape %s)", t.strExpr(x.Args[0]))
		case "string":
			if len(x.Args) == 1 {
				return t.strExpr(x.Args[0])
			}
		default:
			// conversion to a named string type of the package
			if t.stringTypes[fn] && t.p.funcs[fn] == nil && len(x.Args) == 1 {
				return t.strExpr(x.Args[0])
			}
		}
		t.p.bad(e, "call %s in string expression", fn)
	}
	t.p.bad(e, "string expression")
	return ""
}

func (t *exprTr) nonEmptyLit(e ast.Expr) {
	if s, ok := t.strLit(e); !ok || s == "" {
		t.p.bad(e, "pattern must be a non-empty string literal")
	}
}

func callName(e ast.Expr) string {
	switch x := e.(type) {
	case *ast.Ident:
		return x.Name
	case *ast.SelectorExpr:
		return callName(x.X) + "." + x.Sel.Name
	}
	return "?"
}

func (t *exprTr) boolExpr(e ast.Expr) string {
	switch x := e.(type) {
	case *ast.ParenExpr:
		return t.boolExpr(x.X)
	case *ast.Ident:
		return x.Name
	case *ast.BinaryExpr:
		switch x.Op {
		case token.LOR, token.LAND:
			l := t.boolExpr(x.X)
			n := len(t.hoisted)
			r := t.boolExpr(x.Y)
			if len(t.hoisted) != n {
				t.p.bad(x.Y, "index expression in a short-circuited operand")
			}
			if x.Op == token.LOR {
				return fmt.Sprintf("(%s || %s)", l, r)
			}
			return fmt.Sprintf("(%s && %s)", l, r)
		case token.EQL, token.NEQ:
			var r string
			if _, isIdx := x.X.(*ast.IndexExpr); isIdx {
				r = fmt.Sprintf("(%s =? %s)", t.byteExpr(x.X), t.byteExpr(x.Y))
			} else {
				r = fmt.Sprintf("(beq %s %s)", t.strExpr(x.X), t.strExpr(x.Y))
			}
			if x.Op == token.NEQ {
				r = "(negb " + r + ")"
			}
			return r
		}
	case *ast.CallExpr:
		switch t.stdCall(x.Fun, e) {
		case "strings.Contains":
			return fmt.Sprintf("(contains %s %s)", t.strExpr(x.Args[1]), t.strExpr(x.Args[0]))
		case "strings.ContainsRune":
			c, ok := t.charLit(x.Args[1])
			if !ok || c >= 128 {
				t.p.bad(e, "ContainsRune with non-ASCII rune")
			}
			return fmt.Sprintf("(contains_byte %d %s)", c, t.strExpr(x.Args[0]))
		}
	}
	t.p.bad(e, "boolean expression")
	return ""
}

func (t *exprTr) retExpr(e ast.Expr) string {
	if t.retKind == "error" {
		if id, ok := e.(*ast.Ident); ok && id.Name == "nil" {
			return "GOk None"
		}
		if c, ok := e.(*ast.CallExpr); ok && t.stdCall(c.Fun, e) == "errors.New" && len(c.Args) == 1 {
			s, ok := t.strLit(c.Args[0])
			if !ok {
				t.p.bad(e, "errors.New argument")
			}
			return "GOk (Some (bs " + coqString(s) + "))"
		}
		t.p.bad(e, "error return")
	}
	return "GOk " + t.strExpr(e)
}

// stmts translates a statement list into a Gallina term of type gres _.
func (t *exprTr) stmts(ss []ast.Stmt) string {
	if len(ss) == 0 {
		panic("function falls off the end")
	}
	s := ss[0]
	rest := ss[1:]
	wrap := func(body string) string {
		h := t.hoisted
		t.hoisted = nil
		out := body
		for i := len(h) - 1; i >= 0; i-- {
			out = h[i] + "\n  " + out + ")"
		}
		return out
	}
	switch x := s.(type) {
	case *ast.ReturnStmt:
		if len(x.Results) != 1 {
			t.p.bad(s, "return arity")
		}
		r := t.retExpr(x.Results[0])
		return wrap(r)
	case *ast.IfStmt:
		if x.Init != nil || x.Else != nil {
			t.p.bad(s, "if with init/else")
		}
		c := t.boolExpr(x.Cond)
		h := t.hoisted
		t.hoisted = nil
		thenT := t.stmts(x.Body.List)
		elseT := t.stmts(rest)
		t.hoisted = h
		return wrap(fmt.Sprintf("if %s then %s else\n  %s", c, thenT, elseT))
	case *ast.AssignStmt:
		if len(x.Lhs) != 1 || len(x.Rhs) != 1 {
			t.p.bad(s, "assignment arity")
		}
		id, ok := x.Lhs[0].(*ast.Ident)
		if !ok {
			t.p.bad(s, "assignment target")
		}
		var rhs string
		if isBoolish(x.Rhs[0]) {
			rhs = t.boolExpr(x.Rhs[0])
		} else {
			rhs = t.strExpr(x.Rhs[0])
		}
		h := t.hoisted
		t.hoisted = nil
		body := t.stmts(rest)
		t.hoisted = h
		return wrap(fmt.Sprintf("let %s := %s in\n  %s", id.Name, rhs, body))
	}
	t.p.bad(s, "statement")
	return ""
}

func isBoolish(e ast.Expr) bool {
	switch x := e.(type) {
	case *ast.ParenExpr:
		return isBoolish(x.X)
	case *ast.BinaryExpr:
		return x.Op == token.LOR || x.Op == token.LAND || x.Op == token.EQL || x.Op == token.NEQ
	case *ast.CallExpr:
		n := callName(x.Fun)
		return n == "strings.Contains" || n == "strings.ContainsRune"
	}
	return false
}

func translateStringFunc(p *pkg, fname, coqName string) string {
	fd, ok := p.funcs[fname]
	if !ok {
		fatal("function %s not found in %s", fname, p.dir)
	}
	if fd.Type.Params == nil || len(fd.Type.Params.List) != 1 || len(fd.Type.Params.List[0].Names) != 1 {
		p.bad(fd, "parameter list of %s", fname)
	}
	if id, ok := fd.Type.Params.List[0].Type.(*ast.Ident); !ok || id.Name != "string" {
		p.bad(fd, "parameter type of %s", fname)
	}
	param := fd.Type.Params.List[0].Names[0].Name
	t := &exprTr{p: p, imports: fileImports(p, fd), stringTypes: stringTypesOf(p)}
	if fd.Type.Results == nil || len(fd.Type.Results.List) != 1 {
		p.bad(fd, "result list of %s", fname)
	}
	rt := "bytes"
	switch r := fd.Type.Results.List[0].Type.(type) {
	case *ast.Ident:
		switch {
		case r.Name == "error":
			t.retKind = "error"
			rt = "(option bytes)"
		case r.Name == "string" || t.stringTypes[r.Name]:
			t.retKind = "string"
		default:
			p.bad(fd, "result type %s of %s: error, string or a named string type expected", r.Name, fname)
		}
	default:
		p.bad(fd, "result type of %s", fname)
	}
	body := t.stmts(fd.Body.List)
	return fmt.Sprintf("Definition %s (%s : bytes) : gres %s :=\n  %s.\n", coqName, param, rt, body)
}

func genIncludeName(repo string) string {
	p := loadPkg(repo, "core")
	var b strings.Builder
	b.WriteString(header)
	b.WriteString("(* core.validateIncludeFileName: GOk None = accepted, GOk (Some msg) = rejected,\n   GPanic = Go run-time panic (index out of range on the empty string). *)\n")
	b.WriteString("From Coq Require Import List NArith Bool String.\nFrom JV.lib Require Import Bytes.\nImport ListNotations.\nOpen Scope N_scope.\nOpen Scope bool_scope.\n\n")
	b.WriteString(translateStringFunc(p, "validateIncludeFileName", "validateIncludeFileName"))
	return b.String()
}

func genTagName(repo string) string {
	p := loadPkg(repo, "catalog")
	var b strings.Builder
	b.WriteString(header)
	b.WriteString("(* catalog.tagName *)\n")
	b.WriteString("From Coq Require Import List NArith Bool String.\nFrom JV.lib Require Import Bytes.\nImport ListNotations.\nOpen Scope N_scope.\nOpen Scope bool_scope.\n\n")
	b.WriteString(translateStringFunc(p, "tagName", "tagName"))
	return b.String()
}
