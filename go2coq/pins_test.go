package main

// Mutation tests of the tie between the translator and the source: for every pinned declaration (pins.go) and every
// derived item a realistic edit of a COPY of the snapshot's package must make the generator fail with a message that
// names the declaration (and its Coq counterpart), or change the generated text.  The sources are the repository the
// checks run on ($VERIF_REPO, default /repo); the copies live in a temporary directory.

import (
	"os"
	"path/filepath"
	"strings"
	"testing"
)

func snapshotRepo(t *testing.T) string {
	t.Helper()
	repo := os.Getenv("VERIF_REPO")
	if repo == "" {
		repo = "/repo"
	}
	if _, err := os.Stat(filepath.Join(repo, "scanner", "scanner.go")); err != nil {
		t.Skipf("no library sources at %s (set VERIF_REPO)", repo)
	}
	return repo
}

// copyPkgs copies go.mod and the non-test Go files of the given package directories into a fresh root.
func copyPkgs(t *testing.T, repo string, rels ...string) string {
	t.Helper()
	root := t.TempDir()
	cp := func(rel string) {
		data, err := os.ReadFile(filepath.Join(repo, rel))
		if err != nil {
			t.Fatal(err)
		}
		if err := os.MkdirAll(filepath.Dir(filepath.Join(root, rel)), 0o755); err != nil {
			t.Fatal(err)
		}
		if err := os.WriteFile(filepath.Join(root, rel), data, 0o644); err != nil {
			t.Fatal(err)
		}
	}
	cp("go.mod")
	for _, rel := range rels {
		ents, err := os.ReadDir(filepath.Join(repo, rel))
		if err != nil {
			t.Fatal(err)
		}
		for _, e := range ents {
			if n := e.Name(); !e.IsDir() && strings.HasSuffix(n, ".go") && !strings.HasSuffix(n, "_test.go") {
				cp(filepath.Join(rel, n))
			}
		}
	}
	return root
}

// edit replaces the n-th (0-based) occurrence of old in root/file; old must occur.
func edit(t *testing.T, root, file, old, new string, nth int) {
	t.Helper()
	path := filepath.Join(root, file)
	data, err := os.ReadFile(path)
	if err != nil {
		t.Fatal(err)
	}
	s := string(data)
	at := -1
	from := 0
	for i := 0; i <= nth; i++ {
		j := strings.Index(s[from:], old)
		if j < 0 {
			t.Fatalf("%s: occurrence %d of %q not found: the snapshot changed, adapt the mutation", file, nth, old)
		}
		at = from + j
		from = at + len(old)
	}
	s = s[:at] + new + s[at+len(old):]
	if err := os.WriteFile(path, []byte(s), 0o644); err != nil {
		t.Fatal(err)
	}
}

func addFile(t *testing.T, root, file, content string) {
	t.Helper()
	if err := os.MkdirAll(filepath.Dir(filepath.Join(root, file)), 0o755); err != nil {
		t.Fatal(err)
	}
	if err := os.WriteFile(filepath.Join(root, file), []byte(content), 0o644); err != nil {
		t.Fatal(err)
	}
}

// runGen runs a generator the way main does: an `unsupported` panic is a reported failure
func runGen(gen func(string) string, repo string) (text string, failure string) {
	defer func() {
		if r := recover(); r != nil {
			if u, ok := r.(unsupported); ok {
				failure = u.Error()
				return
			}
			panic(r)
		}
	}()
	return gen(repo), ""
}

type mutation struct {
	name      string
	file      string
	old, new  string
	nth       int
	wantFail  []string // substrings of the failure message; nil = the generator must succeed with a different text
	wantInOut []string // for a succeeding mutation: substrings of the new text
	// the edit must be invisible: same text, no failure (comments)
	wantNoChange bool
}

func runMutations(t *testing.T, gen func(string) string, pkgs []string, muts []mutation) {
	repo := snapshotRepo(t)
	base, fail := runGen(gen, copyPkgs(t, repo, pkgs...))
	if fail != "" {
		t.Fatalf("the generator fails on an unmodified copy: %s", fail)
	}
	for _, m := range muts {
		m := m
		t.Run(m.name, func(t *testing.T) {
			root := copyPkgs(t, repo, pkgs...)
			edit(t, root, m.file, m.old, m.new, m.nth)
			out, fail := runGen(gen, root)
			if m.wantNoChange {
				if fail != "" || out != base {
					t.Fatalf("a harmless edit is not followed silently: failure %q, text changed: %v", fail, out != base)
				}
				return
			}
			if m.wantFail != nil {
				if fail == "" {
					t.Fatalf("the generator accepted the mutation (output changed: %v)", out != base)
				}
				if strings.Contains(fail, "\n") {
					t.Errorf("failure message spans several lines: %q", fail)
				}
				for _, w := range m.wantFail {
					if !strings.Contains(fail, w) {
						t.Errorf("failure message lacks %q:\n%s", w, fail)
					}
				}
				return
			}
			if fail != "" {
				t.Fatalf("the generator should follow this edit, it failed: %s", fail)
			}
			if out == base {
				t.Fatalf("the generated text did not change")
			}
			for _, w := range m.wantInOut {
				if !strings.Contains(out, w) {
					t.Errorf("generated text lacks %q", w)
				}
			}
		})
	}
}

// every pin holds on the snapshot, and the table is not silently skipped
func TestPinsHoldOnSnapshot(t *testing.T) {
	repo := snapshotRepo(t)
	n := 0
	for _, pn := range pins {
		p := loadPkg(repo, pn.pkg)
		func() {
			defer func() {
				if r := recover(); r != nil {
					t.Errorf("%v", r)
				}
			}()
			checkPins(p, pn.gen, pn.pkg)
		}()
		if pn.coq == "" {
			t.Errorf("pin without a Coq counterpart: %v", pn.decls[0].name)
		}
		n += len(pn.decls)
	}
	if n < 30 {
		t.Errorf("only %d pinned declarations", n)
	}
}

func TestScannerPins(t *testing.T) {
	runMutations(t, genScanner, []string{"scanner"}, []mutation{
		{name: "LexemeEvent/field-order", file: "scanner/lexeme-event.go", old: "\ttype_    LexemeEventType\n\tposition bytes.Index\n", new: "\tposition bytes.Index\n\ttype_    LexemeEventType\n",
			wantFail: []string{"scanner.type LexemeEvent", "ScannerSem.cfg"}},
		{name: "Scanner/another-stack-type", file: "scanner/scanner.go", old: "stepStack stepFuncStack", new: "stepStack stepFuncQueue",
			wantFail: []string{"scanner.type Scanner", "ScannerSem.cfg"}},
		{name: "Next/comment-only-edit-is-harmless", file: "scanner/scanner.go", old: "\t\ts.curIndex++\n", new: "\t\t// one byte consumed\n\n\t\ts.curIndex++ // next\n",
			wantNoChange: true},
		{name: "Next/advance", file: "scanner/scanner.go", old: "s.curIndex++", new: "s.curIndex += 1",
			wantFail: []string{"pin", "scanner.Scanner.Next", "ScannerSem.next", "main_loop", "pins.go"}},
		{name: "Next/parameters-forgotten", file: "scanner/scanner.go", old: "s.lastDirectiveParameters = s.lastDirectiveParameters[:0]", new: "",
			wantFail: []string{"scanner.Scanner.Next", "note_lexeme"}},
		{name: "Next/loop-bound", file: "scanner/scanner.go", old: "for s.curIndex <= s.dataSize {", new: "for s.curIndex < s.dataSize {",
			wantFail: []string{"scanner.Scanner.Next"}},
		{name: "processLexemeEvent/positions-swapped", file: "scanner/scanner.go", old: "startEvent.position, lexEvent.position", new: "lexEvent.position, startEvent.position",
			wantFail: []string{"scanner.Scanner.processLexemeEvent", "ScannerSem.process_event"}},
		{name: "processLexemeEvent/beginning-not-pushed", file: "scanner/scanner.go", old: "\t\ts.stack.Push(lexEvent)\n", new: "",
			wantFail: []string{"scanner.Scanner.processLexemeEvent"}},
		{name: "processLexemeEvent/foreign-expression-among-pairs", file: "scanner/scanner.go", old: "startType == EnumBegin && eventType == EnumEnd:", new: "startType == EnumBegin && eventType == EnumEnd, s.curIndex == 0:",
			wantFail: []string{"processLexemeEvent", "expected in the clause of the accepted pairs"}},
		{name: "processLexemeEvent/new-pair-is-followed", file: "scanner/scanner.go", old: "startType == EnumBegin && eventType == EnumEnd:", new: "startType == EnumBegin && eventType == EnumEnd,\n\t\t\tstartType == TextBegin && eventType == EnumEnd:",
			wantInOut: []string{"(TextBegin, EnumEnd)"}},
		{name: "foundAt", file: "scanner/scanner.go", old: "LexemeEvent{t, i}", new: "LexemeEvent{t, i + 1}",
			wantFail: []string{"scanner.Scanner.foundAt", "AFound"}},
		{name: "found", file: "scanner/scanner.go", old: "s.foundAt(s.curIndex, t)", new: "s.foundAt(s.curIndex-1, t)",
			wantFail: []string{"scanner.Scanner.found ", "AFound"}},
		{name: "shiftFound/takes-the-newest", file: "scanner/scanner.go", old: "lexEvent := s.finds[0]", new: "lexEvent := s.finds[length-1]",
			wantFail: []string{"scanner.Scanner.shiftFound"}},
		{name: "stepFuncStack.Pop/bottom", file: "scanner/step-stack.go", old: "return (*stack)[count-1]", new: "return (*stack)[0]",
			wantFail: []string{"scanner.stepFuncStack.peek", "APop"}},
		{name: "stepFuncStack.Push", file: "scanner/step-stack.go", old: "*stack = append(*stack, val)", new: "*stack = append(stepFuncStack{val}, *stack...)",
			wantFail: []string{"scanner.stepFuncStack.Push", "APush"}},
		{name: "eventStack.Pop/keeps-the-element", file: "scanner/lexeme-event-stack.go", old: "\t*stack = (*stack)[:count-1]\n", new: "\t_ = count\n",
			wantFail: []string{"scanner.eventStack.Pop", "estk"}},
		{name: "isDirective", file: "scanner/steps-description.go", old: "\tif err != nil {\n\t\treturn false\n\t}\n\n\treturn directive.IsStartWithDirective(b)", new: "\tif err != nil {\n\t\treturn true\n\t}\n\n\treturn directive.IsStartWithDirective(b)",
			wantFail: []string{"scanner.Scanner.isDirective", "is_directive_at"}},
		{name: "predicates/no-unquote", file: "scanner/step-helpers.go", old: "lex.Value().Unquote().TrimSquareBrackets()", new: "lex.Value().TrimSquareBrackets()",
			wantFail: []string{"scanner.Scanner.isDirectiveParameterHasTypeOrAnyOrEmpty", "has_type_or_any_or_empty"}},
		{name: "predicates/any-or-empty-polarity", file: "scanner/step-helpers.go", old: "v.Equals(anyType), v.Equals(emptyType):\n\t\t\treturn false", new: "v.Equals(anyType), v.Equals(emptyType):\n\t\t\treturn true",
			wantFail: []string{"scanner.Scanner.isDirectiveParameterHasAnyOrEmpty"}},
		{name: "predicates/regex-word", file: "scanner/step-helpers.go", old: `[]byte("regex")`, new: `[]byte("regexp")`,
			wantFail: []string{"scanner.var regexType", "w_regex"}},
		{name: "predicates/regex-brackets", file: "scanner/step-helpers.go", old: "v := lex.Value().Unquote()\n", new: "v := lex.Value().Unquote().TrimSquareBrackets()\n",
			wantFail: []string{"scanner.Scanner.isDirectiveParameterHasRegexNotation", "has_regex"}},
		{name: "readSchemaWithJsc/slice", file: "scanner/steps-schema-jsight.go", old: "bytes.Index(fc.Len()-1)", new: "bytes.Index(fc.Len()-2)",
			wantFail: []string{"scanner.Scanner.readSchemaWithJsc", "read_body"}},
		{name: "readEnumWithJsc/error-position", file: "scanner/steps-enum.go", old: "s.curIndex+bytes.Index(err.Position())", new: "bytes.Index(err.Position())",
			wantFail: []string{"scanner.Scanner.readEnumWithJsc", "read_body"}},
		{name: "read-tail/length-not-minus-one", file: "scanner/steps-schema-jsight.go", old: "s.curIndex += bytes.Index(schemaLength - 1)", new: "s.curIndex += bytes.Index(schemaLength)",
			wantFail: []string{"two-value assignment"}},
		{name: "japiErrorBasic/position", file: "scanner/errors.go", old: "jerr.NewJApiError(msg, s.file, s.curIndex)", new: "jerr.NewJApiError(msg, s.file, s.curIndex-1)",
			wantFail: []string{"scanner.Scanner.japiErrorBasic", "Err (pos g')"}},
		{name: "japiErrorUnexpectedChar/position", file: "scanner/errors.go", old: "return s.japiError(msg, s.curIndex)", new: "return s.japiError(msg, s.curIndex+1)",
			wantFail: []string{"japiErrorUnexpectedChar", "curIndex"}},
		{name: "NewJApiScanner/size", file: "scanner/scanner.go", old: "s.dataSize = bytes.Index(len(s.data))", new: "s.dataSize = bytes.Index(len(s.data) - 1)",
			wantFail: []string{"scanner.NewJApiScanner", "init_cfg"}},
		{name: "NewJApiScanner/initial-state-is-followed", file: "scanner/scanner.go", old: "stateRoot,", new: "stateExpectKeyword,",
			wantInOut: []string{"Definition initial_state : state := StExpectKeyword."}},
		{name: "Lexeme.Value/exclusive-end", file: "scanner/lexeme.go", old: "Slice(lex.begin, lex.end)", new: "Slice(lex.begin, lex.end-1)",
			wantFail: []string{"scanner.Lexeme.Value", "lex_value"}},
		{name: "NewLexeme/swapped", file: "scanner/lexeme.go", old: "begin: begin,\n\t\tend:   end,", new: "begin: end,\n\t\tend:   begin,",
			wantFail: []string{"scanner.NewLexeme"}},
		{name: "EOF/value", file: "scanner/constants.go", old: "EOF byte = 0", new: "EOF byte = 1",
			wantFail: []string{"EOF", "ScannerSem.main_loop"}},
		{name: "ToLexemeType/default-returns", file: "scanner/lexeme-event.go", old: `panic("Unknown lexeme event type")`, new: "return Keyword",
			wantFail: []string{"ToLexemeType default clause"}},
		{name: "ToLexemeType/mapping-is-followed", file: "scanner/lexeme-event.go", old: "case EnumBegin, EnumEnd:\n\t\treturn Enum", new: "case EnumBegin, EnumEnd:\n\t\treturn Schema",
			wantInOut: []string{"| EnumEnd => Some LSchema"}},
		{name: "IsEnding/set-is-followed", file: "scanner/lexeme-event.go", old: "\t\tTextEnd,\n\t\tEnumEnd:", new: "\t\tTextEnd:",
			wantInOut: []string{"Definition evt_ending : list evt := [KeywordEnd; ParameterEnd; AnnotationEnd; SchemaEnd; TextEnd]."}},
		// byte classes: evaluated from the bodies
		{name: "isWhitespace/class-is-followed", file: "scanner/step-helpers.go", old: "return c == ' ' || c == '\\t'", new: "return c == ' ' || c == '\\t' || c == '\\v'",
			wantInOut: []string{"CByteIn [9; 11; 32]"}},
		{name: "isWhitespace/unicode", file: "scanner/step-helpers.go", old: "return c == ' ' || c == '\\t'", new: "return unicode.IsSpace(rune(c))",
			wantFail: []string{"byte predicate"}},
		{name: "otherByte/fixed-point-is-followed", file: "scanner/step-helpers.go", old: "return 254", new: "return 255",
			wantInOut: []string{"; 255]"}},
		{name: "caseNewLine/other-predicate-is-followed", file: "scanner/step-helpers.go", old: "if IsNewLine(c) {", new: "if IsNewLine(c) || c == ';' {",
			wantInOut: []string{"CByteIn [10; 13; 59]"}},
		{name: "otherByte/table-lookup", file: "scanner/step-helpers.go", old: "return b + 1", new: "return table[b]",
			wantFail: []string{"byte expression"}},
	})
}

func TestScannerClosedWorld(t *testing.T) {
	repo := snapshotRepo(t)
	// a new method that moves the read position
	root := copyPkgs(t, repo, "scanner")
	addFile(t, root, "scanner/skip.go", "package scanner\n\nfunc (s *Scanner) Skip(n uint) {\n\ts.curIndex += bytes.Index(n)\n}\n")
	if _, fail := runGen(genScanner, root); !strings.Contains(fail, "Scanner.Skip") || !strings.Contains(fail, "does not know it") {
		t.Errorf("new state-changing method: %q", fail)
	}
	// a read-only accessor is fine
	root = copyPkgs(t, repo, "scanner")
	addFile(t, root, "scanner/size.go", "package scanner\n\nfunc (s *Scanner) Size() uint {\n\treturn s.dataSize\n}\n")
	if _, fail := runGen(genScanner, root); fail != "" {
		t.Errorf("read-only accessor refused: %q", fail)
	}
	// the unmodelled setter gets a caller
	root = copyPkgs(t, repo, "scanner")
	addFile(t, root, "core/rescan.go", "package core\n\nfunc rescan(s interface{ SetCurrentIndex(uint) }) {\n\ts.SetCurrentIndex(0)\n}\n")
	if _, fail := runGen(genScanner, root); !strings.Contains(fail, "SetCurrentIndex") || !strings.Contains(fail, "core/rescan.go:4") {
		t.Errorf("caller of SetCurrentIndex: %q", fail)
	}
	// a variant of a file for builds WITHOUT the verif tag
	root = copyPkgs(t, repo, "scanner")
	addFile(t, root, "scanner/plain.go", "//go:build !verif\n\npackage scanner\n")
	if _, fail := runGen(genScanner, root); !strings.Contains(fail, "build constraint") || !strings.Contains(fail, "plain.go:1") {
		t.Errorf("!verif file: %q", fail)
	}
	// a hook file is skipped whatever it holds
	root = copyPkgs(t, repo, "scanner")
	addFile(t, root, "scanner/verif_hooks.go", "//go:build verif\n\npackage scanner\n\nfunc (s *Scanner) VerifReset() {\n\ts.curIndex = 0\n}\n")
	if _, fail := runGen(genScanner, root); fail != "" {
		t.Errorf("hook file not skipped: %q", fail)
	}
}

func TestDirectivePins(t *testing.T) {
	runMutations(t, genDirectiveTables, []string{"directive", "core"}, []mutation{
		{name: "String", file: "directive/enumeration.go", old: "return ss[de]", new: "return strings.ToUpper(ss[de])",
			wantFail: []string{"pin", "directive.Enumeration.String", "kind_keyword", "pins.go"}},
		{name: "NewDirectiveType", file: "directive/enumeration.go", old: "if Enumeration(i) != HTTPResponseCode {", new: "if Enumeration(i) != HTTPResponseCode && Enumeration(i) != Include {",
			wantFail: []string{"directive.NewDirectiveType", "Core.directive_type"}},
		{name: "IsHTTPResponseCode/leading-zero", file: "directive/http_response_code.go", old: "\tif s[0] == '0' {\n\t\treturn false\n\t}\n\n", new: "",
			wantFail: []string{"directive.IsHTTPResponseCode", "Core.is_response_code"}},
		{name: "isHTTPResponseCode/range-is-followed", file: "directive/http_response_code.go", old: "code <= 599", new: "code <= 499",
			wantInOut: []string{"Definition response_code_hi : N := 499."}},
		{name: "isHTTPResponseCode/shape", file: "directive/http_response_code.go", old: "code >= 100 && code <= 599", new: "code > 99 && code <= 599",
			wantFail: []string{"isHTTPResponseCode expression"}},
		{name: "IsAllowedForDirectiveContext", file: "directive/enumeration.go", old: "_, ok = s[child]", new: "_, ok = s[de]",
			wantFail: []string{"directive.Enumeration.IsAllowedForDirectiveContext", "Core.ctx_allowed"}},
		{name: "createEnumerationSet", file: "directive/enumeration.go", old: "for _, e := range ee {", new: "for _, e := range ee[1:] {",
			wantFail: []string{"directive.createEnumerationSet", "context_table"}},
		{name: "IsStartWithDirective/length", file: "directive/enumeration.go", old: "if len(b) < 3 {", new: "if len(b) < 4 {",
			wantFail: []string{"directive.IsStartWithDirective", "ScannerSem.is_start_with_directive"}},
		{name: "IsStartWithDirective/exact-match", file: "directive/enumeration.go", old: "strings.HasPrefix(s, de.String())", new: "s == de.String()",
			wantFail: []string{"directive.IsStartWithDirective"}},
		{name: "context-table/row-is-followed", file: "directive/enumeration.go", old: "createEnumerationSet(Description),", new: "createEnumerationSet(Description, Paste),",
			wantInOut: []string{"(KTAG, [KDescription; KPaste])"}},
		{name: "keyword/spelling-is-followed", file: "directive/enumeration.go", old: `"BaseUrl",`, new: `"BaseURL",`,
			wantInOut: []string{`| KBaseURL => bs "BaseURL"`}},
		{name: "adders/dropped-entry-is-followed", file: "core/core.go", old: "\t\tdirective.Tags:             core.addTags,\n", new: "",
			wantInOut: []string{"KParams; KResult]."}},
		{name: "adders/element-assignment-refused", file: "core/core.go", old: "\tcore.directiveFunctions = map[", new: "\tdefer func() { core.directiveFunctions[directive.Path] = core.addTags }()\n\tcore.directiveFunctions = map[",
			wantFail: []string{"directiveFunctions is written outside its initialiser"}},
		{name: "adders/delete-refused", file: "core/core.go", old: "\tcore.directiveFunctions = map[", new: "\tdefer func() { delete(core.directiveFunctions, directive.Tags) }()\n\tcore.directiveFunctions = map[",
			wantFail: []string{"directiveFunctions is handed to a call"}},
		{name: "root-context/set-is-followed", file: "directive/enumeration.go", old: "Macro, Paste, TAG:", new: "Macro, Paste:",
			wantInOut: []string{"KMacro; KPaste]."}},
	})
}

func TestStringFunctionTranslation(t *testing.T) {
	runMutations(t, genIncludeName, []string{"core"}, []mutation{
		{name: "includename/strings-is-another-package", file: "core/include.go", old: "\t\"strings\"\n", new: "\tstrings \"example.com/notstrings\"\n",
			wantFail: []string{"strings.Contains", "not the import of \"strings\""}},
		{name: "includename/check-is-followed", file: "core/include.go", old: "strings.Contains(s, \"/..\")", new: "strings.Contains(s, \"/..\") ||\n\t\tstrings.Contains(s, \"~\")",
			wantInOut: []string{`(contains (bs "~") s)`}},
		{name: "includename/unknown-call", file: "core/include.go", old: "strings.ContainsRune(s, '\\\\')", new: "strings.ContainsAny(s, \"\\\\:\")",
			wantFail: []string{"boolean expression"}},
	})
	runMutations(t, genTagName, []string{"catalog"}, []mutation{
		{name: "tagname/TagName-is-not-a-string-type", file: "catalog/tag_name.go", old: "type TagName string", new: "type TagName []byte",
			wantFail: []string{"result type TagName"}},
		{name: "tagname/url-is-another-package", file: "catalog/tag_name.go", old: "\t\"net/url\"\n", new: "\turl \"example.com/url\"\n",
			wantFail: []string{"url.PathEscape", "not the import of \"net/url\""}},
		{name: "tagname/step-is-followed", file: "catalog/tag_name.go", old: "strings.ReplaceAll(title, \"%\", \"_\")", new: "strings.ReplaceAll(title, \"%\", \"-\")",
			wantInOut: []string{`(replace_all (bs "%") (bs "-") title)`}},
	})
}

func TestCollectionPackagesAreFound(t *testing.T) {
	repo := snapshotRepo(t)
	root := copyPkgs(t, repo, "catalog", "directive", "core")
	got := strings.Join(collectionPackages(root), ",")
	if got != "catalog,directive" {
		t.Fatalf("collection packages of the snapshot: %s", got)
	}
	addFile(t, root, "core/seen.go", "package core\n\n// seen is a set of names.\n// gen:Set\ntype seen struct {\n\tdata  map[string]struct{}\n\torder []string\n}\n")
	got = strings.Join(collectionPackages(root), ",")
	if got != "catalog,core,directive" {
		t.Fatalf("a collection in another package is not found: %s", got)
	}
	// the code generators' own mentions of the markers do not count
	addFile(t, root, "internal/cmd/generator/x.go", "package main\n\n// gen:Set\nvar x = 1\n")
	if got2 := strings.Join(collectionPackages(root), ","); got2 != got {
		t.Fatalf("internal/ is library code now: %s", got2)
	}
}

// the mutex of a collection / of RulesBuilder must be the standard library's sync.RWMutex
func TestMutexIsTheStandardOne(t *testing.T) {
	repo := snapshotRepo(t)
	try := func(f func()) (failure string) {
		defer func() {
			if r := recover(); r != nil {
				if u, ok := r.(unsupported); ok {
					failure = u.Error()
					return
				}
				panic(r)
			}
		}()
		f()
		return ""
	}
	root := copyPkgs(t, repo, "catalog")
	if fail := try(func() { findCollTypes(loadPkg(root, "catalog"), "catalog") }); fail != "" {
		t.Fatalf("unmodified copy: %s", fail)
	}
	edit(t, root, "catalog/tags.go", "\t\"sync\"\n", "\tsync \"example.com/fastsync\"\n", 0)
	if fail := try(func() { findCollTypes(loadPkg(root, "catalog"), "catalog") }); !strings.Contains(fail, "Tags.mx is not a sync.RWMutex") {
		t.Errorf("collection with a foreign mutex: %q", fail)
	}
	root = copyPkgs(t, repo, "catalog")
	edit(t, root, "catalog/rules_builder.go", "import \"sync\"\n", "import sync \"example.com/fastsync\"\n", 0)
	fail := try(func() {
		rulesStruct(loadPkg(root, "catalog"), "RulesBuilder", rulesBuilderFile, map[string]string{"rules": "*Rules", "mx": "sync.RWMutex"})
	})
	if !strings.Contains(fail, "RulesBuilder.mx") {
		t.Errorf("rules builder with a foreign mutex: %q", fail)
	}
}
