"""Abstract API models of JSight API documents, the directive forest they are lowered
to, and a random generator of ACCEPTED models.

Everything here is plain data (dataclasses), JSON-serialisable with to_json()/from_json()
so that a failing case can be stored as a replay file, and deterministic from the
random.Random instance passed in.

Model level (what the document says)          Tree level (how it is written down)
  ApiModel, Info, Server, UserType, Enum,        Node (one directive with parameters, annotation,
  Tag, UrlBlock, HttpMethod, RpcUrl,             body and children), Project (file name -> forest).
  RpcMethod, Query, Request, Response, Schema    render.lower(model) goes from left to right.
"""
import dataclasses
import json
from dataclasses import dataclass, field
from typing import Any, Dict, List, Optional

_REG: Dict[str, type] = {}


def _reg(cls):
    _REG[cls.__name__] = cls
    return cls


def _enc(o):
    if dataclasses.is_dataclass(o) and not isinstance(o, type):
        d = {"_t": type(o).__name__}
        for f in dataclasses.fields(o):
            d[f.name] = _enc(getattr(o, f.name))
        return d
    if isinstance(o, (list, tuple)):
        return [_enc(x) for x in o]
    if isinstance(o, dict):
        return {"_t": "dict", "items": [[_enc(k), _enc(v)] for k, v in o.items()]}
    if isinstance(o, bytes):
        return {"_t": "bytes", "hex": o.hex()}
    return o


def _dec(o):
    if isinstance(o, list):
        return [_dec(x) for x in o]
    if isinstance(o, dict):
        t = o.get("_t")
        if t == "dict":
            return {_hashable(_dec(k)): _dec(v) for k, v in o["items"]}
        if t == "bytes":
            return bytes.fromhex(o["hex"])
        cls = _REG[t]
        kw = {k: _dec(v) for k, v in o.items() if k != "_t"}
        return cls(**kw)
    return o


def _hashable(k):
    return tuple(k) if isinstance(k, list) else k


_FIELDS: Dict[type, tuple] = {}


def _clone(o):
    """deep copy of the plain data this module deals in"""
    t = type(o)
    if t in (str, int, float, bool, type(None), bytes):
        return o
    if t is list:
        return [_clone(x) for x in o]
    if t is tuple:
        return tuple(_clone(x) for x in o)
    if t is dict:
        return {k: _clone(v) for k, v in o.items()}
    fs = _FIELDS.get(t)
    if fs is None:
        fs = _FIELDS[t] = tuple(f.name for f in dataclasses.fields(o))
    return t(**{f: _clone(getattr(o, f)) for f in fs})


class J:
    """mixin: JSON round trip and deep copy"""

    def to_json(self):
        return _enc(self)

    def dumps(self):
        return json.dumps(self.to_json(), indent=1, sort_keys=True)

    @classmethod
    def from_json(cls, d):
        if isinstance(d, (str, bytes)):
            d = json.loads(d)
        return _dec(d)

    def copy(self):
        return _clone(self)


# ---------------------------------------------------------------------------------------
# model level


@_reg
@dataclass
class Schema(J):
    """schema source text plus what the generator knows about it.
    text      source, LF separated lines, first line not indented; for notation "regex": /re/
    refs      user type names in the order they are mentioned (the library's usedUserTypes
              before inheritance is applied)
    enums     enum names mentioned
    top       [tokenType, type] of the root node of the library's AST
    allof     allOf bases of the root object, as written
    props     own property names of the root object"""
    text: str = ""
    notation: str = "jsight"
    refs: List[str] = field(default_factory=list)
    enums: List[str] = field(default_factory=list)
    top: Optional[List[str]] = None
    allof: List[str] = field(default_factory=list)
    props: List[str] = field(default_factory=list)


@_reg
@dataclass
class Info(J):
    title: Optional[str] = None
    version: Optional[str] = None
    description: Optional[str] = None
    child_order: Optional[List[str]] = None     # of "title", "version", "description"


@_reg
@dataclass
class Server(J):
    name: str = ""
    annotation: Optional[str] = None
    base_url: str = ""


@_reg
@dataclass
class UserType(J):
    name: str = ""
    annotation: Optional[str] = None
    notation: str = "jsight"        # jsight | regex | any | empty
    body: Optional[str] = None      # schema source (None for any/empty)
    refs: List[str] = field(default_factory=list)
    enums: List[str] = field(default_factory=list)
    top: Optional[List[str]] = None
    allof: List[str] = field(default_factory=list)
    props: List[str] = field(default_factory=list)
    example: Optional[str] = None   # literal of a scalar type (for {type: "@x"} users)

    def schema(self):
        return Schema(self.body or "", self.notation, list(self.refs), list(self.enums),
                      self.top, list(self.allof), list(self.props))


@_reg
@dataclass
class Enum(J):
    name: str = ""
    annotation: Optional[str] = None
    values: List[Any] = field(default_factory=list)   # JSON scalars


@_reg
@dataclass
class Tag(J):
    name: str = ""
    annotation: Optional[str] = None
    description: Optional[str] = None


@_reg
@dataclass
class Query(J):
    format: Optional[str] = None     # None (default htmlFormEncoded) | htmlFormEncoded | noFormat
    example: Optional[str] = None
    schema: Optional[Schema] = None
    format_first: bool = False       # parameter order on the directive line


@_reg
@dataclass
class Request(J):
    """exactly one of: notation in {any, empty} | notation == "regex" with schema |
    type ("@t" or "[@t]" written as a parameter) | schema (inline jsight)"""
    notation: Optional[str] = None
    type: Optional[str] = None
    schema: Optional[Schema] = None
    headers: Optional[Schema] = None
    body_as_child: bool = False
    headers_first: bool = True       # Headers before Body when both are children


@_reg
@dataclass
class Response(J):
    code: str = "200"
    annotation: Optional[str] = None
    notation: Optional[str] = None
    type: Optional[str] = None
    schema: Optional[Schema] = None
    headers: Optional[Schema] = None
    body_as_child: bool = False
    headers_first: bool = True


@_reg
@dataclass
class HttpMethod(J):
    verb: str = "GET"
    path: Optional[str] = None       # stand-alone methods and path-bearing methods in a URL
    annotation: Optional[str] = None
    description: Optional[str] = None
    tags: List[str] = field(default_factory=list)
    query: Optional[Query] = None
    request: Optional[Request] = None
    responses: List[Response] = field(default_factory=list)
    path_schema: Optional[Schema] = None
    child_order: Optional[List[str]] = None   # "description","tags","path","query","request","r0"..

    def tokens(self):
        t = []
        if self.description is not None:
            t.append("description")
        if self.tags:
            t.append("tags")
        if self.path_schema is not None:
            t.append("path")
        if self.query is not None:
            t.append("query")
        if self.request is not None:
            t.append("request")
        t += ["r%d" % i for i in range(len(self.responses))]
        if self.child_order and sorted(self.child_order) == sorted(t):
            return list(self.child_order)
        return t


@_reg
@dataclass
class UrlBlock(J):
    path: str = "/"
    tags: List[str] = field(default_factory=list)
    methods: List[HttpMethod] = field(default_factory=list)
    path_schema: Optional[Schema] = None
    child_order: Optional[List[str]] = None   # "tags","path","m0".. ; path-bearing methods last

    def tokens(self):
        t = []
        if self.tags:
            t.append("tags")
        if self.path_schema is not None:
            t.append("path")
        plain = ["m%d" % i for i, m in enumerate(self.methods) if m.path is None]
        bearing = ["m%d" % i for i, m in enumerate(self.methods) if m.path is not None]
        if self.child_order and sorted(self.child_order) == sorted(t + plain + bearing):
            o = list(self.child_order)
            # a path-bearing method leaves the URL: nothing of the URL may follow it
            head = [x for x in o if x not in bearing]
            return head + [x for x in o if x in bearing]
        return t + plain + bearing


@_reg
@dataclass
class RpcMethod(J):
    name: str = "m"
    annotation: Optional[str] = None
    description: Optional[str] = None
    tags: List[str] = field(default_factory=list)
    params: Optional[Schema] = None
    result: Optional[Schema] = None
    child_order: Optional[List[str]] = None   # "description","tags","params","result"

    def tokens(self):
        t = []
        if self.description is not None:
            t.append("description")
        if self.tags:
            t.append("tags")
        if self.params is not None:
            t.append("params")
        if self.result is not None:
            t.append("result")
        if self.child_order and sorted(self.child_order) == sorted(t):
            return list(self.child_order)
        return t


@_reg
@dataclass
class RpcUrl(J):
    path: str = "/rpc"
    tags: List[str] = field(default_factory=list)   # NOTE: rejected by the library when non-empty
    methods: List[RpcMethod] = field(default_factory=list)


@_reg
@dataclass
class ApiModel(J):
    info: Optional[Info] = None
    servers: List[Server] = field(default_factory=list)
    types: List[UserType] = field(default_factory=list)
    enums: List[Enum] = field(default_factory=list)
    tags: List[Tag] = field(default_factory=list)
    blocks: List[Any] = field(default_factory=list)      # UrlBlock | HttpMethod | RpcUrl, source order
    order: Optional[List[List[Any]]] = None              # top-level layout: [kind, index] pairs

    # -- top-level layout ---------------------------------------------------------------
    def units(self):
        """top-level declarations in source order as [kind, index]; kind in
        info/server/type/enum/tag/block.  INFO, when present, always comes first."""
        allu = [["server", i] for i in range(len(self.servers))]
        allu += [["tag", i] for i in range(len(self.tags))]
        allu += [["type", i] for i in range(len(self.types))]
        allu += [["enum", i] for i in range(len(self.enums))]
        allu += [["block", i] for i in range(len(self.blocks))]
        if self.order:
            o = [list(u) for u in self.order if u[0] != "info"]
            if sorted(map(tuple, o)) == sorted(map(tuple, allu)):
                allu = o
        if self.info is not None:
            allu = [["info", 0]] + allu
        return allu

    def unit(self, u):
        k, i = u
        if k == "info":
            return self.info
        return {"server": self.servers, "type": self.types, "enum": self.enums, "tag": self.tags,
                "block": self.blocks}[k][i]

    # -- reference bookkeeping -----------------------------------------------------------
    def schemas(self):
        """every (owner description, Schema) of the model outside of the user types"""
        out = []

        def of_method(m, where):
            if m.path_schema:
                out.append((where + " Path", m.path_schema))
            if m.query and m.query.schema:
                out.append((where + " Query", m.query.schema))
            if m.request:
                if m.request.schema:
                    out.append((where + " Request", m.request.schema))
                if m.request.headers:
                    out.append((where + " Request Headers", m.request.headers))
            for r in m.responses:
                if r.schema:
                    out.append((where + " " + r.code, r.schema))
                if r.headers:
                    out.append((where + " " + r.code + " Headers", r.headers))

        for b in self.blocks:
            if isinstance(b, UrlBlock):
                if b.path_schema:
                    out.append(("URL " + b.path + " Path", b.path_schema))
                for m in b.methods:
                    of_method(m, "%s %s" % (m.verb, m.path or b.path))
            elif isinstance(b, HttpMethod):
                of_method(b, "%s %s" % (b.verb, b.path))
            else:
                for m in b.methods:
                    if m.params:
                        out.append(("Method %s Params" % m.name, m.params))
                    if m.result:
                        out.append(("Method %s Result" % m.name, m.result))
        return out

    def type_params(self):
        """user type names written as Request/response parameters (@t or [@t])"""
        out = []
        for m in self.http_methods():
            for x in ([m.request] if m.request else []) + list(m.responses):
                if x.type:
                    out.append(x.type.strip("[]"))
        return out

    def http_methods(self):
        for b in self.blocks:
            if isinstance(b, UrlBlock):
                yield from b.methods
            elif isinstance(b, HttpMethod):
                yield b

    def referenced_types(self):
        s = set(self.type_params())
        for t in self.types:
            s.update(t.refs)
        for _, sc in self.schemas():
            s.update(sc.refs)
        return s

    def referenced_enums(self):
        s = set()
        for t in self.types:
            s.update(t.enums)
        for _, sc in self.schemas():
            s.update(sc.enums)
        return s

    def referenced_tags(self):
        s = set()
        for b in self.blocks:
            s.update(getattr(b, "tags", []) or [])
            for m in getattr(b, "methods", []) or []:
                s.update(m.tags)
        return s

    def all_paths(self):
        out = []
        for b in self.blocks:
            out.append(b.path)
            for m in getattr(b, "methods", []) or []:
                if getattr(m, "path", None):
                    out.append(m.path)
        return out


# ---------------------------------------------------------------------------------------
# tree level


@_reg
@dataclass
class Node(J):
    """one directive as written.
    kind       directive class: JSIGHT INFO Title Version Description SERVER BaseUrl URL HTTP
               (GET..DELETE) Body Request RESP (a response code) Path Headers Query TYPE ENUM
               MACRO PASTE INCLUDE Protocol Method Params Result TAG Tags
    keyword    the keyword as written
    params     parameter values (logical, unquoted)
    body       schema / enum / regex source or description text (LF separated, not indented)
    body_kind  schema | regex | enum | text
    force_parens / no_parens   explicit parentheses required / forbidden for the meaning
    hint       extra indentation levels (path-bearing methods drawn inside their URL)
    unit       "kind:index" of the model's top-level unit this node was lowered from"""
    kind: str = ""
    keyword: str = ""
    params: List[str] = field(default_factory=list)
    annotation: Optional[str] = None
    body: Optional[str] = None
    body_kind: Optional[str] = None
    children: List["Node"] = field(default_factory=list)
    force_parens: bool = False
    no_parens: bool = False
    hint: int = 0
    unit: str = ""
    uid: int = 0

    def walk(self):
        yield self
        for c in self.children:
            yield from c.walk()


@_reg
@dataclass
class Project(J):
    """file name -> forest; `root` is the root file"""
    files: Dict[str, List[Node]] = field(default_factory=dict)
    root: str = "main.jst"

    def renumber(self):
        n = 0
        for fn in self.files:
            for top in self.files[fn]:
                for d in top.walk():
                    n += 1
                    d.uid = n
        return self

    def nodes(self):
        for fn in self.files:
            for top in self.files[fn]:
                for d in top.walk():
                    yield fn, d

    def next_uid(self):
        return max([d.uid for _, d in self.nodes()] + [0]) + 1


HTTP_VERBS = ["GET", "POST", "PUT", "PATCH", "DELETE"]

# which kind may nest under which (directive/enumeration.go directiveAllowedToDirectiveContext)
_METHOD_CH = {"Description", "Request", "RESP", "Path", "Query", "PASTE", "Tags"}
ALLOWED = {
    "URL": {"HTTP", "Path", "PASTE", "Protocol", "Method", "Tags"},
    "HTTP": _METHOD_CH,
    "RESP": {"Body", "Headers", "PASTE"},
    "Request": {"Body", "Headers", "PASTE"},
    "INFO": {"Title", "Version", "Description", "PASTE"},
    "SERVER": {"BaseUrl", "PASTE"},
    "Method": {"Description", "Params", "Result", "Tags"},
    "TAG": {"Description"},
    "MACRO": {"INFO", "Title", "Version", "Description", "SERVER", "BaseUrl", "URL", "HTTP", "Body",
              "Request", "RESP", "Path", "Headers", "Query", "TYPE", "ENUM", "PASTE"},
}
ROOT_ALLOWED = {"JSIGHT", "INFO", "SERVER", "URL", "HTTP", "TYPE", "ENUM", "MACRO", "PASTE", "TAG"}


# ---------------------------------------------------------------------------------------
# random models

_SEGS = ["pets", "users", "orders", "items", "v1", "api", "a_b", "x-y", "cats", "dogs", "v1.2",
         "friends", "files", "q", "admin", "tasks", "_", "me"]
_PARAMS = ["id", "petId", "user_id", "name", "k", "friend.id", "n-1", "slug"]
_WORDS = ["alpha", "beta", "gamma", "delta", "list", "item", "of", "the", "a", "pet", "user",
          "returns", "creates", "page", "all", "by", "id", "with", "ok", "error", "not", "found"]
# annotation fragments: nothing here may contain '#', '*/' or a newline
_ANN_EXTRA = ["see http://example.com/x", "(deprecated)", "\"quoted\"", "it's", "50%", "a/b",
              "GET it", "- dash", "TYPE of thing", "x:y", "[1]", "{x}",
              # blanks that are NOT the scanner's or the normaliser's (no-break, ideographic, em space, next line): content
              "prix\u00a0: 1\u00a0000", "\u540d\u524d\u3000\u59d3", "em\u2003space", "caf\u00e9 \u00e0 Voil\u00e0", "nel\u0085x", "\u202fnarrow"]
_DESC_LINES = ["## overview", "the quick brown fox", "- first item", "  continued here",
               "- second item", "see [docs](http://x.io/a#frag)", "plain text, with commas.",
               "`code` and *emphasis*", "a # that is not a comment", "line with (parentheses)",
               "  indented more", "mentions GET /pets and TYPE @x inside", "\"quotes\" too",
               "ok: 200 is not first here", "tab\there", "// not an annotation"]
_DESC_FIRST = ["## overview", "the quick brown fox", "- first item", "plain text, with commas.",
               "`code` and *emphasis*", "a # that is not a comment", "\"quotes\" too",
               "line with (parentheses)", "// not an annotation", "# heading"]
_REGEXES = ["/ab+c/", "/^[a-z]{2,4}$/", "/x|y/", "/\\d{3}-\\d{2}/", "/a\\/b/", "/[A-Z][a-z]*( [A-Z][a-z]*)*/",
            "/^OK$/", "/(foo|bar)?baz/"]


class _Gen:
    def __init__(self, rng, size, opts):
        self.r = rng
        self.size = max(1, size)
        self.opts = opts
        self.names = set()
        self.m = ApiModel()
        # paths
        self.param_at = {}          # prefix (tuple of segments) -> parameter name allowed next
        self.known_paths = []       # list of segment tuples
        self.url_paths = set()
        self.interactions = set()   # (verb, path) / ("rpc:"+name, path)
        self.path_defined = set()   # prefixes (tuple incl. the {param} segment) given by a Path
        self.common = []            # pool of shared responses
        self.objs = []              # names of object types (dependency order)
        self.scalars = []           # names of string scalar types with known example
        self.pscalars = []          # scalar types usable in Path schemas

    # -- small helpers ------------------------------------------------------------------
    def chance(self, p):
        return self.r.random() < p

    def fresh(self, prefix, pool=None):
        r = self.r
        for _ in range(200):
            if pool and r.random() < 0.7:
                n = r.choice(pool)
            else:
                n = r.choice(["t", "x", "obj", "rec", "v", "A", "my-type", "n_1", "Z9"]) + str(r.randrange(100))
            n = prefix + n
            if n not in self.names:
                self.names.add(n)
                return n
        n = prefix + "u%d" % len(self.names)
        self.names.add(n)
        return n

    def words(self, lo, hi):
        r = self.r
        ws = [r.choice(_WORDS) for _ in range(r.randint(lo, hi))]
        if r.random() < 0.3:
            ws.insert(r.randrange(len(ws) + 1), r.choice(_ANN_EXTRA))
        return " ".join(ws)

    def note(self, lo=1, hi=3):
        """text of a note inside a schema: must not look like a rule set"""
        return " ".join(self.r.choice(_WORDS) for _ in range(self.r.randint(lo, hi)))

    def annotation(self, p=0.5):
        if not self.chance(p):
            return None
        a = self.words(1, 4)
        return a[0].upper() + a[1:] if self.chance(0.5) else a

    def description(self, p=0.4):
        if not self.chance(p):
            return None
        r = self.r
        lines = [r.choice(_DESC_FIRST)]
        for _ in range(r.choice([0, 0, 1, 2])):
            if r.random() < 0.2:
                lines.append("")            # blank line inside the text
            lines.append(r.choice(_DESC_LINES))
        if lines[-1] == "":
            lines.pop()
        return "\n".join(lines)

    # -- schemas ------------------------------------------------------------------------
    def scalar_literal(self):
        r = self.r
        k = r.choice(["string", "integer", "float", "boolean", "string", "integer", "null"])
        if k == "string":
            return json.dumps(r.choice(["abc", "x y", "", "q\"uote", "#hash", "a//b", "ünï", "1"])), ["string", "string"]
        if k == "integer":
            return str(r.choice([0, 1, 12, -5, 1000])), ["number", "integer"]
        if k == "float":
            return r.choice(["1.5", "0.25", "-2.75"]), ["number", "float"]
        if k == "boolean":
            return r.choice(["true", "false"]), ["boolean", "boolean"]
        return "null", ["null", "null"]

    def type_by_name(self, n):
        for t in self.m.types:
            if t.name == n:
                return t
        return None

    def referable(self):
        return [t.name for t in self.m.types if t.notation in ("jsight", "regex")]

    def object_schema(self, owner, allow_allof=True, nprops=None, want_ref=None):
        """object with 0..3 properties; property names are unique project-wide so that
        inheritance (allOf) never overrides anything"""
        r = self.r
        refs, enums, props, allof = [], [], [], []
        cand = self.referable()
        head_rule = ""
        if allow_allof and self.objs and r.random() < 0.45:
            # prefer the most recent object type: builds chains
            base = self.objs[-1] if r.random() < 0.6 else r.choice(self.objs)
            if base != owner:
                allof.append(base)
                refs.append(base)
                if len(self.objs) > 1 and r.random() < 0.2:
                    b2 = r.choice([o for o in self.objs if o != base and o != owner] or [base])
                    if b2 != base and not (self._ancestors(b2) & self._ancestors(base)):
                        allof.append(b2)
                        refs.append(b2)
                if len(allof) == 1 and r.random() < 0.6:
                    head_rule = ' // {allOf: "%s"}' % allof[0]
                else:
                    head_rule = " // {allOf: [%s]}" % ", ".join('"%s"' % a for a in allof)
        n = r.choice([0, 1, 1, 2, 2, 3]) if nprops is None else nprops
        lines = []
        for i in range(n):
            pname = "%s_%s%d" % (owner.lstrip("@").replace("-", "_"), r.choice("abcxyz"), i)
            if r.random() < 0.1:
                pname = pname + r.choice([" sp", "-d", ".dot"])
            props.append(pname)
            rules = []
            note = ""
            form = r.random()
            want = want_ref if (want_ref and i == 0) else None
            if want or (cand and form < 0.35):
                t = want or (self.objs[-1] if (self.objs and r.random() < 0.5) else r.choice(cand))
                val = t
                refs.append(t)
            elif cand and form < 0.45:
                t = r.choice(cand)
                val = "[%s]" % t
                refs.append(t)
            elif len(cand) > 1 and form < 0.52:
                a, b = r.sample(cand, 2)
                val = "%s | %s" % (a, b)
                refs += [a, b]
            elif self.scalars and form < 0.62:
                t = r.choice(self.scalars)
                val = self.type_by_name(t).example
                rules.append('type: "%s"' % t)
                refs.append(t)
            elif self.m.enums and form < 0.75:
                e = r.choice(self.m.enums)
                val = json.dumps(e.values[0])
                rules.append("enum: %s" % e.name)
                enums.append(e.name)
            else:
                val, _ = self.scalar_literal()
                if r.random() < 0.2:
                    note = " " + self.note()
            if r.random() < 0.25:
                rules.append("optional: true")
            tail = ""
            if rules:
                tail = " // {%s}" % ", ".join(rules)
                if note:
                    tail += " -" + note
            elif note:
                tail = " //" + note
            comma = "," if i < n - 1 else ""
            if val.startswith("[") and tail:
                # a rule of an array is written after its opening bracket
                lines.append('  %s: [%s' % (json.dumps(pname), tail))
                lines.append('    %s' % val[1:-1])
                lines.append('  ]%s' % comma)
            else:
                lines.append('  %s: %s%s%s' % (json.dumps(pname), val, comma, tail))
        if not lines and not head_rule and r.random() < 0.5:
            text = "{}"
        else:
            text = "\n".join(["{" + head_rule] + lines + ["}"])
        return Schema(text, "jsight", _dedup(refs), _dedup(enums), ["object", "object"], allof, props)

    def _ancestors(self, a):
        """a and everything it inherits from"""
        seen = set()
        todo = [a]
        while todo:
            x = todo.pop()
            if x in seen:
                continue
            seen.add(x)
            t = self.type_by_name(x)
            if t:
                todo += t.allof
        return seen

    def _inherits(self, a, b):
        """does type a inherit (transitively) from b"""
        seen = set()
        todo = [a]
        while todo:
            x = todo.pop()
            if x in seen:
                continue
            seen.add(x)
            t = self.type_by_name(x)
            if t:
                if b in t.allof:
                    return True
                todo += t.allof
        return False

    def any_schema(self, owner, forms=None):
        """one of the schema forms for bodies, params, results and type bodies"""
        r = self.r
        cand = self.referable()
        forms = forms or ["object", "object", "array", "scalar", "ref", "or", "object"]
        f = r.choice(forms)
        if f == "array" and cand:
            t = r.choice(cand)
            return Schema("[%s]" % t, "jsight", [t], [], ["array", "array"])
        if f == "ref" and cand:
            t = self.objs[-1] if (self.objs and r.random() < 0.5) else r.choice(cand)
            return Schema(t, "jsight", [t], [], ["reference", t])
        if f == "or" and len(cand) > 1:
            a, b = r.sample(cand, 2)
            return Schema("%s | %s" % (a, b), "jsight", [a, b], [], ["reference", "mixed"])
        if f == "scalar":
            v, top = self.scalar_literal()
            if r.random() < 0.3:
                v += " // " + self.note()
            return Schema(v, "jsight", [], [], top)
        if f == "litarray":
            return Schema(r.choice(["[1, 2]", "[]", "[\"a\"]"]), "jsight", [], [], ["array", "array"])
        return self.object_schema(owner)

    def object_like(self, owner):
        """object or reference to an object type (Headers, Query)"""
        if self.objs and self.chance(0.4):
            t = self.r.choice(self.objs)
            return Schema(t, "jsight", [t], [], ["reference", t])
        return self.object_schema(owner, nprops=self.r.choice([1, 1, 2]))

    # -- declarations -------------------------------------------------------------------
    def make_type(self):
        r = self.r
        name = self.fresh("@", ["pet", "user", "err", "id", "page", "cat", "dog", "base", "item", "order"])
        ann = self.annotation(0.4)
        f = r.random()
        t = None
        if f < 0.12:
            lit = json.dumps(r.choice(["abc", "S-1", "x y", "val"]))
            t = UserType(name, ann, "jsight", lit, [], [], ["string", "string"], example=lit)
            self.scalars.append(name)
            self.pscalars.append(name)
        elif f < 0.18:
            lit = str(r.choice([1, 42, 7]))
            t = UserType(name, ann, "jsight", lit, [], [], ["number", "integer"], example=lit)
            self.pscalars.append(name)
        elif f < 0.26:
            t = UserType(name, ann, "regex", r.choice(_REGEXES))
        elif f < 0.30 and self.opts.get("any_types", True):
            t = UserType(name, ann, r.choice(["any", "empty"]), None)
        elif f < 0.80 or not self.referable():
            s = self.object_schema(name)
            t = UserType(name, ann, "jsight", s.text, s.refs, s.enums, s.top, s.allof, s.props)
        else:
            s = self.any_schema(name, ["array", "ref", "or", "scalar", "litarray"])
            t = UserType(name, ann, "jsight", s.text, s.refs, s.enums, s.top, s.allof, s.props)
        self.m.types.append(t)
        if t.top == ["object", "object"]:
            self.objs.append(name)
        return t

    def make_enum(self):
        r = self.r
        name = self.fresh("@", ["kind", "size", "status", "color", "E"])
        pool = r.choice([["A", "B", "C"], ["S", "M", "L", "XL"], ["on", "off"], ["x y", "q\"q"], [1, 2, 3],
                         ["a", 1, True, None]])
        vals = pool[:r.randint(1, len(pool))]
        self.m.enums.append(Enum(name, self.annotation(0.4), list(vals)))

    def make_tag(self):
        name = self.fresh("@", ["pets", "users", "orders", "api", "admin", "a__b", "x-y", "misc", "core"])
        self.m.tags.append(Tag(name, self.annotation(0.6), self.description(0.4)))

    def make_server(self):
        name = self.fresh("@", ["prod", "test", "dev", "local", "s"])
        url = self.r.choice(["https://example.com/api", "http://localhost:8080", "https://{env}.x.io/v1",
                             "ws://h", "/relative", "https://a.b/c d"])
        self.m.servers.append(Server(name, self.annotation(0.5), url))

    def make_info(self):
        r = self.r
        i = Info()
        while i.title is None and i.version is None and i.description is None:
            i.title = r.choice(["Pets API", "T", "My \"quoted\" API", "x#y", "Über"]) if r.random() < 0.7 else None
            i.version = r.choice(["1.0", "0.3", "v2", "1", "2.0 beta"]) if r.random() < 0.7 else None
            i.description = self.description(0.4)
        toks = [k for k in ("title", "version", "description") if getattr(i, k) is not None]
        if r.random() < 0.5:
            r.shuffle(toks)
            i.child_order = toks
        self.m.info = i

    # -- paths --------------------------------------------------------------------------
    def gen_path(self, base=None, extend_only=False):
        """a path that keeps the project free of "similar" paths: after one literal prefix only
        one parameter name is ever used"""
        r = self.r
        segs = list(base) if base else []
        if not base and self.known_paths and r.random() < 0.55:
            # share a prefix with an existing path
            k = r.choice(self.known_paths)
            segs = list(k[:r.randint(1, len(k))])
        want = len(segs) + r.choice([1, 1, 2]) if (extend_only or segs) else r.choice([1, 1, 2, 2, 3])
        if not extend_only and segs and r.random() < 0.25:
            want = len(segs)
        while len(segs) < want:
            pre = tuple(segs)
            used = {s[1:-1] for s in segs if s.startswith("{")}
            if r.random() < 0.35:
                p = self.param_at.get(pre)
                if p is None:
                    free = [x for x in _PARAMS if x not in used]
                    if free:
                        p = r.choice(free)
                        self.param_at[pre] = p
                if p is not None and p not in used:
                    segs.append("{%s}" % p)
                    continue
            segs.append(r.choice(_SEGS))
        self.register_path(segs)
        return tuple(segs)

    def register_path(self, segs):
        for i, s in enumerate(segs):
            if s.startswith("{"):
                self.param_at.setdefault(tuple(segs[:i]), s[1:-1])
        t = tuple(segs)
        if t and t not in self.known_paths:
            self.known_paths.append(t)

    @staticmethod
    def pstr(segs):
        return "/" + "/".join(segs)

    def path_schema(self, segs, owner):
        """Path schema for some of the not yet described parameters of the path"""
        r = self.r
        free = []
        for i, s in enumerate(segs):
            if s.startswith("{") and tuple(segs[:i + 1]) not in self.path_defined:
                free.append((tuple(segs[:i + 1]), s[1:-1]))
        if not free or not self.chance(0.6):
            return None
        k = r.randint(1, len(free))
        chosen = r.sample(free, k)
        chosen.sort(key=lambda x: len(x[0]))
        if r.random() < 0.3:
            chosen.reverse()
        for pre, _ in chosen:
            self.path_defined.add(pre)
        lines = []
        refs = []
        props = []
        for j, (_, p) in enumerate(chosen):
            props.append(p)
            if self.pscalars and r.random() < 0.35:
                t = r.choice(self.pscalars)
                refs.append(t)
                if r.random() < 0.5:
                    val, tail = t, ""
                else:
                    val, tail = self.type_by_name(t).example, ' // {type: "%s"}' % t
            else:
                val, tail = r.choice(["1", "\"abc\"", "12", "\"x-1\""]), ""
                if r.random() < 0.3:
                    tail = " // " + self.note()
            lines.append("  %s: %s%s%s" % (json.dumps(p), val, "," if j < len(chosen) - 1 else "", tail))
        text = "\n".join(["{"] + lines + ["}"])
        s = Schema(text, "jsight", _dedup(refs), [], ["object", "object"], [], props)
        if not refs and r.random() < 0.2 and self.opts.get("path_type_refs", True):
            # the whole schema given by reference to a dedicated object type
            name = self.fresh("@", ["pathOf"])
            self.m.types.append(UserType(name, None, "jsight", text, [], [], ["object", "object"], [], props))
            self.late_types.append(len(self.m.types) - 1)
            s = Schema(name, "jsight", [name], [], ["reference", name], [], props)
        return s

    # -- interactions -------------------------------------------------------------------
    def body_of(self, x, owner, allow_regex=True):
        """fill notation/type/schema of a Request or Response"""
        r = self.r
        cand = self.referable()
        f = r.random()
        if f < 0.25 and cand:
            t = self.objs[-1] if (self.objs and r.random() < 0.4) else r.choice(cand)
            x.type = t if r.random() < 0.7 else "[%s]" % t
        elif f < 0.40:
            x.notation = r.choice(["any", "empty"])
        elif f < 0.50 and allow_regex:
            x.notation = "regex"
            x.schema = Schema(r.choice(_REGEXES), "regex")
        else:
            x.schema = self.any_schema(owner)
        x.body_as_child = r.random() < 0.4
        if r.random() < 0.3:
            x.headers = self.object_like(owner + "_h")
            x.headers_first = r.random() < 0.6
        return x

    def make_common(self):
        r = self.r
        for code, ann in [("404", "Not found"), ("500", None), ("401", "Unauthorized."), ("409", "Conflict")]:
            if r.random() < 0.7:
                x = Response(code, ann)
                self.body_of(x, "common" + code)
                x.headers = None
                self.common.append(x)

    def make_method(self, verb, segs, owner_tags_ok=True, in_url=False, bearing=None):
        r = self.r
        pid = (bearing or segs)
        owner = "m%d" % len(self.interactions)
        m = HttpMethod(verb, None if (in_url and bearing is None) else self.pstr(pid))
        m.annotation = self.annotation(0.5)
        m.description = self.description(0.3)
        if self.m.tags and r.random() < 0.35:
            m.tags = r.sample([t.name for t in self.m.tags], r.randint(1, min(3, len(self.m.tags))))
        if r.random() < 0.3:
            q = Query()
            q.format = r.choice([None, None, "htmlFormEncoded", "noFormat"])
            q.example = r.choice([None, "a=1&b=2", "q=x y", "page=1#top", "p"])
            q.format_first = r.random() < 0.3
            q.schema = self.object_like(owner + "_q")
            m.query = q
        if r.random() < (0.15 if verb in ("GET", "DELETE") else 0.6):
            m.request = self.body_of(Request(), owner + "_rq")
        codes = []
        for _ in range(r.choice([0, 1, 1, 2, 2, 3])):
            c = r.choice(["200", "201", "204", "301", "400", "403", "100", "599", "202"])
            if c in codes and r.random() < 0.5:
                continue        # (the other half: the same code twice in one method - responses are a list, not a map)
            codes.append(c)
            x = Response(c, self.annotation(0.4))
            m.responses.append(self.body_of(x, owner + "_" + c))
        if self.common and r.random() < 0.5:
            k = r.randint(1, len(self.common))
            for x in self.common[:k]:
                if x.code not in codes:
                    codes.append(x.code)
                    m.responses.append(x.copy())
        m.path_schema = self.path_schema(list(pid), owner + "_p")
        toks = m.tokens()
        if r.random() < 0.5:
            r.shuffle(toks)
            m.child_order = toks
        return m

    def free_verbs(self, segs):
        p = self.pstr(segs)
        return [v for v in HTTP_VERBS if (v, p) not in self.interactions]

    def take(self, verb, segs):
        self.interactions.add((verb, self.pstr(segs)))

    def make_block(self):
        r = self.r
        f = r.random()
        if f < 0.15:
            return self.make_rpc()
        if f < 0.55:
            # stand-alone method
            for _ in range(20):
                segs = self.gen_path() if r.random() < 0.92 else ()
                vs = self.free_verbs(segs)
                if vs:
                    v = r.choice(vs)
                    self.take(v, segs)
                    self.m.blocks.append(self.make_method(v, segs))
                    return
            return
        # URL block
        for _ in range(20):
            segs = self.gen_path()
            if self.pstr(segs) not in self.url_paths and self.free_verbs(segs):
                break
        else:
            return
        self.url_paths.add(self.pstr(segs))
        u = UrlBlock(self.pstr(segs))
        if self.m.tags and r.random() < 0.4:
            u.tags = r.sample([t.name for t in self.m.tags], r.randint(1, min(2, len(self.m.tags))))
        u.path_schema = self.path_schema(list(segs), "u%d" % len(self.url_paths))
        vs = self.free_verbs(segs)
        r.shuffle(vs)
        for v in vs[:r.choice([1, 1, 2, 2, 3])]:
            self.take(v, segs)
            u.methods.append(self.make_method(v, segs, in_url=True))
        # path-bearing methods written inside the URL
        for _ in range(r.choice([0, 0, 1, 2])):
            b = self.gen_path(base=segs, extend_only=True) if r.random() < 0.8 else self.gen_path()
            bv = self.free_verbs(b)
            if bv:
                v = r.choice(bv)
                self.take(v, b)
                u.methods.append(self.make_method(v, segs, in_url=True, bearing=b))
        toks = u.tokens()
        if r.random() < 0.3:
            head = [t for t in toks if not (t.startswith("m") and u.methods[int(t[1:])].path is not None)]
            tail = [t for t in toks if t not in head]
            r.shuffle(head)
            u.child_order = head + tail
        self.m.blocks.append(u)

    def make_rpc(self):
        r = self.r
        for _ in range(20):
            segs = self.gen_path()
            p = self.pstr(segs)
            if p not in self.url_paths:
                break
        else:
            return
        self.url_paths.add(p)
        u = RpcUrl(p)
        if self.opts.get("rpc_url_tags") and self.m.tags and r.random() < 0.5:
            u.tags = [r.choice(self.m.tags).name]
        for _ in range(r.choice([1, 2, 2, 3])):
            n = r.choice(["get", "create", "sum", "ping", "delete_all", "list.items", "x-y", "Get"]) + r.choice(["", "", "Cat", "2"])
            if ("rpc:" + n, p) in self.interactions:
                continue
            self.interactions.add(("rpc:" + n, p))
            m = RpcMethod(n, self.annotation(0.5), self.description(0.3))
            if self.m.tags and r.random() < 0.3:
                m.tags = r.sample([t.name for t in self.m.tags], r.randint(1, min(2, len(self.m.tags))))
            if r.random() < 0.75:
                m.params = self.any_schema("rp" + n.replace(".", "_"), ["object", "litarray", "ref", "scalar", "array"])
            if r.random() < 0.75:
                m.result = self.any_schema("rr" + n.replace(".", "_"))
            toks = m.tokens()
            if r.random() < 0.4:
                r.shuffle(toks)
                m.child_order = toks
            u.methods.append(m)
        if u.methods:
            self.m.blocks.append(u)

    # -- whole model --------------------------------------------------------------------
    def run(self):
        r = self.r
        size = self.size
        self.late_types = []
        if r.random() < 0.7:
            self.make_info()
        # split the budget
        n_types = n_enums = n_tags = n_servers = n_blocks = 0
        for _ in range(size):
            f = r.random()
            if f < 0.34:
                n_types += 1
            elif f < 0.42:
                n_enums += 1
            elif f < 0.52:
                n_tags += 1
            elif f < 0.58:
                n_servers += 1
            else:
                n_blocks += 1
        if size >= 3 and n_blocks == 0:
            n_blocks = 1
        for _ in range(n_enums):
            self.make_enum()
        for _ in range(n_tags):
            self.make_tag()
        for _ in range(n_servers):
            self.make_server()
        for _ in range(n_types):
            self.make_type()
        self.make_common()
        for _ in range(n_blocks):
            self.make_block()
        m = self.m
        # declaration order of the types is independent of their dependency order
        idx = list(range(len(m.types)))
        r.shuffle(idx)
        m.types = [m.types[i] for i in idx]
        # layout: a random interleaving of everything
        units = [u for u in m.units() if u[0] != "info"]
        style = r.random()
        if style < 0.5:
            r.shuffle(units)
        elif style < 0.75:
            # blocks first, declarations last (everything used before it is declared)
            units = [u for u in units if u[0] == "block"] + [u for u in units if u[0] != "block"]
        m.order = units
        return m


def _dedup(xs):
    out = []
    for x in xs:
        if x not in out:
            out.append(x)
    return out


def random_model(rng, size, **opts):
    """an ACCEPTED document by construction.  size ~ number of top-level declarations (1..40).
    opts: rpc_url_tags=True also produces `Tags` directly under a JSON-RPC URL (rejected by the
    library: see the report), any_types=False leaves out `TYPE @x any`."""
    return _Gen(rng, size, opts).run()
