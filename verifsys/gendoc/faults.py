"""Fault injection (C11): exactly one static fault is put into an accepted document.

inject(model_or_project, kind, position, via, rng, plan=None) -> (files, expectation)

  kind      one of KINDS below
  position  an integer choosing among the eligible sites / variants of that fault
  via       "direct"   the offending directive is written in place
            "paste"    it is the body of a MACRO, a PASTE stands in its place
            "include"  it is alone in a file, an INCLUDE stands in its place
  files     {file name: bytes} rendered under `plan` (default canonical)
  expectation = {"rejected": True,
                 "span":  (file, begin, end) of the offending directive (its whole subtree),
                 "spans": every span at which the diagnostic may legitimately be located (for a
                          duplicate: both declarations; through PASTE: also the PASTE directive;
                          through INCLUDE: also the INCLUDE line),
                 "kind", "via", "desc"}

NotApplicable is raised when the combination does not exist in the language (a TAG cannot be
pasted: MACRO does not admit it; JSIGHT cannot be included; ...).
"""
from .model import Node, Project, ApiModel, ALLOWED
from .render import lower as _lower, render as _render, canonical_plan as _canonical_plan

SINGLETONS = ["Title", "Version", "Description", "Query", "Path", "Protocol", "request-Body", "response-Body",
              "Headers"]
MISSING = ["JSIGHT", "Title", "Version", "SERVER", "BaseUrl", "TYPE", "ENUM", "MACRO", "PASTE", "INCLUDE", "Protocol",
           "Method", "TAG", "Tags", "URL", "HTTP"]
KINDS = (["dup-type", "dup-enum", "dup-macro", "dup-server", "dup-tag", "dup-method", "dup-url", "similar-path"] +
         ["second-" + s for s in SINGLETONS] + ["missing-param-" + k for k in MISSING] +
         ["undef-type", "undef-enum", "undef-macro", "undef-tag"])
VIAS = ["direct", "paste", "include"]


class NotApplicable(Exception):
    pass


def _n(kind, keyword=None, params=None, body=None, body_kind=None, children=None, annotation=None, **kw):
    return Node(kind, keyword or kind, list(params or []), annotation, body, body_kind, list(children or []),
                unit="fault", **kw)


def _any_resp(code="200"):
    return _n("RESP", code, ["any"])


class _Inj:
    def __init__(self, project, position, via, rng):
        self.p = project
        self.pos = position
        self.via = via
        self.rng = rng
        self.root = project.files[project.root]
        self.marks = []      # nodes whose spans are acceptable locations
        self.primary = None
        self.desc = ""

    # -- placing ----------------------------------------------------------------------
    def root_index(self):
        """an insertion index at the top level (never before JSIGHT; never between a URL and
        the path-bearing methods drawn inside it)"""
        ok = [i for i in range(1, len(self.root) + 1) if not (i < len(self.root) and self.root[i].hint)]
        return ok[self.pos % len(ok)]

    def wrap(self, fault, ctx_kind):
        """the node(s) to write in place of `fault` according to `via`; registers the marks"""
        self.primary = fault
        self.marks.append(fault)
        if self.via == "direct":
            return fault
        if self.via == "paste":
            if fault.kind not in ALLOWED["MACRO"]:
                raise NotApplicable("MACRO does not admit " + fault.kind)
            if ctx_kind is not None and "PASTE" not in ALLOWED.get(ctx_kind, ()):
                raise NotApplicable(ctx_kind + " does not admit PASTE")
            if fault.kind == "HTTP" and fault.params and ctx_kind == "URL":
                raise NotApplicable("n/a")
            name = "@fault_m"
            mac = _n("MACRO", params=[name], children=[fault], force_parens=True)
            self.root.append(mac)
            paste = _n("PASTE", params=[name])
            self.marks.append(paste)
            return paste
        if self.via == "include":
            if fault.kind == "JSIGHT":
                raise NotApplicable("JSIGHT is not allowed in an included file")
            fn = "fault_inc.jst"
            self.p.files[fn] = [fault]
            inc = _n("INCLUDE", params=[fn])
            self.marks.append(inc)
            return inc
        raise ValueError(self.via)

    def at_root(self, fault, index=None):
        i = self.root_index() if index is None else index
        w = self.wrap(fault, None)
        self.root.insert(i, w)

    def as_child(self, parent, fault, index=None):
        if self.via == "include" and self._in_parens(parent):
            raise NotApplicable("INCLUDE inside explicit parentheses")
        w = self.wrap(fault, parent.kind)
        if self.via == "include":
            for a in self._ancestors(parent) + [parent]:
                a.no_parens = True
        parent.children.insert(len(parent.children) if index is None else index, w)

    def _ancestors(self, node):
        def rec(lst, anc):
            for d in lst:
                if d is node:
                    return anc
                r = rec(d.children, anc + [d])
                if r is not None:
                    return r
            return None
        for fn, tops in self.p.files.items():
            r = rec(tops, [])
            if r is not None:
                return r
        return []

    def _in_parens(self, node):
        return node.force_parens or any(a.force_parens for a in self._ancestors(node))

    def find(self, pred):
        return [d for fn, d in self.p.nodes() if pred(d)]

    def choose(self, xs):
        return xs[self.pos % len(xs)]

    # -- making sure something exists -----------------------------------------------------
    def ensure(self, kind):
        """a node of the kind (adding a minimal valid construct when the document has none)"""
        have = self.find(lambda d: d.kind == kind and d.unit != "fault")
        if have:
            return self.choose(have)
        if kind == "TYPE":
            n = _n("TYPE", params=["@faultBase"], body='"base"', body_kind="schema")
        elif kind == "ENUM":
            n = _n("ENUM", params=["@faultEnum"], body='["a"]', body_kind="enum")
        elif kind == "SERVER":
            n = _n("SERVER", params=["@faultSrv"], children=[_n("BaseUrl", params=["http://f"])])
        elif kind == "TAG":
            n = _n("TAG", params=["@faultTag"])
        elif kind == "MACRO":
            n = _n("MACRO", params=["@faultMac"], children=[_any_resp("418")], force_parens=True)
        elif kind == "INFO":
            n = _n("INFO", children=[_n("Title", params=["Fault"])])
            self.root.insert(1, n)
            return n
        elif kind == "HTTP":
            n = _n("HTTP", "GET", ["/fault-base/x"], children=[_any_resp()])
        elif kind == "URL":
            n = _n("URL", params=["/fault-url"], children=[_n("HTTP", "GET", children=[_any_resp()])])
        elif kind == "RPCURL":
            n = _n("URL", params=["/fault-rpc"], children=[
                _n("Protocol", params=["json-rpc-2.0"]),
                _n("Method", params=["f"], children=[_n("Result", body="1", body_kind="schema")])])
        else:
            raise ValueError(kind)
        self.root.append(n)
        return n

    def path_of(self, d):
        """path of a URL/HTTP node"""
        if d.params:
            return d.params[0]
        for a in reversed(self._ancestors(d)):
            if a.kind == "URL" and a.params:
                return a.params[0]
        return None


def _faults(j: _Inj, kind):
    rng = j.rng
    if kind in ("dup-type", "dup-enum", "dup-server", "dup-tag", "dup-macro"):
        k = {"dup-type": "TYPE", "dup-enum": "ENUM", "dup-server": "SERVER", "dup-tag": "TAG", "dup-macro": "MACRO"}[kind]
        orig = j.ensure(k)
        name = orig.params[0]
        if k == "TYPE":
            # even positions: a verbatim copy; odd positions: a different body (the library lets
            # the later definition win while types are compiled, so a user of the first
            # definition may be blamed instead: reported by selftest as "located elsewhere")
            if j.pos % 2 == 0:
                f = _n("TYPE", params=list(orig.params), body=orig.body, body_kind=orig.body_kind)
            else:
                f = _n("TYPE", params=[name], body='"dup"', body_kind="schema")
        elif k == "ENUM":
            f = _n("ENUM", params=[name], body='["dup"]', body_kind="enum")
        elif k == "SERVER":
            f = _n("SERVER", params=[name], children=[_n("BaseUrl", params=["http://dup"])])
        elif k == "TAG":
            f = _n("TAG", params=[name])
        else:
            f = _n("MACRO", params=[name], children=[_any_resp("419")], force_parens=True)
        j.marks.append(orig)
        j.at_root(f)
        j.desc = "second %s %s" % (k, name)
    elif kind == "dup-method":
        orig = j.choose(j.find(lambda d: d.kind == "HTTP" and d.unit != "fault") or [j.ensure("HTTP")])
        anc = j._ancestors(orig)
        j.marks.append(orig)
        if not orig.params and anc and anc[-1].kind == "URL" and (j.pos // 7) % 2 == 0:
            # same verb again inside the same URL, directly after the original
            f = _n("HTTP", orig.keyword, children=[_any_resp()])
            url = anc[-1]
            j.as_child(url, f, url.children.index(orig) + 1)
            if orig.force_parens:
                orig.force_parens = False
                f.force_parens = True
            j.desc = "second %s inside URL %s" % (orig.keyword, url.params[0])
        else:
            f = _n("HTTP", orig.keyword, [j.path_of(orig)], children=[_any_resp()])
            j.at_root(f)
            j.desc = "second %s %s" % (orig.keyword, f.params[0])
    elif kind == "dup-url":
        orig = j.choose(j.find(lambda d: d.kind == "URL" and d.unit != "fault") or [j.ensure("URL")])
        j.marks.append(orig)
        f = _n("URL", params=[orig.params[0]])
        j.at_root(f)
        j.desc = "second URL %s" % orig.params[0]
    elif kind == "similar-path":
        withp = j.find(lambda d: d.kind in ("URL", "HTTP") and d.params and "{" in d.params[0] and d.unit != "fault")
        if not withp:
            b = _n("HTTP", "GET", ["/fault-sim/{a}"], children=[_any_resp()])
            j.root.append(b)
            withp = [b]
        orig = j.choose(withp)
        segs = orig.params[0].strip("/").split("/")
        idx = [i for i, s in enumerate(segs) if s.startswith("{")]
        i = idx[(j.pos // 3) % len(idx)]
        prefix = segs[:i]
        newp = "/" + "/".join(prefix + ["{zz_other}"])
        # every directive whose path has a parameter at that place is a legitimate location
        for d in j.find(lambda d: d.kind in ("URL", "HTTP") and d.params):
            s2 = d.params[0].strip("/").split("/")
            if s2[:i] == prefix and len(s2) > i and s2[i].startswith("{"):
                j.marks.append(d)
        f = _n("HTTP", "GET", [newp], children=[_any_resp()])
        j.at_root(f)
        j.desc = "GET %s next to %s" % (newp, orig.params[0])
    elif kind.startswith("second-"):
        s = kind[len("second-"):]
        if s in ("Title", "Version"):
            info = j.ensure("INFO")
            have = [c for c in info.children if c.kind == s]
            if not have:
                first = _n(s, params=["1.0"])
                info.children.append(first)
                have = [first]
            j.marks.append(have[0])
            j.as_child(info, _n(s, params=["2.0"]), (j.pos % (len(info.children) + 1)))
            j.desc = "second %s in INFO" % s
        elif s == "Description":
            parents = j.find(lambda d: d.kind in ("INFO", "HTTP", "TAG", "Method") and d.unit != "fault")
            if j.via == "paste":
                parents = [d for d in parents if d.kind in ("INFO", "HTTP")]
            if not parents:
                parents = [j.ensure("HTTP")]
            par = j.choose(parents)
            have = [c for c in par.children if c.kind == "Description"]
            if not have:
                first = _n("Description", body="first text", body_kind="text")
                par.children.insert(0, first)
                have = [first]
            j.marks.append(have[0])
            f = _n("Description", body="second text", body_kind="text")
            j.as_child(par, f, par.children.index(have[0]) + ((j.pos // 5) % 2))
            j.desc = "second Description in %s" % par.keyword
        elif s in ("Query", "Path"):
            if s == "Query":
                parents = j.find(lambda d: d.kind == "HTTP" and d.unit != "fault") or [j.ensure("HTTP")]
            else:
                parents = j.find(lambda d: d.kind in ("HTTP", "URL") and any(c.kind == "Path" for c in d.children))
                if not parents:
                    b = _n("HTTP", "GET", ["/fault-p/{fp}"], children=[
                        _n("Path", body='{\n  "fp": 1\n}', body_kind="schema"), _any_resp()])
                    j.root.append(b)
                    parents = [b]
            par = j.choose(parents)
            have = [c for c in par.children if c.kind == s]
            if not have:
                first = _n("Query", body='{\n  "q1": 1\n}', body_kind="schema")
                par.children.insert(0, first)
                have = [first]
            j.marks.append(have[0])
            f = _n(s, body=have[0].body if s == "Path" else '{\n  "q2": 2\n}', body_kind="schema")
            j.as_child(par, f, par.children.index(have[0]) + 1)
            j.desc = "second %s in %s" % (s, par.keyword)
        elif s == "Protocol":
            urls = j.find(lambda d: d.kind == "URL" and any(c.kind == "Protocol" for c in d.children)) or [j.ensure("RPCURL")]
            par = j.choose(urls)
            first = [c for c in par.children if c.kind == "Protocol"][0]
            j.marks.append(first)
            j.as_child(par, _n("Protocol", params=["json-rpc-2.0"]), par.children.index(first) + 1)
            j.desc = "second Protocol in URL %s" % par.params[0]
        elif s in ("request-Body", "response-Body", "Headers"):
            pk = {"request-Body": ("Request",), "response-Body": ("RESP",), "Headers": ("Request", "RESP")}[s]
            ck = "Headers" if s == "Headers" else "Body"
            parents = j.find(lambda d: d.kind in pk and any(c.kind == ck for c in d.children) and d.unit != "fault")
            if not parents:
                hd = _n("Headers", body='{\n  "h": "1"\n}', body_kind="schema")
                if pk[0] == "Request":
                    par = _n("Request", children=[hd, _n("Body", params=["any"])])
                    j.root.append(_n("HTTP", "POST", ["/fault-rb/x"], children=[par, _any_resp()]))
                else:
                    par = _n("RESP", "299", children=[hd, _n("Body", params=["any"])])
                    j.root.append(_n("HTTP", "GET", ["/fault-rb/y"], children=[par]))
                parents = [par]
            par = j.choose(parents)
            first = [c for c in par.children if c.kind == ck][0]
            j.marks.append(first)
            if ck == "Headers":
                f = _n("Headers", body='{\n  "h2": "2"\n}', body_kind="schema")
            else:
                f = _n("Body", params=["empty"])
            j.as_child(par, f, (j.pos // 3) % (len(par.children) + 1))
            j.desc = "second %s in %s" % (ck, par.keyword)
        else:
            raise ValueError(kind)
    elif kind.startswith("missing-param-"):
        k = kind[len("missing-param-"):]
        if k == "JSIGHT":
            if j.via != "direct":
                raise NotApplicable("JSIGHT can only be written in the root file")
            j.root[0].params = []
            j.primary = j.root[0]
            j.marks.append(j.root[0])
        elif k in ("Title", "Version"):
            info = j.ensure("INFO")
            have = [c for c in info.children if c.kind == k]
            if have and not (have[0].unit == "fault"):
                i = info.children.index(have[0])
                del info.children[i]
                j.as_child(info, _n(k), i)
            else:
                for c in have:
                    info.children.remove(c)
                j.as_child(info, _n(k))
        elif k == "SERVER":
            j.at_root(_n("SERVER", children=[_n("BaseUrl", params=["http://f"])]))
        elif k == "BaseUrl":
            srv = _n("SERVER", params=["@faultSrv2"])
            j.root.insert(j.root_index(), srv)
            j.as_child(srv, _n("BaseUrl"))
        elif k == "TYPE":
            j.at_root(_n("TYPE", body='{\n  "a": 1\n}', body_kind="schema"))
        elif k == "ENUM":
            j.at_root(_n("ENUM", body='["a"]', body_kind="enum"))
        elif k == "MACRO":
            j.at_root(_n("MACRO", children=[_any_resp("418")], force_parens=True))
        elif k == "PASTE":
            if j.pos % 2 and j.find(lambda d: d.kind == "HTTP"):
                par = j.choose(j.find(lambda d: d.kind == "HTTP"))
                j.as_child(par, _n("PASTE"))
            else:
                j.at_root(_n("PASTE"), len(j.root))
        elif k == "INCLUDE":
            j.at_root(_n("INCLUDE"), len(j.root))
        elif k == "Protocol":
            u = _n("URL", params=["/fault-rpc2"], children=[
                _n("Method", params=["f"], children=[_n("Result", body="1", body_kind="schema")])])
            j.root.insert(j.root_index(), u)
            j.as_child(u, _n("Protocol"), 0)
        elif k == "Method":
            u = _n("URL", params=["/fault-rpc3"], children=[_n("Protocol", params=["json-rpc-2.0"])])
            j.root.insert(j.root_index(), u)
            j.as_child(u, _n("Method", children=[_n("Result", body="1", body_kind="schema")]))
        elif k == "TAG":
            j.at_root(_n("TAG"))
        elif k == "Tags":
            par = j.choose(j.find(lambda d: d.kind == "HTTP" and not any(c.kind == "Tags" for c in d.children)
                                  and d.unit != "fault") or [j.ensure("HTTP")])
            j.as_child(par, _n("Tags"), 0)
        elif k == "URL":
            j.at_root(_n("URL", children=[_n("HTTP", "GET", children=[_any_resp()])]))
        elif k == "HTTP":
            # directly after JSIGHT: anywhere else it could become a child of a preceding URL
            j.at_root(_n("HTTP", rng.choice(["GET", "POST", "PUT", "PATCH", "DELETE"]), children=[_any_resp()]), 1)
        else:
            raise ValueError(kind)
        j.desc = "%s without its required parameter" % k
    elif kind == "undef-type":
        v = j.pos % 4
        if v == 0:
            j.at_root(_n("HTTP", "GET", ["/fault-ut/a"], children=[_n("RESP", "200", ["@faultNope"])]))
        elif v == 1:
            j.at_root(_n("TYPE", params=["@faultUser"], body='{\n  "a": @faultNope\n}', body_kind="schema"))
        elif v == 2:
            par = j.choose(j.find(lambda d: d.kind == "HTTP" and d.unit != "fault") or [j.ensure("HTTP")])
            j.as_child(par, _n("RESP", "298", body="[@faultNope]", body_kind="schema"))
        else:
            j.at_root(_n("HTTP", "POST", ["/fault-ut/b"], children=[
                _n("Request", children=[_n("Body", params=["@faultNope"])])]))
        j.desc = "reference to the undefined type @faultNope (variant %d)" % v
    elif kind == "undef-enum":
        j.at_root(_n("TYPE", params=["@faultUser"], body='{\n  "a": "x" // {enum: @faultNope}\n}', body_kind="schema"))
        j.desc = "reference to the undefined enum @faultNope"
    elif kind == "undef-macro":
        if j.pos % 2 and j.find(lambda d: d.kind == "HTTP"):
            par = j.choose(j.find(lambda d: d.kind == "HTTP"))
            j.as_child(par, _n("PASTE", params=["@faultNope"]))
        else:
            j.at_root(_n("PASTE", params=["@faultNope"]), len(j.root))
        j.desc = "PASTE of the undefined macro @faultNope"
    elif kind == "undef-tag":
        if j.pos % 2:
            j.at_root(_n("URL", params=["/fault-tg"], children=[
                _n("Tags", params=["@faultNope"]), _n("HTTP", "GET", children=[_any_resp()])]))
        else:
            j.at_root(_n("HTTP", "GET", ["/fault-tg/x"], children=[_n("Tags", params=["@faultNope"]), _any_resp()]))
        j.desc = "Tags names the undefined tag @faultNope"
    else:
        raise ValueError(kind)


def inject(model_or_project, kind, position, via, rng, plan=None):
    proj = model_or_project.copy() if isinstance(model_or_project, Project) else _lower(model_or_project)
    j = _Inj(proj, position, via, rng)
    _faults(j, kind)
    proj.renumber()
    spans = {}
    files = _render(proj, plan or _canonical_plan(), spans)
    sp = []
    for n in j.marks:
        if n.uid in spans and spans[n.uid] not in sp:
            sp.append(spans[n.uid])
    exp = {"rejected": True, "span": spans.get(j.primary.uid), "spans": sp, "kind": kind, "via": via,
           "desc": j.desc, "position": position}
    return files, exp


def located(expectation, file, idx):
    """is (file, byte index) inside one of the acceptable spans"""
    for f, b, e in expectation["spans"]:
        if f == file and b <= idx <= e:
            return True
    return False
