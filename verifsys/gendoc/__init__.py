"""Test-document toolkit for the JSight API parser: abstract API models, rendering under a
trivia plan, the expected catalog, meaning-preserving rewrites and fault injection.

    from verifsys.gendoc import *
    m = random_model(random.Random(1), 12)          # an accepted document, by construction
    files = render(m, random_plan(rng))             # {"main.jst": b"..."}
    exp = catalog_of(m); act = skeleton(json_bytes); diff(exp, act)
    m2, desc = permute_blocks(m, perm); p, desc = cut_includes(lower(m), rng, 2); macroize(...)
    files, expectation = inject(m, "dup-type", 3, "paste", rng)

run `python3 -m verifsys.gendoc.selftest --n 300 --seed 1` from the verif directory.
"""
from .model import (ApiModel, Info, Server, UserType, Enum, Tag, UrlBlock, HttpMethod, RpcUrl, RpcMethod, Query,
                    Request, Response, Schema, Node, Project, random_model)
from .render import TriviaPlan, canonical_plan, random_plan, render, lower
from .expect import catalog_of, skeleton, diff, compare_modulo_order, order_of, entries
from .transform import (permute_blocks, permute_top, movable_groups, add_unused_macro, expected_permutation, add_fresh, remove_unreferenced, cut_includes,
                        splice_includes, macroize, inline_macros, parse_shape, intended_shape, ShapeError)
from .faults import inject, located, KINDS as FAULT_KINDS, VIAS as FAULT_VIAS, NotApplicable
