"""model -> directive forest (lower) -> bytes (render) under a TriviaPlan.

A TriviaPlan fixes everything about the surface of a document that is NOT meaning:
newline convention, indentation per nesting level, blank lines, line and block comments,
trailing whitespace, optional quoting of parameters, explicit parentheses around a
directive's body/children where they would nest there anyway, `// x` versus `/* x */`.
Local decisions (is there a comment before THIS directive) are drawn from
random.Random(plan.seed), so a plan is a small JSON value and rendering is deterministic.

Description text is content: it is written verbatim, LF separated, never indented.
"""
import random
from dataclasses import dataclass, field
from typing import Dict, List, Optional

from .model import (J, _reg, ApiModel, Node, Project, UrlBlock, HttpMethod, RpcUrl, Schema)

# kinds whose scanner state between the directive line and the body accepts '#' comments
COMMENT_BEFORE_BODY = {"Request", "RESP", "Query", "Headers", "Path", "Params", "Result", "ENUM"}
# kinds that may carry an annotation
ANNOTATED = {"SERVER", "TYPE", "ENUM", "TAG", "HTTP", "RESP", "Method"}


@_reg
@dataclass
class TriviaPlan(J):
    newline: str = "\n"                     # "\n" | "\r\n" | "\r"
    indents: List[str] = field(default_factory=lambda: ["", "  ", "    ", "      ", "        ", "          "])
    seed: int = 0
    top_blank: int = 1                      # blank lines before a top-level directive (canonical look)
    p_blank: float = 0.0                    # extra blank lines (0..3) before a directive
    p_blank_spaces: float = 0.0             # a blank line consists of spaces/tabs
    p_line_comment: float = 0.0             # '# ...' lines before a directive
    p_block_comment: float = 0.0            # '### ... ###' before a directive
    p_trailing_comment: float = 0.0         # '# ...' after directive line / body / parenthesis
    p_trailing_ws: float = 0.0
    p_quote: float = 0.0                    # quote a parameter that needs no quotes
    p_parens: float = 0.0                   # explicit ( ) around body/children
    p_block_annotation: float = 0.0         # /* x */ instead of // x
    p_wide_sep: float = 0.0                 # several blanks/tabs between parameters
    p_body_comment: float = 0.0             # comment line between directive line and body
    p_desc_parens: float = 0.0              # Description text in parentheses
    p_desc_blank: float = 0.0               # an empty line between the Description keyword line and the (bare) text
    final_newline: bool = True
    head_comment: bool = False              # comment before the first directive of a file
    risky: List[str] = field(default_factory=list)   # trivia known to break the library (see selftest)


def canonical_plan():
    return TriviaPlan()


def random_plan(rng):
    p = TriviaPlan()
    p.newline = rng.choice(["\n", "\n", "\r\n", "\r"])
    style = rng.random()
    if style < 0.4:
        unit = " " * rng.randint(0, 8)
        p.indents = [unit * i for i in range(7)]
    elif style < 0.6:
        p.indents = ["\t" * i for i in range(7)]
    elif style < 0.75:
        p.indents = [""] * 7
    else:
        p.indents = ["".join(rng.choice(" \t") for _ in range(rng.randint(0, 8))) for _ in range(7)]
    p.seed = rng.randrange(1 << 30)
    p.top_blank = rng.choice([0, 0, 1, 2])

    def pr(hi):
        return rng.choice([0.0, hi / 3, hi, hi])
    p.p_blank = pr(0.4)
    p.p_blank_spaces = pr(0.5)
    p.p_line_comment = pr(0.3)
    p.p_block_comment = pr(0.15)
    p.p_trailing_comment = pr(0.3)
    p.p_trailing_ws = pr(0.4)
    p.p_quote = pr(0.5)
    p.p_parens = pr(0.4)
    p.p_block_annotation = pr(0.5)
    p.p_wide_sep = pr(0.3)
    p.p_body_comment = pr(0.3)
    p.p_desc_blank = pr(0.4)
    p.p_desc_parens = pr(0.3)
    p.final_newline = rng.random() < 0.8
    p.head_comment = rng.random() < 0.3
    return p


# ---------------------------------------------------------------------------------------
# lowering


def _schema_body(s: Schema):
    return s.text, ("regex" if s.notation == "regex" else "schema")


def _desc(text, unit):
    return Node("Description", "Description", [], None, text, "text", unit=unit)


def _body_directive(kind, keyword, x, unit, annotation=None):
    """Request / response code with the four ways of giving the body"""
    n = Node(kind, keyword, [], annotation, unit=unit)
    # the body itself: parameters + optional body text
    params, body, bk = [], None, None
    if x.type:
        params = [x.type]
    elif x.notation in ("any", "empty"):
        params = [x.notation]
    elif x.notation == "regex":
        params = ["regex"]
        body, bk = x.schema.text, "regex"
    elif x.schema is not None:
        body, bk = x.schema.text, "schema"
    hd = None
    if x.headers is not None:
        hd = Node("Headers", "Headers", [], None, x.headers.text, "schema", unit=unit)
    if x.body_as_child:
        b = Node("Body", "Body", params, None, body, bk, unit=unit)
        n.children = ([hd, b] if x.headers_first else [b, hd]) if hd else [b]
    else:
        n.params, n.body, n.body_kind = params, body, bk
        if hd:
            n.children = [hd]
    return n


def _http_method(m: HttpMethod, unit, hint=0):
    n = Node("HTTP", m.verb, [m.path] if m.path else [], m.annotation, unit=unit, hint=hint)
    for t in m.tokens():
        if t == "description":
            n.children.append(_desc(m.description, unit))
        elif t == "tags":
            n.children.append(Node("Tags", "Tags", list(m.tags), unit=unit))
        elif t == "path":
            n.children.append(Node("Path", "Path", [], None, m.path_schema.text, "schema", unit=unit))
        elif t == "query":
            q = m.query
            ps = []
            if q.example is not None:
                ps.append(q.example)
            if q.format is not None:
                ps.insert(0, q.format) if q.format_first else ps.append(q.format)
            n.children.append(Node("Query", "Query", ps, None, q.schema.text, "schema", unit=unit))
        elif t == "request":
            n.children.append(_body_directive("Request", "Request", m.request, unit))
        else:
            r = m.responses[int(t[1:])]
            n.children.append(_body_directive("RESP", r.code, r, unit, r.annotation))
    return n


def enum_body(values):
    import json
    items = [json.dumps(v, ensure_ascii=False) for v in values]
    if len(items) <= 2:
        return "[" + ", ".join(items) + "]"
    return "[\n" + ",\n".join("  " + i for i in items) + "\n]"


def lower_unit(model: ApiModel, u) -> List[Node]:
    """the top-level nodes one unit of the model is written as"""
    k, i = u
    unit = "%s:%d" % (k, i)
    x = model.unit(u)
    if k == "info":
        n = Node("INFO", "INFO", unit=unit)
        order = x.child_order or ["title", "version", "description"]
        for t in order:
            if t == "title" and x.title is not None:
                n.children.append(Node("Title", "Title", [x.title], unit=unit))
            if t == "version" and x.version is not None:
                n.children.append(Node("Version", "Version", [x.version], unit=unit))
            if t == "description" and x.description is not None:
                n.children.append(_desc(x.description, unit))
        return [n]
    if k == "server":
        n = Node("SERVER", "SERVER", [x.name], x.annotation, unit=unit)
        n.children.append(Node("BaseUrl", "BaseUrl", [x.base_url], unit=unit))
        return [n]
    if k == "type":
        ps = [x.name] + ([x.notation] if x.notation != "jsight" else [])
        bk = None if x.body is None else ("regex" if x.notation == "regex" else "schema")
        return [Node("TYPE", "TYPE", ps, x.annotation, x.body, bk, unit=unit)]
    if k == "enum":
        return [Node("ENUM", "ENUM", [x.name], x.annotation, enum_body(x.values), "enum", unit=unit)]
    if k == "tag":
        n = Node("TAG", "TAG", [x.name], x.annotation, unit=unit)
        if x.description is not None:
            n.children.append(_desc(x.description, unit))
        return [n]
    # blocks
    if isinstance(x, HttpMethod):
        return [_http_method(x, unit)]
    if isinstance(x, UrlBlock):
        n = Node("URL", "URL", [x.path], unit=unit)
        out = [n]
        toks = x.tokens()
        for j, t in enumerate(toks):
            if t == "tags":
                n.children.append(Node("Tags", "Tags", list(x.tags), unit=unit))
            elif t == "path":
                n.children.append(Node("Path", "Path", [], None, x.path_schema.text, "schema", unit=unit))
            else:
                m = x.methods[int(t[1:])]
                if m.path is None:
                    c = _http_method(m, unit)
                    # a Tags/Path of the URL written after a method would nest into the method
                    if j + 1 < len(toks) and toks[j + 1] in ("tags", "path"):
                        c.force_parens = True
                    n.children.append(c)
                else:
                    # a method with a path leaves the URL: it is a top-level directive,
                    # merely drawn inside the URL
                    out.append(_http_method(m, unit, hint=1))
        return out
    if isinstance(x, RpcUrl):
        n = Node("URL", "URL", [x.path], unit=unit)
        if x.tags:
            n.children.append(Node("Tags", "Tags", list(x.tags), unit=unit))
        n.children.append(Node("Protocol", "Protocol", ["json-rpc-2.0"], unit=unit))
        for m in x.methods:
            c = Node("Method", "Method", [m.name], m.annotation, unit=unit)
            for t in m.tokens():
                if t == "description":
                    c.children.append(_desc(m.description, unit))
                elif t == "tags":
                    c.children.append(Node("Tags", "Tags", list(m.tags), unit=unit))
                elif t == "params":
                    c.children.append(Node("Params", "Params", [], None, m.params.text, "schema", unit=unit))
                else:
                    c.children.append(Node("Result", "Result", [], None, m.result.text, "schema", unit=unit))
            n.children.append(c)
        return [n]
    raise TypeError(x)


def lower(model: ApiModel) -> Project:
    nodes = [Node("JSIGHT", "JSIGHT", ["0.3"], unit="jsight:0")]
    for u in model.units():
        nodes += lower_unit(model, u)
    return Project({"main.jst": nodes}, "main.jst").renumber()


# ---------------------------------------------------------------------------------------
# rendering

# comment texts.  NOTE: a '#' inside a line comment is left out on purpose: the scanner treats
# the second '#' anywhere in a line comment as the start of a block comment (finding, see
# selftest probes); plan.risky = ["hash-in-line-comment"] puts them back.
_COMMENT_TEXTS = [" comment", " GET /x", " TYPE @a", " (", " )", " \"", " // x", " {", "-----",
                  " INCLUDE nothing.jst", " /* x */", " 200 any", "\ttab", " ünï"]
_COMMENT_TEXTS_HASH = [" issue #1", " a ### b", " see #1 and #2"]
_BLOCK_TEXTS = [" block ", "\nGET /x\n  200 any\n", " ( ", " # single hash inside ", "\n\n", " \" ' ", " ## two ",
                "\nTYPE @a\n{\n}\n", "x", " MACRO @m\n(\n"]


def needs_quotes(p):
    return p == "" or any(c in p for c in " \t\"#\r\n") or p.startswith("//") or p.startswith("/*")


def quote(p):
    return '"' + p.replace("\\", "\\\\").replace('"', '\\"') + '"'


class _Renderer:
    def __init__(self, plan, spans):
        self.p = plan
        self.r = random.Random(plan.seed)
        self.spans = spans
        self.buf = None
        self.file = None
        self.after_text = False     # the previous thing written is un-parenthesised Description text
        self.first = True
        self.same_line = False

    # -- primitives ---------------------------------------------------------------------
    def w(self, s):
        self.buf += s.encode("utf-8")

    def nl(self):
        self.w(self.p.newline)

    def ind(self, level):
        i = self.p.indents
        return i[min(level, len(i) - 1)]

    def chance(self, p):
        # always draw: the stream of decisions then does not depend on the probabilities
        return self.r.random() < p

    def ws(self):
        if self.chance(self.p.p_trailing_ws):
            self.w(self.r.choice([" ", "  ", "\t", " \t "]))

    def comment_text(self):
        if "hash-in-line-comment" in self.p.risky and self.r.random() < 0.3:
            return self.r.choice(_COMMENT_TEXTS_HASH)
        if "empty-line-comment" in self.p.risky and self.r.random() < 0.3:
            return ""
        return self.r.choice(_COMMENT_TEXTS)

    def trailing(self, comment_ok=True, need_space=True, multiline_ok=True):
        """optional whitespace and a '# comment' (or a '### block ###', possibly running over
        several lines) at the end of a line"""
        c = self.chance(self.p.p_trailing_comment)
        if c and comment_ok:
            sp = self.r.choice([" ", "  ", "\t"])
            if not need_space and self.r.random() < 0.15:
                sp = ""
            if self.r.random() < 0.25:
                t = self.r.choice(_BLOCK_TEXTS)
                if not multiline_ok:
                    t = t.replace("\n", " ")
                self.w(sp + "###" + t.replace("\n", self.p.newline) + "###")
                self.ws()
            else:
                self.w(sp + "#" + self.comment_text())
        else:
            self.ws()

    def pre_trivia(self, level, top):
        """blank lines and comments before a directive line"""
        p, r = self.p, self.r
        if top and not self.first:
            for _ in range(p.top_blank):
                self.nl()
        if self.chance(p.p_blank):
            for _ in range(r.randint(1, 3)):
                if self.chance(p.p_blank_spaces):
                    self.w(r.choice([" ", "   ", "\t", " \t"]))
                self.nl()
        lc = self.chance(p.p_line_comment)
        bc = self.chance(p.p_block_comment)
        if self.after_text or (self.first and not p.head_comment):
            return
        if lc:
            for _ in range(r.choice([1, 1, 2])):
                self.w(self.ind(level) if r.random() < 0.7 else "")
                self.w("#" + self.comment_text())
                self.nl()
        if bc:
            self.w(self.ind(level) if r.random() < 0.5 else "")
            self.w("###" + r.choice(_BLOCK_TEXTS).replace("\n", p.newline) + "###")
            if "block-comment-same-line" in p.risky and r.random() < 0.3:
                # the directive follows on the line the comment ends on: accepted, except after a
                # schema body (the schema lexeme swallows the comment; finding, see selftest probes)
                self.same_line = True
                self.w(r.choice([" ", "\t", ""]))
            else:
                self.ws()
                self.nl()

    def body_lines(self, text, level):
        lines = text.split("\n")
        for i, ln in enumerate(lines):
            if i:
                self.nl()
            self.w((self.ind(level) + ln) if ln else "")

    # -- a directive --------------------------------------------------------------------
    def node(self, n: Node, level, top=False):
        p, r = self.p, self.r
        level += n.hint
        self.same_line = False
        self.pre_trivia(level, top)
        self.first = False
        self.after_text = False
        if not self.same_line:
            self.w(self.ind(level))
        begin = len(self.buf)
        self.w(n.keyword)
        for prm in n.params:
            sep = " "
            if self.chance(p.p_wide_sep):
                sep = r.choice(["  ", "\t", "   ", " \t"])
            q = self.chance(p.p_quote)
            if n.kind == "INCLUDE" and "quote-include" not in p.risky:
                q = False       # INCLUDE "x.jst" is looked up with its quotes (finding, see selftest probes)
            self.w(sep + (quote(prm) if (needs_quotes(prm) or q) else prm))
        block_ann = False
        if n.annotation is not None:
            sep = " "
            if self.chance(p.p_wide_sep):
                sep = r.choice(["  ", "\t", "" if not n.params else " "])
            block_ann = self.chance(p.p_block_annotation) and "*/" not in n.annotation
            if block_ann:
                a = n.annotation
                if " " in a and r.random() < 0.3:
                    k = a.index(" ")
                    a = a[:k] + p.newline + self.ind(level + 1) + a[k + 1:]
                self.w(sep + "/*" + r.choice(["", " "]) + a + r.choice(["", " "]) + "*/")
            else:
                self.w(sep + "//" + r.choice(["", " ", "  "]) + n.annotation)
        end = len(self.buf)
        head_end = end
        # trailing comment: after a block annotation the scanner is already in the state
        # that follows the directive line, which does not accept comments for all kinds
        self.trailing(comment_ok=not block_ann, need_space=False, multiline_ok=n.annotation is None)
        self.nl()

        if n.body_kind == "text":
            if self.chance(p.p_desc_parens):
                self.w(self.ind(level) + "(")
                self.ws()
                self.nl()
                self.w(n.body)
                self.nl()
                self.w(self.ind(level) + ")")
                end = len(self.buf)
                self.trailing()
                self.nl()
            else:
                if self.chance(p.p_desc_blank):
                    self.nl()
                    if self.chance(0.3):
                        self.nl()
                self.w(n.body)
                end = len(self.buf)
                self.nl()
                self.after_text = True
            self.span(n, begin, end, head_end)
            return

        inside = n.body is not None or bool(n.children)
        parens = n.force_parens or (self.chance(p.p_parens) and inside and not n.no_parens)
        # '#' between the directive line and the body: read by the directive's own scanner state
        # for these kinds, by the schema language for every jsight schema; a regex body of TYPE
        # or Body must start with '/'
        cfriendly = n.body is None or n.kind in COMMENT_BEFORE_BODY or n.body_kind == "schema"
        if parens:
            self.w(self.ind(level) + "(")
            self.trailing(comment_ok=cfriendly, need_space=False)
            self.nl()
        if n.body is not None:
            if self.chance(p.p_body_comment) and cfriendly:
                self.w(self.ind(level + 1) + "#" + self.comment_text())
                self.nl()
            self.body_lines(n.body, level + 1)
            end = len(self.buf)
            # after a schema note (// ...) a '#' starts a LINE comment of the schema language
            self.trailing(comment_ok=True, need_space=True, multiline_ok="//" not in n.body.split("\n")[-1])
            self.nl()
        for c in n.children:
            self.node(c, level + 1)
            end = max(end, self.spans_end.get(c.uid, end))
        if parens:
            if self.after_text:
                pass    # the ')' on its own line ends the text
            self.after_text = False
            self.w(self.ind(level) + ")")
            end = len(self.buf)
            self.trailing(comment_ok=True, need_space=False)
            self.nl()
        self.span(n, begin, end, head_end)

    def span(self, n, begin, end, head_end):
        self.spans_end[n.uid] = end
        if self.spans is not None:
            self.spans[n.uid] = (self.file, begin, end)
            self.spans[("head", n.uid)] = (self.file, begin, head_end)

    def render_file(self, name, nodes):
        self.buf = bytearray()
        self.file = name
        self.after_text = False
        self.first = True
        self.spans_end = {}
        for n in nodes:
            self.node(n, 0, top=True)
        if not self.p.final_newline:
            nlb = self.p.newline.encode()
            if self.buf.endswith(nlb):
                del self.buf[-len(nlb):]
        return bytes(self.buf)


def render(model_or_project, plan: Optional[TriviaPlan] = None, spans: Optional[dict] = None) -> Dict[str, bytes]:
    """file name -> bytes, root file first ("main.jst").  When `spans` (a dict) is given it
    receives uid -> (file, begin, end) of every directive (keyword .. end of its subtree) and
    ("head", uid) -> span of the directive line."""
    plan = plan or canonical_plan()
    proj = model_or_project if isinstance(model_or_project, Project) else lower(model_or_project)
    r = _Renderer(plan, spans)
    out = {}
    names = [proj.root] + [f for f in proj.files if f != proj.root]
    for fn in names:
        out[fn] = r.render_file(fn, proj.files[fn])
    return out
