"""Self test of the document toolkit against the implementation.

    cd <verif> && python3 -m verifsys.gendoc.selftest --n 300 --seed 1 [--save DIR] [-v]

For every generated model it renders, rewrites and runs the harness, and reports
  - acceptance rate of the un-faulted models (must be 100%)
  - diff(catalog_of(m), skeleton(json)) mismatches
  - candidate findings per property:
      C03  the same bytes processed twice give different JSON
      C05  two trivia plans of one model give different verdict/JSON (blamed on a plan feature)
      C10  a permutation of the top-level units changes more than the order
      C20  adding/removing an independent declaration changes another entry
      C08  cutting into INCLUDEd files changes verdict/JSON
      C07  MACRO/PASTE-ization changes verdict/JSON
      C11  an injected fault is accepted, panics, or is diagnosed outside the allowed spans
  - generator self checks (the forest the library's context rules would build from what we
    wrote equals the forest we meant; inline_macros inverts macroize; replay round trip)
  - the input distribution.
Differences confined to "example" members of documents that embed a regex user type are
counted separately: the example generator of a regex type is stateful (see probes).
"""
import argparse
import collections
import json
import os
import random
import sys
import time

from .. import common as C
from .. import proj as PJ
from .model import ApiModel, Project, UrlBlock, HttpMethod, RpcUrl, random_model
from .render import TriviaPlan, canonical_plan, random_plan, render, lower
from . import expect as E
from . import transform as T
from . import faults as F

PLAN_FEATURES = ["newline", "indents", "p_blank", "p_line_comment", "p_block_comment", "p_trailing_comment",
                 "p_trailing_ws", "p_quote", "p_parens", "p_block_annotation", "p_wide_sep", "p_body_comment", "p_desc_blank",
                 "p_desc_parens", "final_newline", "head_comment", "top_blank"]


def strip_examples(b):
    def rec(o):
        if isinstance(o, dict):
            return {k: rec(v) for k, v in o.items() if k != "example"}
        if isinstance(o, list):
            return [rec(x) for x in o]
        return o
    return json.dumps(rec(json.loads(b)), sort_keys=False)


def embeds_regex_type(m: ApiModel):
    rx = {t.name for t in m.types if t.notation == "regex"}
    return bool(rx & m.referenced_types())


class Job:
    __slots__ = ("case", "label", "files", "meta", "out", "status", "d")

    def __init__(self, case, label, files, meta=None):
        self.case, self.label, self.files, self.meta = case, label, files, meta or {}
        self.out = self.status = self.d = None

    @property
    def json(self):
        return C.unhx(self.d["json"]) if self.status == "ok" else None

    def err(self):
        if self.status != "err":
            return self.status
        return "%s @%s:%s line %s" % (C.unhx(self.d["msg"]).decode("utf-8", "replace"),
                                      C.unhx(self.d["file"]).decode(), self.d["idx"], self.d["line"])

    def text(self, limit=6000):
        out = []
        for fn, c in self.files.items():
            t = c.decode("utf-8", "replace").replace("\r\n", "␍\n").replace("\r", "␍\n")
            out.append("--- %s\n%s" % (fn, t))
        s = "\n".join(out)
        if len(s) <= limit:
            return s
        tail = ""
        if self.status == "err":
            # keep the neighbourhood of the diagnostic: the classification of a finding reads it
            try:
                fn, ln = C.unhx(self.d["file"]).decode(), int(self.d["line"])
                ls = self.files[fn].decode("utf-8", "replace").replace("\r\n", "␍\n").replace("\r", "␍\n").split("\n")
                tail = "\n... around the diagnostic (%s line %d):\n%s" % (fn, ln, "\n".join(ls[max(0, ln - 14):ln + 2]))
            except Exception:
                tail = ""
        return s[:limit] + "\n... (%d bytes)" % len(s) + tail


def run_jobs(jobs):
    lines = [PJ.run_line("-", list(j.files.items())) for j in jobs]
    outs = C.run_sharded("harness", "fn", lines)
    for j, o in zip(jobs, outs):
        j.out = o
        j.status, j.d = PJ.parse(o)


class Report:
    def __init__(self):
        self.findings = collections.OrderedDict()   # (prop, class) -> list of (size, seed, text)
        self.counts = collections.Counter()

    def add(self, prop, cls, seed, what, doc=""):
        k = (prop, cls)
        self.findings.setdefault(k, []).append((len(doc), seed, what, doc))

    def dump(self, verbose, limit=2):
        for (prop, cls), lst in self.findings.items():
            print("\n  [%s] %s  -- %d case(s), seeds %s" % (prop, cls, len(lst), sorted({s for _, s, _, _ in lst})[:12]))
            for _, seed, what, doc in sorted(lst, key=lambda x: x[0])[:limit if verbose else 1]:
                print("     seed %s: %s" % (seed, what.replace("\n", "\n       ")))
                if doc:
                    print("       " + doc.replace("\n", "\n       "))


def entry_diffs(rep, prop, m, a_json, b_json, **kw):
    """classified differences of two catalogs modulo order; "example"-only differences of
    documents that embed a regex user type are counted, not reported"""
    keep = []
    rx = embeds_regex_type(m)
    for d in E.compare_entries(a_json, b_json, **kw):
        if d["class"] == "example" and rx:
            rep.counts[prop + " \"example\"-only differences in documents embedding a regex type"] += 1
            if prop in ("C10", "C20"):
                # the example generated for a schema that embeds a regex user type depends on what was compiled before it:
                # a difference between two ORDERS / with and without a NEIGHBOUR is what these two properties forbid
                keep.append(dict(d, **{"class": "example-regex"}))
        elif d["class"] == "example+usedUserTypes" and rx:
            keep.append(dict(d, **{"class": "usedUserTypes"}))
        else:
            keep.append(d)
    return keep


def diff_label(ds):
    return "; ".join(sorted({"%s: %s" % (d["section"], d["class"] if d["what"] == "differs" else d["what"]) for d in ds}))


def compare_pair(rep, prop, cls_prefix, seed, base: Job, other: Job, m, what):
    """verdict and bytes of two runs that must agree"""
    if base.status != other.status:
        rep.add(prop, cls_prefix + ": verdict changes (%s -> %s)" % (base.status, other.status), seed,
                "%s\n%s" % (what, other.err() if other.status != "ok" else base.err()), other.text())
        return False
    if base.status != "ok":
        return True
    if base.json == other.json:
        return True
    ds = entry_diffs(rep, prop, m, base.json, other.json)
    oa, ob = E.order_of(base.json), E.order_of(other.json)
    od = ["order of %s: %s -> %s" % (s, oa[s], ob[s]) for s in oa if oa[s] != ob[s]]
    if not ds and not od:
        if strip_examples(base.json) == strip_examples(other.json):
            return True     # example-only, counted
        rep.add(prop, cls_prefix + ": JSON differs outside the sections", seed, what, other.text())
        return False
    label = "; ".join(x for x in [diff_label(ds), ("order of " + ",".join(s for s in oa if oa[s] != ob[s])) if od else ""] if x)
    rep.add(prop, cls_prefix + ": JSON differs (%s)" % label, seed, what + "\n" + "\n".join(([d["text"] for d in ds] + od)[:6]), other.text())
    return False


def histogram(c, width=40):
    tot = sum(c.values()) or 1
    return ", ".join("%s:%d" % (k, v) for k, v in sorted(c.items(), key=lambda kv: (-kv[1], str(kv[0]))))


def depth_of(nodes):
    return 0 if not nodes else 1 + max(depth_of(n.children) for n in nodes)


# ---------------------------------------------------------------------------------------
# probes: small fixed documents for things the generator deliberately keeps out of the
# main stream because they break (nearly) every document they touch

PROBES = [
    ("C05", "a second and third '#' inside a line comment open a block comment",
     "JSIGHT 0.3\n# issue #1 and issue #2\nGET /a\n", "ok"),
    ("C05", "an empty line comment after a schema swallows the next line",
     "JSIGHT 0.3\nTYPE @a\n{}\n#\nTYPE @b\n{}\nGET /x\n  200 @b\n", "ok"),
    ("C05", "a directive on the line a block comment ends on: fine after `200 any`, refused after a schema",
     ["JSIGHT 0.3\nGET /a\n  200 any\n###x### 404 any\n", "JSIGHT 0.3\nGET /a\n  200\n    {}\n###x### 404 any\n"], "same-status"),
    ("lang", "Tags directly under a JSON-RPC URL (catalog/setters.go getParentTagsDirective supports it)",
     "JSIGHT 0.3\nTAG @t\nURL /rpc\n  Tags @t\n  Protocol json-rpc-2.0\n  Method foo\n    Result\n      1\n", "ok"),
    ("C08", "INCLUDE inside explicit parentheses (excluded by the property; always rejected)",
     {"main.jst": "JSIGHT 0.3\nGET /a\n(\n  INCLUDE r.jst\n)\n", "r.jst": "200 any\n"}, "ok"),
    ("C05", "quoted INCLUDE file name", {"main.jst": "JSIGHT 0.3\nINCLUDE \"r.jst\"\n", "r.jst": "GET /a\n"}, "ok"),
    ("C11", "two Body directives in one response", "JSIGHT 0.3\nGET /a\n  200\n    Body any\n    Body empty\n", "err"),
    ("C11", "TYPE without a name next to a named type: the named type is blamed",
     "JSIGHT 0.3\nTYPE @a\n  {\"x\": 1}\nTYPE\n  {\"y\": 2}\n", "err@TYPE\n"),
    ("C11", "ENUM without a name", "JSIGHT 0.3\nENUM\n  [1]\n", "err"),
    ("C03", "example of a schema embedding a regex type differs from run to run",
     "JSIGHT 0.3\nTYPE @a\n  [@item]\nTYPE @b\n  [@item]\nTYPE @item regex\n  /[A-Z][a-z]*/\n", "same*12"),
    ("C07", "ENUM inside a MACRO moves to the front of userEnums",
     "JSIGHT 0.3\nENUM @a\n[1]\nPASTE @m\nMACRO @m\n(\nENUM @b\n[2]\n)\n", "order:userEnums=@a,@b"),
    ("C10", "usedUserTypes of a type with a two-level allOf chain depends on the declaration order",
     ["JSIGHT 0.3\nTYPE @a\n{ // {allOf: \"@b\"}\n  \"pa\": 1\n}\nTYPE @b\n{ // {allOf: \"@c\"}\n  \"pb\": 1\n}\nTYPE @c\n{\n  \"pc\": 1\n}\n",
      "JSIGHT 0.3\nTYPE @b\n{ // {allOf: \"@c\"}\n  \"pb\": 1\n}\nTYPE @a\n{ // {allOf: \"@b\"}\n  \"pa\": 1\n}\nTYPE @c\n{\n  \"pc\": 1\n}\n"],
     "same-entry:userTypes/@a"),
    ("C20", "a fresh type inheriting from @b changes the usedUserTypes of @a",
     ["JSIGHT 0.3\nTYPE @a\n{ // {allOf: \"@b\"}\n  \"pa\": 1\n}\nTYPE @b\n{ // {allOf: \"@c\"}\n  \"pb\": 1\n}\nTYPE @c\n{\n  \"pc\": 1\n}\n",
      "JSIGHT 0.3\nTYPE @f\n{ // {allOf: \"@b\"}\n  \"pf\": 1\n}\nTYPE @a\n{ // {allOf: \"@b\"}\n  \"pa\": 1\n}\nTYPE @b\n{ // {allOf: \"@c\"}\n  \"pb\": 1\n}\nTYPE @c\n{\n  \"pc\": 1\n}\n"],
     "same-entry:userTypes/@a"),
    ("C05", "two line comments silently remove the directives between them (accepted, GET /b is gone)",
     "JSIGHT 0.3\nGET /a\n  200 any\n# see #1 and #2\nGET /b\n  200 any\n# end ###\n", "contains:http GET /b"),
    ("C10", "allOf in JSON-RPC Params is not expanded (inherited properties missing)",
     "JSIGHT 0.3\nTYPE @b\n{\"x\": 1}\nURL /r\n  Protocol json-rpc-2.0\n  Method m\n    Params\n      { // {allOf: \"@b\"}\n      }\n",
     "contains:inheritedFrom"),
]


def run_probes():
    jobs = []
    for i, (prop, title, doc, want) in enumerate(PROBES):
        if isinstance(doc, list):
            for d in doc:
                jobs.append(Job(i, title, {"main.jst": d.encode()}))
            continue
        files = {k: v.encode() for k, v in doc.items()} if isinstance(doc, dict) else {"main.jst": doc.encode()}
        reps = 12 if want.startswith("same*") else 1
        for _ in range(reps):
            jobs.append(Job(i, title, files))
    run_jobs(jobs)
    out = []
    for i, (prop, title, doc, want) in enumerate(PROBES):
        js = [j for j in jobs if j.case == i]
        j = js[0]
        if want == "ok":
            good = j.status == "ok"
            got = "accepted" if good else "REJECTED: " + j.err()
        elif want == "err":
            good = j.status == "err"
            got = "rejected" if good else "ACCEPTED"
        elif want.startswith("err@"):
            quote = C.unhx(j.d.get("quote", "-")).decode("utf-8", "replace") if j.status == "err" else ""
            good = j.status == "err" and quote.strip() == want[4:].strip()
            got = ("rejected at %r: %s" % (quote, j.err())) if j.status == "err" else "ACCEPTED"
        elif want.startswith("same*"):
            distinct = len({x.out for x in js})
            good = distinct == 1
            got = "%d distinct outputs in %d runs" % (distinct, len(js))
        elif want.startswith("order:"):
            sec, keys = want[6:].split("=")
            act = E.order_of(j.json)[sec] if j.status == "ok" else None
            good = act == keys.split(",")
            got = "%s order %s" % (sec, act)
        elif want.startswith("same-entry:"):
            sec, key = want[11:].split("/")
            vals = [dict(E.entries(x.json)[sec]).get(key) if x.status == "ok" else x.err() for x in js]
            good = vals[0] == vals[1]
            got = "equal" if good else "first %s | second %s" % (E._short_diff(vals[0], vals[1], 30), E._short_diff(vals[1], vals[0], 30))
        elif want == "same-status":
            good = js[0].status == js[1].status
            got = "both " + js[0].status if good else "%s / %s" % (js[0].err(), js[1].err())
        elif want == "same-json":
            good = js[0].out == js[1].out
            got = "equal" if good else ("both %s, interactions %s / %s" % (
                js[1].status, E.order_of(js[0].json)["interactions"], E.order_of(js[1].json)["interactions"])
                if js[0].status == js[1].status == "ok" else "%s / %s" % (js[0].err(), js[1].err()))
        elif want.startswith("contains:"):
            good = j.status == "ok" and want[9:].encode() in j.json
            got = "present" if good else ("absent" if j.status == "ok" else j.err())
        out.append((prop, title, good, got, j))
    return out


# ---------------------------------------------------------------------------------------


def main(argv=None):
    ap = argparse.ArgumentParser()
    ap.add_argument("--n", type=int, default=300)
    ap.add_argument("--seed", type=int, default=1)
    ap.add_argument("--max-size", type=int, default=40)
    ap.add_argument("--faults", type=int, default=4, help="fault injections per model")
    ap.add_argument("--save", default=None, help="directory for replay files of the findings")
    ap.add_argument("--risky", action="store_true",
                    help="random plans also use the trivia known to break the library (see render.TriviaPlan.risky)")
    ap.add_argument("--risky-only", default="", help="comma-separated subset of the risky trivia to use")
    ap.add_argument("-v", "--verbose", action="store_true")
    a = ap.parse_args(argv)
    t0 = time.time()
    if not os.path.exists(os.path.join(C.TOOLS, "harness")):
        ok, err = C.build_harness()
        if not ok:
            print("cannot build the harness:", err)
            return 2

    rep = Report()
    jobs = []
    cases = []
    dist = {"size": collections.Counter(), "kinds": collections.Counter(), "depth": collections.Counter(),
            "files": collections.Counter(), "faults": collections.Counter(), "shapes": collections.Counter(),
            "newline": collections.Counter()}
    selfcheck = collections.Counter()

    def shape_check(seed, label, proj, ref_shape):
        try:
            s1 = T.parse_shape(proj)
            s2 = T.parse_shape(proj, True)
            s3 = T.intended_shape(proj)
        except T.ShapeError as e:
            selfcheck["FAILED " + label] += 1
            rep.add("generator", "shape self-check: " + label, seed, "ShapeError: %s" % e)
            return
        if not (s1 == s3 == ref_shape) or s2 != ref_shape:
            selfcheck["FAILED " + label] += 1
            rep.add("generator", "shape self-check: " + label, seed, "scan/paste model, intention and original differ")
        else:
            selfcheck["ok " + label] += 1

    for i in range(a.n):
        seed = a.seed * 1000003 + i
        rng = random.Random(seed)
        size = rng.choice([1, 2, 3, 5, 8]) if rng.random() < 0.15 else rng.randint(4, a.max_size)
        m = random_model(rng, size)
        p0 = lower(m)
        case = {"seed": seed, "i": i, "model": m, "size": size}
        cases.append(case)
        snapshot = json.dumps(m.to_json(), sort_keys=True)
        # replay round trip
        if i % 10 == 0:
            if ApiModel.from_json(json.dumps(m.to_json())).to_json() != m.to_json() or \
                    Project.from_json(json.dumps(p0.to_json())).to_json() != p0.to_json() or \
                    render(ApiModel.from_json(m.dumps()), canonical_plan()) != render(m, canonical_plan()):
                rep.add("generator", "to_json/from_json round trip", seed, "")
            selfcheck["ok replay round trip"] += 1
        ref = T.intended_shape(p0)
        shape_check(seed, "plain", p0, ref)
        dist["size"][(len(m.units()) // 5) * 5] += 1
        for _, d in p0.nodes():
            dist["kinds"][d.kind if d.kind != "HTTP" else d.keyword] += 1
        dist["depth"][depth_of(p0.files[p0.root])] += 1
        for b in m.blocks:
            if isinstance(b, UrlBlock):
                dist["shapes"]["URL block"] += 1
                dist["shapes"]["method in URL"] += sum(1 for x in b.methods if x.path is None)
                dist["shapes"]["path-bearing method in URL"] += sum(1 for x in b.methods if x.path)
                toks = b.tokens()
                if any(t in ("tags", "path") and any(x.startswith("m") for x in toks[:k]) for k, t in enumerate(toks)):
                    dist["shapes"]["URL-level Tags/Path written after a method"] += 1
            elif isinstance(b, HttpMethod):
                dist["shapes"]["stand-alone method"] += 1
            else:
                dist["shapes"]["JSON-RPC URL"] += 1
                dist["shapes"]["JSON-RPC method"] += len(b.methods)
        for mm in m.http_methods():
            dist["shapes"]["responses/method=%d" % min(len(mm.responses), 4)] += 1
            for x in ([mm.request] if mm.request else []) + mm.responses:
                k = "type param" if x.type else (x.notation if x.notation else "inline jsight")
                dist["shapes"]["body: " + k + (" (Body child)" if x.body_as_child else "")] += 1
                if x.headers:
                    dist["shapes"]["Headers"] += 1
            if mm.query:
                dist["shapes"]["Query"] += 1
            if mm.path_schema:
                dist["shapes"]["Path under method"] += 1
            if mm.description is not None:
                toks = mm.tokens()
                dist["shapes"]["Description %s" % ("first" if toks[0] == "description" else
                                                   "last" if toks[-1] == "description" else "in the middle")] += 1
        chain = _max_chain(m, "refs")
        achain = _max_chain(m, "allof")
        dist["shapes"]["type reference chain depth>=3"] += 1 if chain >= 3 else 0
        dist["shapes"]["allOf chain depth>=2"] += 1 if achain >= 2 else 0
        dist["shapes"]["type used before declared"] += 1 if _used_before_declared(m) else 0

        canon = canonical_plan()
        j0 = Job(i, "canon", render(p0, canon))
        j0b = Job(i, "canon-again", j0.files)
        case["canon"], case["again"] = j0, j0b
        jobs += [j0, j0b]
        # C05: trivia plans
        case["plans"] = []
        for k in range(2):
            pl = random_plan(rng)
            if a.risky_only:
                pl.risky = [x for x in a.risky_only.split(",") if x]
            elif a.risky:
                pl.risky = ["hash-in-line-comment", "empty-line-comment", "quote-include", "block-comment-same-line"]
            dist["newline"][repr(pl.newline)] += 1
            j = Job(i, "plan%d" % k, render(p0, pl), {"plan": pl})
            case["plans"].append(j)
            jobs.append(j)
        # C10: permutation
        nunits = len([u for u in m.units() if u[0] != "info"])
        perm = T.random_perm(rng, nunits)
        mp, pdesc = T.permute_blocks(m, perm)
        case["perm"] = Job(i, "perm", render(mp, canon), {"model": mp, "perm": perm, "desc": pdesc})
        jobs.append(case["perm"])
        # C20: locality
        kind = rng.choice(["type", "enum", "server", "tag", "method"])
        ma, adesc, added = T.add_fresh(m, kind, rng.randint(0, nunits), rng)
        case["add"] = Job(i, "add", render(ma, canon), {"model": ma, "desc": adesc, "added": added})
        jobs.append(case["add"])
        case["add2"] = None
        try:
            ma2, adesc2, added2 = T.add_fresh(m, "type-forward", 0, rng)
            case["add2"] = Job(i, "add-forward", render(ma2, canon), {"model": ma2, "desc": adesc2, "added": added2})
            jobs.append(case["add2"])
        except ValueError:
            pass
        case["rem"] = None
        for _ in range(4):
            r = T.remove_unreferenced(m, rng.randrange(max(1, nunits)))
            if r:
                mr, rdesc, removed, touched = r
                case["rem"] = Job(i, "remove", render(mr, canon), {"model": mr, "desc": rdesc, "removed": removed,
                                                                   "touched": touched})
                jobs.append(case["rem"])
                break
        # C08: includes
        pi, idesc = T.cut_includes(p0, rng, rng.choice([1, 2, 3]))
        shape_check(seed, "include", pi, ref)
        dist["files"][len(pi.files)] += 1
        case["inc"] = Job(i, "include", render(pi, canon), {"desc": idesc})
        pl = random_plan(rng)
        case["inc2"] = Job(i, "include+plan", render(pi, pl), {"desc": idesc, "plan": pl})
        jobs += [case["inc"], case["inc2"]]
        # C07: macros
        pm, mdesc = T.macroize(p0, rng)
        shape_check(seed, "macro", pm, ref)
        if T.intended_shape(T.inline_macros(pm)) != ref:
            rep.add("generator", "inline_macros does not invert macroize", seed, mdesc)
        case["mac"] = Job(i, "macro", render(pm, canon), {"desc": mdesc})
        pmi, idesc2 = T.cut_includes(pm, rng, 2)
        shape_check(seed, "macro+include", pmi, ref)
        pl = random_plan(rng)
        case["mac2"] = Job(i, "macro+include+plan", render(pmi, pl), {"desc": mdesc + " | " + idesc2, "plan": pl})
        jobs += [case["mac"], case["mac2"]]
        # C10 with macros: permuting the top level of the macro-ized project
        ng = T.movable_groups(pm)
        pmp, _ = T.permute_top(pm, T.random_perm(rng, ng))
        case["macperm"] = Job(i, "macro+permute", render(pmp, canon), {"desc": mdesc})
        # C07/C20: an unused macro
        pu, udesc = T.add_unused_macro(p0, rng.randrange(1000), rng)
        case["unused"] = Job(i, "unused-macro", render(pu, canon), {"desc": udesc})
        pu2, udesc2 = T.add_unused_macro(pm, rng.randrange(1000), rng, paste_existing=True)
        case["unused2"] = Job(i, "unused-macro-pasting", render(pu2, canon), {"desc": udesc2})
        jobs += [case["macperm"], case["unused"], case["unused2"]]
        # C20: a fresh URL block that pastes a macro an existing URL block pastes
        case["urlp"] = None
        up = T.add_url_pasting(p0, rng.randrange(1000), rng)
        if up is not None:
            ub, ua, updesc, upadded, uptags = up
            case["urlp"] = (Job(i, "url-pasting-base", render(ub, canon), {"desc": updesc}),
                            Job(i, "url-pasting", render(ua, canon), {"desc": updesc, "added": upadded, "tags": uptags}))
            jobs += list(case["urlp"])
        # C11: faults
        case["faults"] = []
        tries = 0
        while len(case["faults"]) < a.faults and tries < 20:
            tries += 1
            fk, via, pos = rng.choice(F.KINDS), rng.choice(F.VIAS), rng.randrange(10000)
            try:
                files, exp = F.inject(m, fk, pos, via, rng, canon if rng.random() < 0.7 else random_plan(rng))
            except F.NotApplicable:
                dist["faults"]["n/a"] += 1
                continue
            j = Job(i, "fault", files, {"exp": exp})
            case["faults"].append(j)
            jobs.append(j)
            dist["faults"][via] += 1
        # no transformation may write into the model it was given: the later renderings of this model (blame runs) rely on it
        if json.dumps(m.to_json(), sort_keys=True) != snapshot:
            selfcheck["FAILED model left unchanged by the transformations"] += 1
            rep.add("generator", "a transformation modified the model it was given", seed, "")
            case["model"] = m = ApiModel.from_json(snapshot)
        else:
            selfcheck["ok model left unchanged by the transformations"] += 1
    t_gen = time.time() - t0
    run_jobs(jobs)
    t_run = time.time() - t0 - t_gen

    # ------------------------------------------------------------------ evaluation
    accepted = 0
    mism = 0
    blame_jobs = []
    fault_stats = collections.defaultdict(collections.Counter)
    for case in cases:
        m, seed, j0 = case["model"], case["seed"], case["canon"]
        if j0.status != "ok":
            rep.add("acceptance", "un-faulted model rejected: " + j0.err().split(" @")[0], seed, j0.err(), j0.text())
            continue
        accepted += 1
        df = E.diff(E.catalog_of(m), E.skeleton(j0.json))
        if df:
            mism += 1
            rep.add("skeleton", "catalog_of(model) != skeleton(json): " + df[0].split(":")[0], seed, "\n".join(df[:5]), j0.text())
        if case["again"].out != j0.out:
            cls = "same input, different output"
            if case["again"].status == "ok" and strip_examples(case["again"].json) == strip_examples(j0.json):
                cls += " (\"example\" members only%s)" % (", document embeds a regex type" if embeds_regex_type(m) else "")
            rep.add("C03", cls, seed, "", j0.text())
        # C05
        for j in case["plans"]:
            if not compare_pair(_Quiet(), "C05", "", seed, j0, j, m, ""):
                # find the plan feature responsible
                pl = j.meta["plan"]
                singles = []
                for f in PLAN_FEATURES:
                    p1 = canonical_plan()
                    p1.seed = pl.seed
                    setattr(p1, f, getattr(pl, f))
                    p1.risky = list(pl.risky)
                    if f == "p_blank":
                        p1.p_blank_spaces = pl.p_blank_spaces
                    bj = Job(case["i"], "blame", render(m, p1), {"feature": f, "of": j, "case": case})
                    singles.append(bj)
                blame_jobs += singles
                j.meta["singles"] = singles
        # C10
        jp = case["perm"]
        mp = jp.meta["model"]
        if jp.status != j0.status:
            rep.add("C10", "permutation changes the verdict", seed, jp.meta["desc"] + "\n" + jp.err(), jp.text())
        elif jp.status == "ok":
            dfp = E.diff(E.catalog_of(mp), E.skeleton(jp.json))
            ds = entry_diffs(rep, "C10", m, j0.json, jp.json)
            if ds:
                rep.add("C10", "permutation changes the content of an entry (%s)" % diff_label(ds), seed,
                        jp.meta["desc"] + "\n" + "\n".join(d["text"] for d in ds[:4]), jp.text())
            exp_order = T.expected_permutation(m, jp.meta["perm"])
            act_order = E.order_of(jp.json)
            for s in E.SECTIONS:
                if exp_order[s] != act_order[s]:
                    rep.add("C10", "order of %s after permutation is not the permuted order" % s, seed,
                            "%s\nexpected %s\nactual   %s" % (jp.meta["desc"], exp_order[s], act_order[s]), jp.text())
            if dfp and not any(exp_order[s] != act_order[s] for s in E.SECTIONS):
                rep.add("skeleton", "permuted model: catalog_of != skeleton: " + dfp[0].split(":")[0], seed, "\n".join(dfp[:5]), jp.text())
        # C20
        for ja in [x for x in (case["add"], case["add2"]) if x is not None]:
            if ja.status != "ok":
                rep.add("C20", "adding a fresh declaration changes the verdict", seed, ja.meta["desc"] + "\n" + ja.err(), ja.text())
            else:
                added = ja.meta["added"]
                ds = entry_diffs(rep, "C20", m, j0.json, ja.json, extra_in_b=added)
                d = [x["text"] for x in ds]
                oa, ob = E.order_of(j0.json), E.order_of(ja.json)
                extra = []
                for s in E.SECTIONS:
                    for k in added.get(s, []):
                        if k not in ob[s]:
                            extra.append("%s[%s]: the new entry is missing" % (s, k))
                    if [k for k in ob[s] if k not in added.get(s, [])] != oa[s]:
                        extra.append("%s: relative order of the old entries changed: %s -> %s" % (s, oa[s], ob[s]))
                if d or extra:
                    rep.add("C20", "a fresh %s changes another entry (%s)" % (
                        ja.meta["desc"].split()[1], "; ".join(x for x in [diff_label(ds), "order/missing" if extra else ""] if x)),
                        seed, ja.meta["desc"] + "\n" + "\n".join((d + extra)[:4]), ja.text())
        jr = case["rem"]
        if jr is not None:
            if jr.status != "ok":
                rep.add("C20", "removing an unreferenced declaration changes the verdict", seed, jr.meta["desc"] + "\n" + jr.err(), jr.text())
            else:
                ds = entry_diffs(rep, "C20", m, jr.json, j0.json, extra_in_b=jr.meta["removed"], ignore_tags=jr.meta["touched"])
                ds = [x for x in ds if not (x["section"] == "tags" and x["what"] == "only-second")]
                if ds:
                    rep.add("C20", "removing an unreferenced declaration changes another entry (%s)" % diff_label(ds), seed,
                            jr.meta["desc"] + "\n" + "\n".join(x["text"] for x in ds[:4]), j0.text())
        # C08 / C07
        compare_pair(rep, "C08", "include cut", seed, j0, case["inc"], m, case["inc"].meta["desc"])
        if not compare_pair(_Quiet(), "C08", "", seed, j0, case["inc2"], m, ""):
            compare_pair(rep, "C08xC05", "include cut under a trivia plan", seed, j0, case["inc2"], m,
                         case["inc2"].meta["desc"] + "\nplan " + json.dumps(case["inc2"].meta["plan"].to_json()))
        compare_pair(rep, "C07", "macro-ization", seed, j0, case["mac"], m, case["mac"].meta["desc"])
        if not compare_pair(_Quiet(), "C07", "", seed, case["mac"], case["mac2"], m, ""):
            compare_pair(rep, "C07xC08xC05", "macros + includes + trivia plan (against the macro-ized canonical)", seed,
                         case["mac"], case["mac2"], m, case["mac2"].meta["desc"] + "\nplan " + json.dumps(case["mac2"].meta["plan"].to_json()))
        compare_pair(rep, "C07/C20", "unused macro", seed, j0, case["unused"], m, case["unused"].meta["desc"])
        compare_pair(rep, "C07/C20", "unused macro that pastes an existing macro twice", seed, case["mac"], case["unused2"], m, case["unused2"].meta["desc"])
        if case.get("urlp") is not None:
            ub, ua = case["urlp"]
            rep.counts["C20 fresh URL blocks pasting an existing macro"] += 1
            if compare_pair(rep, "C07", "methods of a URL block moved into a macro", seed, j0, ub, m, ua.meta["desc"]) and ub.status == "ok":
                if ua.status != "ok":
                    rep.add("C20", "adding a fresh declaration changes the verdict", seed, ua.meta["desc"] + "\n" + ua.err(), ua.text())
                else:
                    ds = entry_diffs(rep, "C20", m, ub.json, ua.json, extra_in_b=ua.meta["added"], ignore_tags=ua.meta["tags"])
                    missing = [k for k in ua.meta["added"]["interactions"] if k not in E.order_of(ua.json)["interactions"]]
                    if ds or missing:
                        rep.add("C20", "a fresh URL block changes another entry (%s)" % "; ".join(x for x in [diff_label(ds), "missing" if missing else ""] if x),
                                seed, ua.meta["desc"] + "\n" + "\n".join([x["text"] for x in ds[:4]] + ["missing: %s" % missing] * bool(missing)), ua.text())
        jq = case["macperm"]
        if jq.status != case["mac"].status:
            rep.add("C10", "permuting the top level of a macro-ized document changes the verdict", seed,
                    jq.meta["desc"] + "\n" + (jq.err() if jq.status != "ok" else case["mac"].err()), jq.text())
        elif jq.status == "ok":
            ds = entry_diffs(rep, "C10", m, case["mac"].json, jq.json)
            if ds:
                rep.add("C10", "permuting the top level of a macro-ized document changes an entry (%s)" % diff_label(ds), seed,
                        jq.meta["desc"] + "\n" + "\n".join(d["text"] for d in ds[:4]), jq.text())
        # C11
        for j in case["faults"]:
            exp = j.meta["exp"]
            key = exp["kind"]
            if j.status == "ok":
                fault_stats[key]["ACCEPTED"] += 1
                rep.add("C11", "fault not rejected: %s" % exp["kind"], seed, "%s via %s" % (exp["desc"], exp["via"]), j.text())
            elif j.status != "err":
                fault_stats[key][j.status] += 1
                rep.add("C11", "fault gives %s: %s" % (j.status, exp["kind"]), seed, "%s via %s\n%s" % (exp["desc"], exp["via"], j.out[:300]), j.text())
            else:
                f, idx = C.unhx(j.d["file"]).decode(), int(j.d["idx"])
                if F.located(exp, f, idx):
                    fault_stats[key]["rejected, located"] += 1
                else:
                    fault_stats[key]["rejected, located elsewhere"] += 1
                    rep.add("C11", "diagnostic outside the offending directive(s): %s" % exp["kind"], seed,
                            "%s via %s\n%s\nallowed spans %s" % (exp["desc"], exp["via"], j.err(), exp["spans"]), j.text())

    # second round: blame C05 differences on single plan features
    if blame_jobs:
        run_jobs(blame_jobs)
    for case in cases:
        j0 = case["canon"]
        for j in case["plans"]:
            singles = j.meta.get("singles")
            if not singles:
                continue
            q = _Quiet()
            bad = [b for b in singles if not compare_pair(q, "C05", "", case["seed"], j0, b, case["model"], "")]
            if bad:
                for b in bad[:2]:
                    compare_pair(rep, "C05", "plan feature %s" % b.meta["feature"], case["seed"], j0, b, case["model"],
                                 "only %s=%r differs from the canonical plan (seed %d)" % (
                                     b.meta["feature"], getattr(j.meta["plan"], b.meta["feature"]), j.meta["plan"].seed))
            else:
                compare_pair(rep, "C05", "combination of plan features", case["seed"], j0, j, case["model"],
                             "plan " + json.dumps(j.meta["plan"].to_json()))

    probes = run_probes()
    wall = time.time() - t0

    # ------------------------------------------------------------------ report
    n = len(cases)
    print("gendoc selftest: %d models, %d harness runs (+%d blame runs), generation %.1fs, harness %.1fs, total %.1fs" % (
        n, len(jobs), len(blame_jobs), t_gen, t_run, wall))
    print("acceptance of un-faulted models: %d/%d (%.1f%%)" % (accepted, n, 100.0 * accepted / max(1, n)))
    print("catalog_of(model) vs skeleton(json) mismatches: %d/%d" % (mism, accepted))
    print("generator self-checks: " + histogram(selfcheck))
    print("\ninput distribution")
    print("  top-level units per model (bucket of 5): " + ", ".join("%d-%d:%d" % (k, k + 4, v) for k, v in sorted(dist["size"].items())))
    print("  nesting depth: " + ", ".join("%d:%d" % kv for kv in sorted(dist["depth"].items())))
    print("  files per project after cut_includes: " + ", ".join("%d:%d" % kv for kv in sorted(dist["files"].items())))
    print("  newline of random plans: " + histogram(dist["newline"]))
    print("  directive kinds: " + histogram(dist["kinds"]))
    print("  shapes: " + histogram(dist["shapes"]))
    print("  fault injections by route: " + histogram(dist["faults"]))
    print("\nfault outcomes (C11)")
    for k in F.KINDS:
        if fault_stats[k]:
            print("  %-28s %s" % (k, histogram(fault_stats[k])))
    print("\nprobes (fixed small documents)")
    for prop, title, good, got, j in probes:
        print("  [%s] %-4s %s -> %s" % (prop, "ok" if good else "FIND", title, got))
    if rep.counts:
        print("\nnot counted as findings")
        for k, v in rep.counts.items():
            print("  %s: %d" % (k, v))
    print("\ncandidate findings: %d classes, %d cases" % (len(rep.findings), sum(len(v) for v in rep.findings.values())))
    rep.dump(a.verbose)
    if a.save:
        os.makedirs(a.save, exist_ok=True)
        by_seed = {c["seed"]: c for c in cases}
        for (prop, cls), lst in rep.findings.items():
            _, seed, what, doc = sorted(lst, key=lambda x: x[0])[0]
            c = by_seed.get(seed)
            name = "%s_%s.json" % (prop, "".join(ch if ch.isalnum() else "_" for ch in cls)[:60])
            with open(os.path.join(a.save, name), "w") as f:
                json.dump({"property": prop, "class": cls, "seed": seed, "what": what, "document": doc,
                           "model": c["model"].to_json() if c else None}, f, indent=1)
        print("\nreplay files written to", a.save)
    bad = (accepted != n) or mism or any(k[0] in ("generator", "skeleton", "acceptance") for k in rep.findings)
    global LAST
    LAST = {"findings": {"%s|%s" % k: [(seed, what, doc) for (_, seed, what, doc) in sorted(v, key=lambda x: x[0])] for k, v in rep.findings.items()},
            "counts": dict(rep.counts), "accepted": accepted, "n": n, "mismatches": mism, "harness_runs": len(jobs) + len(blame_jobs),
            "dist": {k: dict(v) for k, v in dist.items()}, "selfcheck": dict(selfcheck),
            "fault_stats": {k: dict(v) for k, v in fault_stats.items()},
            "probes": [(prop, title, bool(good), str(got)) for prop, title, good, got, j in probes],
            "models": {c["seed"]: c["model"].to_json() for c in cases}}
    return 1 if bad else 0


LAST = None


class _Quiet:
    """a Report that forgets"""
    counts = collections.Counter()

    def add(self, *a, **k):
        pass


def _sorted_json(b, drop=None):
    """JSON text with the entries of every section sorted by key (for example-only tests)"""
    o = json.loads(b)
    drop = drop or {}
    for s in E.SECTIONS:
        if isinstance(o.get(s), dict):
            o[s] = {k: o[s][k] for k in sorted(o[s]) if k not in drop.get(s, ())}
    for t in (o.get("tags") or {}).values():
        for g in t.get("interactionGroups", []):
            g["interactions"] = sorted(g["interactions"])
    return json.dumps(o)


def _max_chain(m, attr):
    types = {t.name: t for t in m.types}
    memo = {}

    def d(n, seen=()):
        if n in memo:
            return memo[n]
        t = types.get(n)
        if t is None or n in seen:
            return 0
        memo[n] = 1 + max([d(x, seen + (n,)) for x in getattr(t, attr)] + [0])
        return memo[n]
    return max([d(t.name) - 1 for t in m.types] + [0])


def _used_before_declared(m):
    seen = set()
    for k, i in m.units():
        if k == "type":
            t = m.types[i]
            if any(r not in seen for r in t.refs):
                return True
            seen.add(t.name)
        elif k == "block":
            b = m.blocks[i]
            names = set()
            for x in ([b] if isinstance(b, HttpMethod) else getattr(b, "methods", [])):
                for y in ([getattr(x, "request", None)] if getattr(x, "request", None) else []) + list(getattr(x, "responses", [])):
                    if y.type:
                        names.add(y.type.strip("[]"))
                    if y.schema:
                        names.update(y.schema.refs)
            if names - seen:
                return True
    return False


if __name__ == "__main__":
    sys.exit(main())
