"""Meaning-preserving rewrites (and their inverses) of models and projects.

model level     permute_blocks / expected_permutation          (C10)
                add_fresh / remove_unreferenced                 (C20)
project level   cut_includes                                    (C08)
                macroize / inline_macros                        (C07)
self check      parse_shape(project): what the library's two context passes (scan, paste)
                make of the directive sequence, modelled after core/context_processing.go and
                core/compile_core_paste.go; intended_shape(project): the forest the generator
                meant.  They must agree for everything this package produces.

Every rewrite returns (new value, description[, details]) and never modifies its input.
"""
import posixpath

from .model import (ApiModel, Node, Project, UserType, Enum, Server, Tag, HttpMethod, Response, UrlBlock,
                    RpcUrl, Schema, ALLOWED, ROOT_ALLOWED)
from .render import lower as _lower, render as _render, canonical_plan as _canonical_plan
from . import expect as E

# ---------------------------------------------------------------------------------------
# C10: permutation of the top-level declarations


def permute_blocks(model: ApiModel, perm):
    """perm: a permutation of range(len(units)) over the top-level units other than INFO
    (INFO and JSIGHT stay first); new position i holds old unit perm[i]."""
    m = model.copy()
    units = [u for u in m.units() if u[0] != "info"]
    assert sorted(perm) == list(range(len(units))), "not a permutation"
    m.order = [units[i] for i in perm]
    return m, "top-level units reordered: " + " ".join("%s:%d" % tuple(units[i]) for i in perm)


def expected_permutation(model: ApiModel, perm):
    """section -> keys in the order they must have after the permutation (declared order of the
    declarations; tags: declared tags, then automatic tags in order of first use)"""
    m, _ = permute_blocks(model, perm)
    cat = E.catalog_of(m)
    return {s: [k for k, _ in cat[s]] for s in E.SECTIONS}


def random_perm(rng, n):
    p = list(range(n))
    rng.shuffle(p)
    return p


def permute_top(project, perm):
    """project-level variant of permute_blocks (also moves MACRO definitions, PASTEs and INCLUDEs
    of the root file): the top-level directives after JSIGHT are permuted in groups, a URL
    staying together with the path-bearing methods drawn inside it."""
    p = project.copy()
    tops = p.files[p.root]
    head = [n for n in tops[:1] if n.kind == "JSIGHT"]
    groups = []
    for n in tops[len(head):]:
        if n.hint and groups:
            groups[-1].append(n)
        else:
            groups.append([n])
    # INFO keeps its place at the front
    fixed = [g for g in groups if g[0].kind == "INFO"]
    rest = [g for g in groups if g[0].kind != "INFO"]
    assert sorted(perm) == list(range(len(rest))), "not a permutation of the %d movable groups" % len(rest)
    p.files[p.root] = head + [n for g in fixed for n in g] + [n for i in perm for n in rest[i]]
    return p.renumber(), "top-level directives of %s reordered" % p.root


def movable_groups(project):
    """number of groups permute_top permutes"""
    tops = project.files[project.root]
    n = 0
    for d in tops:
        if d.kind in ("JSIGHT", "INFO") or d.hint:
            continue
        n += 1
    return n


def add_unused_macro(project, position, rng, paste_existing=False):
    """C07/C20: a macro that is never pasted contributes nothing (paste_existing: its body pastes an existing macro twice,
    and it is written before every other macro)"""
    if not isinstance(project, Project):
        project = _lower(project)
    p = project.copy()
    tops = p.files[p.root]
    used = {d.params[0] for _, d in p.nodes() if d.kind == "MACRO" and d.params}
    while True:
        name = "@unused%d" % rng.randrange(10000)
        if name not in used:
            break
    body = rng.choice([
        [Node("RESP", "418", ["any"])],
        [Node("TYPE", "TYPE", ["@neverDeclared"], None, "{}", "schema")],
        [Node("HTTP", "GET", ["/never/used"], children=[Node("RESP", "200", ["any"])])],
        [Node("ENUM", "ENUM", ["@neverEnum"], None, "[1]", "enum")],
    ])
    existing = sorted(used)
    ok = [i for i in range(1, len(tops) + 1) if not (i < len(tops) and tops[i].hint)]
    i = ok[position % len(ok)]
    if paste_existing and existing:
        e = rng.choice(existing)
        body = [Node("PASTE", "PASTE", [e]), Node("PASTE", "PASTE", [e])]
        i = ok[0]
    tops.insert(i, Node("MACRO", "MACRO", [name], children=body, force_parens=True, unit="macro:" + name))
    return p.renumber(), "unused MACRO %s at top-level position %d" % (name, i)


def add_url_pasting(project, position, rng):
    """C20: the path-less HTTP methods of one URL block are moved into a macro that the block pastes (the BASE, same catalog
    by C07); the second project has, at a top-level position, a fresh `URL /freshN` block that pastes the SAME macro: it adds
    the interactions `http VERB /freshN` (and the automatic tag @freshN, or entries in the tags the methods name) and
    nothing else.  Returns (base, added_project, description, added entries, tags that may change) or None."""
    if not isinstance(project, Project):
        project = _lower(project)
    base = project.copy()
    tops = base.files[base.root]
    cands = []
    for t in tops:
        if t.kind == "URL" and t.params and not any(c.kind == "Protocol" for c in t.children):
            ms = [c for c in t.children if c.kind == "HTTP" and not c.params]
            if ms and not any(d.kind in ("PASTE", "INCLUDE", "Path") for c in ms for d in c.walk()):
                cands.append((t, ms))
    if not cands:
        return None
    url, ms = cands[rng.randrange(len(cands))]
    used = {d.params[0] for _, d in base.nodes() if d.kind == "MACRO" and d.params}
    paths = {d.params[0] for _, d in base.nodes() if d.kind in ("URL", "HTTP") and d.params}
    while True:
        k = rng.randrange(100000)
        mname, fresh = "@crud%d" % k, "/fresh%d" % k
        if mname not in used and not any(q.startswith(fresh) for q in paths):
            break
    first = url.children.index(ms[0])
    url.children = [c for c in url.children if c not in ms]
    url.children.insert(first, Node("PASTE", "PASTE", [mname]))
    tops.append(Node("MACRO", "MACRO", [mname], children=ms, force_parens=True, unit="macro:" + mname))
    base = base.renumber()
    added = base.copy()
    tops2 = added.files[added.root]
    ok = [i for i in range(1, len(tops2) + 1) if not (i < len(tops2) and tops2[i].hint)]
    i = ok[position % len(ok)]
    tops2.insert(i, Node("URL", "URL", [fresh], children=[Node("PASTE", "PASTE", [mname])], unit="block:fresh"))
    added = added.renumber()
    tagged = sorted({q for c in ms for d in c.walk() if d.kind == "Tags" for q in d.params})
    ent = {"interactions": ["http %s %s" % (c.keyword, fresh) for c in ms], "tags": ["@" + fresh[1:]]}
    return base, added, "fresh URL %s pasting %s (the %d methods of URL %s) at top-level position %d" % (fresh, mname, len(ms), url.params[0], i), ent, tagged


# ---------------------------------------------------------------------------------------
# C20: locality


def _fresh_name(model, rng, prefix):
    used = {t.name for t in model.types} | {e.name for e in model.enums} | {s.name for s in model.servers} | \
        {t.name for t in model.tags}
    while True:
        n = "@%s%d" % (prefix, rng.randrange(10000))
        if n not in used:
            return n


def _insert_unit(m, kind, idx, position, units):
    position = max(0, min(position, len(units)))
    units.insert(position, [kind, idx])
    m.order = units


def add_fresh(model: ApiModel, kind, position, rng):
    """kind in type/enum/server/tag/method.  Returns (model, description, added) where added is
    {section: [keys]} of the catalog entries that must appear and nothing else may change."""
    m = model.copy()
    added = {}
    units = [u for u in m.units() if u[0] != "info"]     # layout before the new unit exists
    if kind == "type":
        n = _fresh_name(m, rng, "fresh")
        objs = [t for t in m.types if t.top == ["object", "object"] and t.notation == "jsight"]
        f = rng.random()
        if objs and f < 0.35:
            b = rng.choice(objs)
            t = UserType(n, "fresh", "jsight", '{ // {allOf: "%s"}\n  "fresh_own": 1\n}' % b.name, [b.name], [],
                         ["object", "object"], [b.name], ["fresh_own"])
        elif m.types and f < 0.6:
            refs = [x for x in m.types if x.notation in ("jsight", "regex")]
            if refs:
                b = rng.choice(refs)
                t = UserType(n, None, "jsight", '{\n  "fresh_ref": %s\n}' % b.name, [b.name], [], ["object", "object"],
                             [], ["fresh_ref"])
            else:
                t = UserType(n, None, "jsight", '"fresh"', [], [], ["string", "string"])
        elif f < 0.8:
            t = UserType(n, None, "regex", "/fre+sh/")
        else:
            t = UserType(n, "fresh", "jsight", '{\n  "fresh_a": 1,\n  "fresh_b": "x"\n}', [], [], ["object", "object"], [],
                         ["fresh_a", "fresh_b"])
        m.types.append(t)
        _insert_unit(m, "type", len(m.types) - 1, position, units)
        added["userTypes"] = [n]
        desc = "fresh TYPE %s at %d" % (n, position)
    elif kind == "type-forward":
        # a fresh type that REFERS to an existing one and is written before everything else (a forward reference);
        # types that use enum rules, inherit or refer further are preferred
        n = _fresh_name(m, rng, "freshF")
        refs = [x for x in m.types if x.notation == "jsight"]
        if not refs:
            raise ValueError("no type to refer to")
        rich = [x for x in refs if x.enums or x.allof or x.refs]
        b = rng.choice(rich if rich and rng.random() < 0.8 else refs)
        if b.top == ["object", "object"] and rng.random() < 0.4:
            t = UserType(n, "fresh", "jsight", '{ // {allOf: "%s"}\n  "fresh_own": 1\n}' % b.name, [b.name], [], ["object", "object"], [b.name], ["fresh_own"])
        elif rng.random() < 0.5:
            t = UserType(n, None, "jsight", '{\n  "fresh_ref": %s\n}' % b.name, [b.name], [], ["object", "object"], [], ["fresh_ref"])
        else:
            t = UserType(n, None, "jsight", '[%s]' % b.name, [b.name], [], ["array", "array"])
        m.types.append(t)
        _insert_unit(m, "type", len(m.types) - 1, 0, units)
        added["userTypes"] = [n]
        desc = "fresh TYPE %s referring to %s, before everything else" % (n, b.name)
    elif kind == "enum":
        n = _fresh_name(m, rng, "freshE")
        m.enums.append(Enum(n, "fresh", ["f1", "f2"]))
        _insert_unit(m, "enum", len(m.enums) - 1, position, units)
        added["userEnums"] = [n]
        desc = "fresh ENUM %s at %d" % (n, position)
    elif kind == "server":
        n = _fresh_name(m, rng, "freshS")
        m.servers.append(Server(n, None, "https://fresh.example"))
        _insert_unit(m, "server", len(m.servers) - 1, position, units)
        added["servers"] = [n]
        desc = "fresh SERVER %s at %d" % (n, position)
    elif kind == "tag":
        n = _fresh_name(m, rng, "freshT")
        m.tags.append(Tag(n, "Fresh tag", "fresh description" if rng.random() < 0.5 else None))
        _insert_unit(m, "tag", len(m.tags) - 1, position, units)
        added["tags"] = [n]
        desc = "fresh TAG %s at %d" % (n, position)
    elif kind in ("method", "method-on-unrelated-path"):
        firsts = {E.path_tag_title(p) for p in m.all_paths()}
        while True:
            seg = "fresh%d" % rng.randrange(10000)
            if "/" + seg not in firsts:
                break
        path = "/" + seg + rng.choice(["", "/x", "/{fid}"])
        meth = HttpMethod(rng.choice(["GET", "POST"]), path, "fresh")
        meth.responses.append(Response("200", None, "any"))
        if "{fid}" in path and rng.random() < 0.5:
            meth.path_schema = Schema('{\n  "fid": 1\n}', "jsight", [], [], ["object", "object"], [], ["fid"])
        m.blocks.append(meth)
        _insert_unit(m, "block", len(m.blocks) - 1, position, units)
        added["interactions"] = ["http %s %s" % (meth.verb, path)]
        added["tags"] = [E.tag_name("/" + seg)]
        desc = "fresh %s %s at %d" % (meth.verb, path, position)
    else:
        raise ValueError(kind)
    return m, desc, added


def remove_unreferenced(model: ApiModel, index):
    """remove the index-th top-level unit (INFO not counted) when nothing refers to it.
    Returns (model, description, removed {section: [keys]}, touched_tags) or None."""
    units = [u for u in model.units() if u[0] != "info"]
    if not units:
        return None
    k, i = units[index % len(units)]
    x = model.unit([k, i])
    removed, touched = {}, []
    if k == "type":
        if x.name in model.referenced_types():
            return None
        removed["userTypes"] = [x.name]
    elif k == "enum":
        if x.name in model.referenced_enums():
            return None
        removed["userEnums"] = [x.name]
    elif k == "server":
        removed["servers"] = [x.name]
    elif k == "tag":
        if x.name in model.referenced_tags():
            return None
        # a declared tag may double as the automatic tag of a path
        autos = {E.tag_name(E.path_tag_title(p)) for p in model.all_paths()}
        if x.name in autos:
            return None
        removed["tags"] = [x.name]
    else:
        # an interaction block: only when it describes no path parameter others could see
        cat = E.catalog_of(model)
        if isinstance(x, RpcUrl):
            ids = ["json-rpc-2.0 %s %s" % (mm.name, x.path) for mm in x.methods]
        elif isinstance(x, HttpMethod):
            if x.path_schema:
                return None
            ids = ["http %s %s" % (x.verb, x.path)]
        else:
            if x.path_schema or any(mm.path_schema for mm in x.methods):
                return None
            ids = ["http %s %s" % (mm.verb, mm.path or x.path) for mm in x.methods]
        removed["interactions"] = ids
        for n, e in cat["tags"]:
            if set(e["http"] + e["json-rpc-2.0"]) & set(ids):
                touched.append(n)
    m = model.copy()
    lst = {"server": m.servers, "type": m.types, "enum": m.enums, "tag": m.tags, "block": m.blocks}[k]
    del lst[i]
    new = []
    for kk, ii in units:
        if kk == k and ii == i:
            continue
        new.append([kk, ii - 1 if (kk == k and ii > i) else ii])
    m.order = new
    return m, "removed unit %s:%d" % (k, i), removed, touched


# ---------------------------------------------------------------------------------------
# helpers on forests


def _sig(n: Node):
    """structure of a subtree without identity"""
    return (n.kind, n.keyword, tuple(n.params), n.annotation, n.body, n.force_parens,
            tuple(_sig(c) for c in n.children))


def _lists(project: Project):
    """every sibling list of the project: (file, parent node or None, list)"""
    return [(fn, (anc[-1] if anc else None), lst) for fn, anc, lst in _lists_anc(project)]


def _lists_anc(project: Project):
    """(file, ancestors (outermost first), list)"""
    out = []

    def rec(fn, anc, lst):
        out.append((fn, anc, lst))
        for d in lst:
            if d.children:
                rec(fn, anc + [d], d.children)
    for fn, tops in project.files.items():
        rec(fn, [], tops)
    return out


def _file_depths(project):
    """include nesting depth of every file (root = 0)"""
    depth = {project.root: 0}
    edges = []
    for f, d in project.nodes():
        if d.kind == "INCLUDE" and d.params:
            edges.append((f, posixpath.normpath(posixpath.join(posixpath.dirname(f), d.params[0]))))
    changed = True
    while changed:
        changed = False
        for f, tgt in edges:
            if f in depth and depth.get(tgt, -1) < depth[f] + 1:
                depth[tgt] = depth[f] + 1
                changed = True
    return depth


# ---------------------------------------------------------------------------------------
# C08: INCLUDE

_REUSABLE = {"RESP", "Description", "Tags", "Query", "Request", "Headers", "Body"}


def cut_includes(project, rng, depth=2, cuts=None):
    """move runs of complete directives into new files.  Runs are taken from the top level of a
    file or from the children of an implicitly nested directive (which is then barred from
    getting explicit parentheses).  An identical run of non-declaring directives elsewhere is
    replaced by an INCLUDE of the same file (a file included twice)."""
    if not isinstance(project, Project):
        project = _lower(project)
    p = project.copy()
    notes = []
    cuts = cuts if cuts is not None else rng.randint(1, 4)
    counter = [0]
    for _ in range(cuts):
        cands = []
        depths = _file_depths(p)
        for fn, anc, lst in _lists_anc(p):
            if depths.get(fn, 0) >= depth:
                continue
            # an INCLUDE inside explicit parentheses is refused by the library ("not all explicit
            # contexts are closed" at the end of the included file): no ancestor may have them
            if any(a.force_parens or a.kind == "MACRO" for a in anc):
                continue
            parent = anc[-1] if anc else None
            lo = 1 if (parent is None and lst and lst[0].kind == "JSIGHT") else 0
            if len(lst) - lo >= 1:
                cands.append((fn, anc, lst, lo))
        if not cands:
            break
        fn, anc, lst, lo = rng.choice(cands)
        parent = anc[-1] if anc else None
        i = rng.randint(lo, len(lst) - 1)
        j = rng.randint(i + 1, min(len(lst), i + rng.choice([1, 1, 2, 3, 6])))
        if rng.random() < 0.06:
            j = i           # an empty file
        run = lst[i:j]
        if any(d.kind == "JSIGHT" for n in run for d in n.walk()):
            continue
        counter[0] += 1
        sub = rng.choice(["", "", "inc/", "parts/deep/", "x.y/"])
        if any(d.kind == "INCLUDE" for n in run for d in n.walk()):
            sub = ""        # file names inside the run stay relative to the same directory
        rel = "%sf%d_%d.jst" % (sub, len(p.files), counter[0])
        tgt = posixpath.normpath(posixpath.join(posixpath.dirname(fn), rel))
        if tgt in p.files:
            continue
        inc = Node("INCLUDE", "INCLUDE", [rel], unit=run[0].unit if run else "")
        lst[i:j] = [inc]
        p.files[tgt] = run
        for a in anc:
            a.no_parens = True
        notes.append("%s: %d directive(s) of %s -> %s" % (fn, len(run), parent.keyword if parent else "top level", tgt))
        # the same run somewhere else: include the same file again
        if run and all(n.kind in _REUSABLE for n in run):
            sigs = [_sig(n) for n in run]
            for fn2, anc2, lst2 in _lists_anc(p):
                if fn2 == tgt or lst2 is run:
                    continue
                if any(a.force_parens or a.kind == "MACRO" for a in anc2):
                    continue
                parent2 = anc2[-1] if anc2 else None
                d2 = posixpath.dirname(fn2)
                rel2 = posixpath.relpath(tgt, d2 or ".")
                if rel2.startswith(".."):
                    continue
                k = 0
                while k + len(run) <= len(lst2):
                    if [_sig(n) for n in lst2[k:k + len(run)]] == sigs:
                        lst2[k:k + len(run)] = [Node("INCLUDE", "INCLUDE", [rel2], unit=run[0].unit)]
                        for a in anc2:
                            a.no_parens = True
                        notes.append("%s: same run again -> %s" % (fn2, tgt))
                    k += 1
    p.renumber()
    return p, "; ".join(notes) or "no cut possible"


def splice_includes(project):
    """inverse of cut_includes: one file, INCLUDE directives replaced by the forests they name"""
    p = project.copy()

    def expand(fn, nodes, stack):
        out = []
        for n in nodes:
            if n.kind == "INCLUDE" and n.params:
                tgt = posixpath.normpath(posixpath.join(posixpath.dirname(fn), n.params[0]))
                if tgt in stack or tgt not in p.files:
                    out.append(n)
                    continue
                out += expand(tgt, [c.copy() for c in p.files[tgt]], stack + [tgt])
            else:
                n.children = expand(fn, n.children, stack)
                out.append(n)
        return out
    tops = expand(p.root, p.files[p.root], [p.root])
    return Project({p.root: tops}, p.root).renumber()


# ---------------------------------------------------------------------------------------
# C07: MACRO / PASTE

_PASTE_CTX = {None, "URL", "HTTP", "RESP", "Request", "INFO", "SERVER", "MACRO"}


def _macro_ok_run(parent, run):
    if (parent.kind if parent else None) not in _PASTE_CTX:
        return False
    seen_url = False
    for n in run:
        if n.kind not in ALLOWED["MACRO"] or n.kind == "INCLUDE":
            return False
        if any(d.kind == "INCLUDE" for d in n.walk()):
            return False
        if n.kind == "HTTP" and n.params and seen_url:
            return False    # inside a MACRO a method with a path after a URL would leave the macro
        if n.kind == "URL" and not n.force_parens:
            seen_url = True
    return True


def macroize(project, rng, count=None, max_depth=3):
    """replace runs of directives by PASTE @m and add MACRO @m ( run ) to the root file, before
    or after the use.  Macro bodies are themselves macroized up to max_depth.  MACROs are always
    written with explicit parentheses: without them a macro swallows what follows."""
    if not isinstance(project, Project):
        project = _lower(project)
    p = project.copy()
    notes = []
    existing = {d.params[0] for _, d in p.nodes() if d.kind == "MACRO" and d.params}
    count = count if count is not None else rng.randint(1, 3)
    serial = [0]
    root = p.files[p.root]

    def new_name():
        while True:
            serial[0] += 1
            n = "@m%d" % serial[0] if rng.random() < 0.8 else "@mac-%d_x" % serial[0]
            if n not in existing:
                existing.add(n)
                return n

    def pick(lists):
        cands = []
        for parent, lst in lists:
            lo = 1 if (parent is None and lst and lst[0].kind == "JSIGHT") else 0
            for i in range(lo, len(lst)):
                for ln in (1, 2, 3, 5):
                    run = lst[i:i + ln]
                    if len(run) == ln and _macro_ok_run(parent, run):
                        cands.append((parent, lst, i, ln))
        return rng.choice(cands) if cands else None

    def do(lists, depth):
        c = pick(lists)
        if c is None:
            return
        parent, lst, i, ln = c
        run = lst[i:i + ln]
        name = new_name()
        paste = Node("PASTE", "PASTE", [name], unit=run[0].unit, hint=run[0].hint)
        lst[i:i + ln] = [paste]
        for n in run:
            n.hint = 0
        mac = Node("MACRO", "MACRO", [name], children=run, force_parens=True, unit="macro:" + name)
        # the same run elsewhere (non declaring kinds only): paste the same macro
        if all(n.kind in _REUSABLE for n in run):
            sigs = [_sig(n) for n in run]
            for fn2, parent2, lst2 in _lists(p):
                if lst2 is run or (parent2.kind if parent2 else None) not in _PASTE_CTX:
                    continue
                k = 0
                while k + ln <= len(lst2):
                    if [_sig(n) for n in lst2[k:k + ln]] == sigs:
                        lst2[k:k + ln] = [Node("PASTE", "PASTE", [name], unit=run[0].unit)]
                        notes.append("%s pasted again" % name)
                    k += 1
        pos = rng.randint(1 if (root and root[0].kind == "JSIGHT") else 0, len(root))
        if rng.random() < 0.3:
            pos = len(root)
        root.insert(pos, mac)
        notes.append("MACRO %s <- %d directive(s) of %s, defined at top-level position %d" % (
            name, ln, parent.keyword if parent else "top level", pos))
        if depth < max_depth and rng.random() < 0.5:
            do([(mac, mac.children)] + [(d, d.children) for t in run for d in t.walk() if d.children], depth + 1)

    for _ in range(count):
        do([(parent, lst) for fn, parent, lst in _lists(p)], 1)
    if rng.random() < 0.15:
        name = new_name()
        root.append(Node("MACRO", "MACRO", [name], children=[Node("RESP", "418", ["any"])], force_parens=True,
                         unit="macro:" + name))
        notes.append("unused MACRO %s" % name)
    p.renumber()
    return p, "; ".join(notes) or "nothing to macroize"


def inline_macros(project):
    """inverse of macroize: every PASTE replaced by the body of its macro, MACROs deleted"""
    p = splice_includes(project) if len(project.files) > 1 else project.copy()
    tops = p.files[p.root]
    macros = {}
    for n in tops:
        if n.kind == "MACRO" and n.params:
            macros[n.params[0]] = n

    def expand(nodes, stack, hint=0):
        out = []
        for n in nodes:
            if n.kind == "PASTE" and n.params and n.params[0] in macros and n.params[0] not in stack:
                body = [c.copy() for c in macros[n.params[0]].children]
                for b in body:
                    b.hint = n.hint
                out += expand(body, stack + [n.params[0]])
            elif n.kind == "MACRO":
                continue
            else:
                n.children = expand(n.children, stack)
                out.append(n)
        return out
    return Project({p.root: expand(tops, [])}, p.root).renumber()


# ---------------------------------------------------------------------------------------
# self check: the library's context resolution, modelled


class ShapeError(Exception):
    pass


class _S:
    __slots__ = ("n", "kind", "explicit", "parent", "children")

    def __init__(self, n):
        self.n = n
        self.kind = n.kind
        self.explicit = False
        self.parent = None
        self.children = []


def _tokens(project, fn, nodes, stack, all_parens):
    for n in nodes:
        if n.kind == "INCLUDE" and n.params:
            tgt = posixpath.normpath(posixpath.join(posixpath.dirname(fn), n.params[0]))
            if tgt in stack:
                raise ShapeError("include cycle")
            if tgt not in project.files:
                raise ShapeError("missing file " + tgt)
            yield from _tokens(project, tgt, project.files[tgt], stack + [tgt], all_parens)
            continue
        yield ("dir", n)
        par = n.force_parens or (all_parens and not n.no_parens and (n.children or (n.body is not None and n.body_kind != "text")))
        if par:
            yield ("(", n)
        yield from _tokens(project, fn, n.children, stack, all_parens)
        if par:
            yield (")", n)


def _place(ctx, d, roots):
    """core/context_processing.go processContext; returns the new context"""
    while True:
        if ctx is None:
            if d.kind in ROOT_ALLOWED:
                roots.append(d)
                return d
            raise ShapeError("incorrect context of %s at root" % d.n.keyword)
        if d.kind in ALLOWED.get(ctx.kind, ()):
            if d.kind == "HTTP" and d.n.params and ctx.kind == "URL":
                if ctx.explicit:
                    raise ShapeError("method with a path inside a parenthesised URL")
                roots.append(d)
                return d
            d.parent = ctx
            ctx.children.append(d)
            return d
        if ctx.explicit:
            raise ShapeError("incorrect context of %s inside explicit %s" % (d.n.keyword, ctx.n.keyword))
        ctx = ctx.parent


def parse_shape(project, all_parens=False):
    """the forest after scanning (INCLUDE spliced), macro collection and PASTE expansion.
    all_parens: also put every optional pair of parentheses."""
    roots, ctx, last = [], None, None
    for t, n in _tokens(project, project.root, project.files[project.root], [project.root], all_parens):
        if t == "dir":
            last = _S(n)
            ctx = _place(ctx, last, roots)
        elif t == "(":
            last.explicit = True
        else:
            while True:
                if ctx is None:
                    raise ShapeError("no explicit context to close")
                if ctx.explicit:
                    ctx = ctx.parent
                    break
                ctx = ctx.parent
    macros = {}
    rest = []
    for r in roots:
        if r.kind == "MACRO":
            name = r.n.params[0] if r.n.params else ""
            if name in macros:
                raise ShapeError("duplicate macro")
            if not r.children:
                raise ShapeError("empty macro")
            macros[name] = r
        else:
            rest.append(r)
    out = []
    state = {"ctx": None}

    def proc(d, stack):
        if d.kind == "PASTE":
            name = d.n.params[0] if d.n.params else ""
            if name not in macros:
                raise ShapeError("macro not found")
            if name in stack:
                raise ShapeError("recursion")
            for c in macros[name].children:
                proc(c, stack + [name])
            return
        dd = _S(d.n)
        dd.explicit = d.explicit
        state["ctx"] = _place(state["ctx"], dd, out)
        for c in d.children:
            proc(c, stack)
        if d.explicit:
            state["ctx"] = dd.parent
    for r in rest:
        proc(r, [])
    return [_shape(x) for x in out]


def _shape(s):
    n = s.n
    return (n.keyword, tuple(n.params), n.annotation, n.body, tuple(_shape(c) for c in s.children))


def intended_shape(project):
    """the forest the generator meant: includes spliced, macros inlined, as written"""
    p = inline_macros(project)

    def sh(n):
        return (n.keyword, tuple(n.params), n.annotation, n.body, tuple(sh(c) for c in n.children))
    return [sh(n) for n in p.files[p.root]]
