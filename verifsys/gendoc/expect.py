"""The EXPECTED catalog of a model, written from the model alone (never by calling the
implementation), and the same projection ("skeleton") computed from the JSON the
implementation produced.  Ordered maps are lists of [key, value] pairs so that order and
duplicates are part of what is compared.

Schema content (the AST of the schema library) is projected away except: notation, the
[tokenType, type] of the root node, the regex source, usedUserTypes / usedUserEnums.
"""
import re
import json

from .model import ApiModel, UrlBlock, HttpMethod, RpcUrl, Schema

JSIGHT_VERSION = "0.3"

# ---------------------------------------------------------------------------------------
# small models of what the library does to names and texts


def go_path_escape(s):
    """net/url.PathEscape"""
    out = []
    for b in s.encode("utf-8"):
        c = chr(b)
        if c.isascii() and (c.isalnum() or c in "-_.~$&+:=@"):
            out.append(c)
        else:
            out.append("%%%02X" % b)
    return "".join(out)


def path_tag_title(path):
    p = path.split("/")
    while p and p[0] in ("", "."):
        p = p[1:]
    return "/" + p[0] if p else "/"


def tag_name(title):
    if title == "/":
        return "@_"
    t = title.replace("/", "@", 1).replace("_", "__")
    return go_path_escape(t).replace("%", "_")


def norm_annotation(a):
    if a is None:
        return None
    # catalog.Annotation: strings.TrimSpace (Unicode White_Space at both ends) and every run of RE2's \s - which is
    # [\t\n\f\r ] and nothing else - becomes one space; a no-break or ideographic space inside the text is content
    a = a.strip()
    a = re.sub(r"[\t\n\f\r ]+", " ", a)
    return a or None


def norm_description(t):
    """core/description.go for the texts the generator writes (first line not indented)"""
    if t is None:
        return None
    t = t.replace("\r\n", "\n").replace("\r", "\n")
    t = t.lstrip("\r\n").rstrip("\r\n\t ")
    return t


def body_format(notation):
    return {"jsight": "json", "regex": "plainString", "any": "binary", "empty": "binary"}[notation]


def path_params(path):
    """[(prefix up to and including the parameter segment, name)]"""
    segs = [s for s in path.strip("/").split("/") if s]
    out = []
    for i, s in enumerate(segs):
        if s.startswith("{") and s.endswith("}"):
            out.append(("/".join(segs[:i + 1]), s[1:-1]))
    return out


# ---------------------------------------------------------------------------------------
# inheritance bookkeeping (core/compile_catalog.go ProcessAllOf): which names end up in
# usedUserTypes depends on which schema reaches a base type first


class _AllOf:
    def __init__(self, model):
        self.types = {t.name: t for t in model.types}
        self.children = {t.name: [[p, ""] for p in t.props] for t in model.types}
        self.processed = set()

    def process(self, children, allof, used):
        for base in reversed(allof):
            self.inherit(children, used, base)

    def inherit(self, children, used, base):
        t = self.types.get(base)
        if t is None:
            return
        if base not in self.processed:
            self.processed.add(base)
            self.process(self.children[base], t.allof, used)
        for p, inh in reversed(self.children[base]):
            if any(c[0] == p for c in children):
                continue
            if inh == "" and base not in used:
                used.append(base)
            children.insert(0, [p, base])


def _schema_proj(s: Schema):
    if s.notation == "regex":
        return {"notation": "regex", "regex": s.text[1:-1], "used": [], "enums": []}
    return {"notation": "jsight", "top": list(s.top) if s.top else None, "used": list(s.refs), "enums": []}


def _type_param_schema(tp):
    if tp.startswith("["):
        return Schema(tp, "jsight", [tp[1:-1]], [], ["array", "array"])
    return Schema(tp, "jsight", [tp], [], ["reference", tp])


def _body_of(x):
    """(format, Schema or notation) of a Request/Response"""
    if x.type:
        return "json", _type_param_schema(x.type)
    if x.notation in ("any", "empty"):
        return "binary", x.notation
    if x.notation == "regex":
        return "plainString", x.schema
    return "json", x.schema


def catalog_of(model: ApiModel) -> dict:
    cat = {"jsight": JSIGHT_VERSION, "info": None, "servers": [], "userTypes": [], "userEnums": [],
           "tags": [], "interactions": []}
    if model.info is not None:
        i = model.info
        cat["info"] = {"title": i.title, "version": i.version, "description": norm_description(i.description)}

    units = model.units()
    allof = _AllOf(model)
    late = []      # (projection dict, Schema) in the order the library expands inheritance

    for k, idx in units:
        x = model.unit([k, idx])
        if k == "server":
            cat["servers"].append([x.name, {"annotation": norm_annotation(x.annotation), "baseUrl": x.base_url}])
        elif k == "type":
            if x.notation in ("any", "empty"):
                sp = {"notation": x.notation}
            else:
                sp = _schema_proj(x.schema())
            cat["userTypes"].append([x.name, {"annotation": norm_annotation(x.annotation), "schema": sp}])
        elif k == "enum":
            vals = []
            for v in x.values:
                if isinstance(v, str):
                    vals.append(["string", v])
                elif isinstance(v, bool):
                    vals.append(["boolean", "true" if v else "false"])
                elif v is None:
                    vals.append(["null", "null"])
                else:
                    vals.append(["number", json.dumps(v)])
            cat["userEnums"].append([x.name, {"annotation": norm_annotation(x.annotation) or "", "values": vals}])
        elif k == "tag":
            cat["tags"].append([x.name, {"title": norm_annotation(x.annotation) or x.name,
                                         "description": norm_description(x.description),
                                         "http": [], "json-rpc-2.0": []}])

    # 1. inheritance of the user types, in declaration order
    for name, e in cat["userTypes"]:
        t = allof.types[name]
        if t.notation == "jsight" and t.top == ["object", "object"]:
            allof.process(allof.children[name], t.allof, e["schema"]["used"])

    tags = cat["tags"]

    def tag_entry(name):
        for n, e in tags:
            if n == name:
                return e
        return None

    def assign_tags(names, path, iid, proto):
        if not names:
            title = path_tag_title(path)
            n = tag_name(title)
            if tag_entry(n) is None:
                tags.append([n, {"title": title, "description": None, "http": [], "json-rpc-2.0": []}])
            names = [n]
        for n in names:
            tag_entry(n)[proto].append(iid)
        return list(names)

    # which path parameters are described by some Path directive
    described = set()
    for b in model.blocks:
        if isinstance(b, UrlBlock):
            if b.path_schema:
                pp = dict((n, pre) for pre, n in path_params(b.path))
                described.update(pp[n] for n in b.path_schema.props)
            for m in b.methods:
                if m.path_schema:
                    pp = dict((n, pre) for pre, n in path_params(m.path or b.path))
                    described.update(pp[n] for n in m.path_schema.props)
        elif isinstance(b, HttpMethod) and b.path_schema:
            pp = dict((n, pre) for pre, n in path_params(b.path))
            described.update(pp[n] for n in b.path_schema.props)

    q_l, rh_l, rb_l, sh_l, sb_l = [], [], [], [], []

    def http(m: HttpMethod, url: UrlBlock):
        path = m.path or url.path
        iid = "http %s %s" % (m.verb, path)
        names = m.tags or ((url.tags if (url is not None and m.path is None) else []))
        e = {"protocol": "http", "httpMethod": m.verb, "path": path,
             "annotation": norm_annotation(m.annotation), "description": norm_description(m.description),
             "tags": assign_tags(list(names), path, iid, "http"),
             "query": None, "request": None, "responses": [],
             "pathVariables": [n for pre, n in path_params(path) if pre in described] or None}
        if m.query:
            sp = _schema_proj(m.query.schema)
            q_l.append((sp, m.query.schema))
            e["query"] = {"format": m.query.format or "htmlFormEncoded", "example": m.query.example or None,
                          "schema": sp}

        def body(x, hl, bl):
            fmt, s = _body_of(x)
            if isinstance(s, str):
                sp = {"notation": s}
            else:
                sp = _schema_proj(s)
                bl.append((sp, s))
            hp = None
            if x.headers is not None:
                hp = _schema_proj(x.headers)
                hl.append((hp, x.headers))
            return fmt, sp, hp
        if m.request:
            fmt, sp, hp = body(m.request, rh_l, rb_l)
            e["request"] = {"format": fmt, "schema": sp, "headers": hp}
        for r in [m.responses[int(t[1:])] for t in m.tokens() if t[0] == "r" and t[1:].isdigit()]:
            fmt, sp, hp = body(r, sh_l, sb_l)
            e["responses"].append({"code": r.code, "annotation": norm_annotation(r.annotation), "format": fmt,
                                   "schema": sp, "headers": hp})
        cat["interactions"].append([iid, e])

    for k, idx in units:
        if k != "block":
            continue
        b = model.blocks[idx]
        if isinstance(b, HttpMethod):
            http(b, None)
        elif isinstance(b, UrlBlock):
            for t in b.tokens():
                if t.startswith("m"):
                    http(b.methods[int(t[1:])], b)
        elif isinstance(b, RpcUrl):
            for m in b.methods:
                iid = "json-rpc-2.0 %s %s" % (m.name, b.path)
                e = {"protocol": "json-rpc-2.0", "method": m.name, "path": b.path,
                     "annotation": norm_annotation(m.annotation), "description": norm_description(m.description),
                     "tags": assign_tags(list(m.tags or b.tags), b.path, iid, "json-rpc-2.0"),
                     "params": _schema_proj(m.params) if m.params else None,
                     "result": _schema_proj(m.result) if m.result else None}
                cat["interactions"].append([iid, e])

    # 2. inheritance of the other schemas: all queries, then all request headers, request
    # bodies, response headers, response bodies (JSON-RPC params/results are not expanded)
    for lst in (q_l, rh_l, rb_l, sh_l, sb_l):
        for sp, s in lst:
            if s.notation == "jsight" and s.top == ["object", "object"] and s.allof:
                allof.process([[p, ""] for p in s.props], s.allof, sp["used"])
    return cat


# ---------------------------------------------------------------------------------------
# the same projection from the implementation's JSON


class Dup(Exception):
    pass


def parse_pairs(b):
    """order- and duplicate-preserving parse: objects become lists of [key, value]"""
    return json.loads(b.decode("utf-8") if isinstance(b, (bytes, bytearray)) else b,
                      object_pairs_hook=lambda ps: _Obj(ps))


class _Obj(list):
    """a JSON object as a list of (key, value)"""

    def get(self, k, default=None):
        for kk, v in self:
            if kk == k:
                return v
        return default

    def keys(self):
        return [k for k, _ in self]


def duplicates(o, path="$"):
    out = []
    if isinstance(o, _Obj):
        ks = o.keys()
        for k in sorted(set(ks)):
            if ks.count(k) > 1:
                out.append("%s: key %r occurs %d times" % (path, k, ks.count(k)))
        for k, v in o:
            out += duplicates(v, path + "." + k)
    elif isinstance(o, list):
        for i, v in enumerate(o):
            out += duplicates(v, "%s[%d]" % (path, i))
    return out


def _sk_schema(s):
    if s is None:
        return None
    n = s.get("notation")
    if n == "jsight":
        c = s.get("content")
        top = [c.get("tokenType"), c.get("type")] if isinstance(c, _Obj) else None
        return {"notation": n, "top": top, "used": list(s.get("usedUserTypes") or []),
                "enums": list(s.get("usedUserEnums") or [])}
    if n == "regex":
        return {"notation": n, "regex": s.get("content"), "used": list(s.get("usedUserTypes") or []),
                "enums": list(s.get("usedUserEnums") or [])}
    return {"notation": n}


def skeleton(json_bytes) -> dict:
    o = parse_pairs(json_bytes)
    sk = {"jsight": o.get("jsight"), "info": None, "servers": [], "userTypes": [], "userEnums": [], "tags": [],
          "interactions": [], "duplicate_keys": duplicates(o)}
    i = o.get("info")
    if i is not None:
        sk["info"] = {"title": i.get("title"), "version": i.get("version"), "description": i.get("description")}
    for n, s in (o.get("servers") or []):
        sk["servers"].append([n, {"annotation": s.get("annotation") or None, "baseUrl": s.get("baseUrl")}])
    for n, t in (o.get("userTypes") or []):
        sk["userTypes"].append([n, {"annotation": t.get("annotation") or None, "schema": _sk_schema(t.get("schema"))}])
    for n, e in (o.get("userEnums") or []):
        vals = [[c.get("tokenType"), c.get("scalarValue")] for c in (e.get("value").get("children") or [])]
        sk["userEnums"].append([n, {"annotation": e.get("annotation"), "values": vals}])
    for n, t in (o.get("tags") or []):
        e = {"title": t.get("title"), "description": t.get("description"), "http": [], "json-rpc-2.0": []}
        if t.get("name") != n:
            e["name_mismatch"] = t.get("name")
        for g in t.get("interactionGroups") or []:
            e.setdefault(g.get("protocol"), [])
            e[g.get("protocol")] = list(g.get("interactions"))
        sk["tags"].append([n, e])
    for iid, x in (o.get("interactions") or []):
        if x.get("protocol") == "http":
            e = {"protocol": "http", "httpMethod": x.get("httpMethod"), "path": x.get("path"),
                 "annotation": x.get("annotation") or None, "description": x.get("description"),
                 "tags": list(x.get("tags") or []), "query": None, "request": None, "responses": [],
                 "pathVariables": None}
            pv = x.get("pathVariables")
            if pv is not None:
                e["pathVariables"] = [c.get("key") for c in pv.get("schema").get("content").get("children")]
            q = x.get("query")
            if q is not None:
                e["query"] = {"format": q.get("format"), "example": q.get("example") or None,
                              "schema": _sk_schema(q.get("schema"))}
            r = x.get("request")
            if r is not None:
                b = r.get("body")
                h = r.get("headers")
                e["request"] = {"format": b.get("format") if b else None,
                                "schema": _sk_schema(b.get("schema")) if b else None,
                                "headers": _sk_schema(h.get("schema")) if h else None}
            for rs in x.get("responses") or []:
                b = rs.get("body")
                h = rs.get("headers")
                e["responses"].append({"code": rs.get("code"), "annotation": rs.get("annotation") or None,
                                       "format": b.get("format") if b else None,
                                       "schema": _sk_schema(b.get("schema")) if b else None,
                                       "headers": _sk_schema(h.get("schema")) if h else None})
        else:
            p, r = x.get("params"), x.get("result")
            e = {"protocol": x.get("protocol"), "method": x.get("method"), "path": x.get("path"),
                 "annotation": x.get("annotation") or None, "description": x.get("description"),
                 "tags": list(x.get("tags") or []),
                 "params": _sk_schema(p.get("schema")) if p else None,
                 "result": _sk_schema(r.get("schema")) if r else None}
        if x.get("id") != iid:
            e["id_mismatch"] = x.get("id")
        sk["interactions"].append([iid, e])
    return sk


def diff(expected, actual, path="$") -> list:
    """differences as text lines ([] = equal).  `duplicate_keys` of the actual skeleton must be []."""
    out = []
    if path == "$":
        for d in actual.get("duplicate_keys", []):
            out.append("duplicate key: " + d)
        actual = {k: v for k, v in actual.items() if k != "duplicate_keys"}
        expected = {k: v for k, v in expected.items() if k != "duplicate_keys"}
    if isinstance(expected, dict) and isinstance(actual, dict):
        for k in sorted(set(expected) | set(actual)):
            if k not in expected:
                out.append("%s.%s: unexpected %r" % (path, k, actual[k]))
            elif k not in actual:
                out.append("%s.%s: missing (expected %r)" % (path, k, expected[k]))
            else:
                out += diff(expected[k], actual[k], "%s.%s" % (path, k))
        return out
    if isinstance(expected, list) and isinstance(actual, list):
        pairs = all(isinstance(x, list) and len(x) == 2 and isinstance(x[0], str) and isinstance(x[1], dict)
                    for x in expected + actual) and (expected or actual)
        if pairs:
            ek, ak = [x[0] for x in expected], [x[0] for x in actual]
            if ek != ak:
                out.append("%s: keys/order differ: expected %r, actual %r" % (path, ek, ak))
            ad = {}
            for k, v in actual:
                ad.setdefault(k, v)
            for k, v in expected:
                if k in ad:
                    out += diff(v, ad[k], "%s[%s]" % (path, k))
            return out
        if len(expected) != len(actual):
            out.append("%s: expected %r, actual %r" % (path, expected, actual))
            return out
        for i, (e, a) in enumerate(zip(expected, actual)):
            out += diff(e, a, "%s[%d]" % (path, i))
        return out
    if expected != actual:
        out.append("%s: expected %r, actual %r" % (path, expected, actual))
    return out


# ---------------------------------------------------------------------------------------
# whole-catalog comparisons for pairs of runs (C10 permutation, C20 locality)

SECTIONS = ["servers", "userTypes", "userEnums", "tags", "interactions"]


def entries(json_bytes):
    """section -> [(key, canonical JSON text of the value)], plus 'info' and 'jsight'.
    Inside a tag the interaction lists are kept in order."""
    o = parse_pairs(json_bytes)
    out = {}
    for s in SECTIONS:
        out[s] = [(k, json.dumps(_plain(v), sort_keys=False, ensure_ascii=False)) for k, v in (o.get(s) or [])]
    out["info"] = json.dumps(_plain(o.get("info")), ensure_ascii=False)
    out["jsight"] = o.get("jsight")
    return out


def _plain(o):
    if isinstance(o, _Obj):
        return [[k, _plain(v)] for k, v in o]
    if isinstance(o, list):
        return [_plain(x) for x in o]
    return o


def _tag_unordered(text):
    """canonical text of a tag entry with its interaction lists sorted"""
    v = json.loads(text)

    def fix(x):
        if isinstance(x, list):
            if x and all(isinstance(p, list) and len(p) == 2 and isinstance(p[0], str) for p in x):
                return [[k, (sorted(val) if k == "interactions" else fix(val))] for k, val in x]
            return [fix(i) for i in x]
        return x
    return json.dumps(fix(v), ensure_ascii=False)


def _strip(v, names):
    """v: nested [[key, value], ...] pairs as produced by _plain; drop the named members"""
    if isinstance(v, list):
        if v and all(isinstance(p, list) and len(p) == 2 and isinstance(p[0], str) for p in v):
            return [[k, _strip(x, names)] for k, x in v if k not in names]
        return [_strip(x, names) for x in v]
    return v


def classify(va, vb):
    """why two entry texts differ: 'example' (only "example" members), 'usedUserTypes' (only those
    lists), 'example+usedUserTypes', or 'content'"""
    a, b = json.loads(va), json.loads(vb)
    if _strip(a, ("example",)) == _strip(b, ("example",)):
        return "example"
    if _strip(a, ("usedUserTypes",)) == _strip(b, ("usedUserTypes",)):
        return "usedUserTypes"
    if _strip(a, ("example", "usedUserTypes")) == _strip(b, ("example", "usedUserTypes")):
        return "example+usedUserTypes"
    return "content"


def compare_entries(a_json, b_json, extra_in_b=None, tag_lists_unordered=True, ignore_tags=()):
    """differences between two catalogs when the order of the entries of every section (and of the
    interaction lists inside tags) is ignored.  extra_in_b: {section: keys} that b may have in
    addition.  Returns [{"section", "key", "what": only-first|only-second|differs, "class", "text"}]"""
    a, b = entries(a_json), entries(b_json)
    extra_in_b = extra_in_b or {}
    out = []
    if a["info"] != b["info"]:
        out.append({"section": "info", "key": "", "what": "differs", "class": "content",
                    "text": "info differs: %s / %s" % (a["info"], b["info"])})
    for s in SECTIONS:
        da, db = dict(a[s]), dict(b[s])
        if len(da) != len(a[s]) or len(db) != len(b[s]):
            out.append({"section": s, "key": "", "what": "duplicate keys", "class": "content", "text": "%s: duplicate keys" % s})
        for k in da:
            if k not in db:
                out.append({"section": s, "key": k, "what": "only-first", "class": "content",
                            "text": "%s[%s]: only in the first" % (s, k)})
                continue
            va, vb = da[k], db[k]
            if s == "tags":
                if k in ignore_tags:
                    continue
                if tag_lists_unordered:
                    va, vb = _tag_unordered(va), _tag_unordered(vb)
            if va != vb:
                out.append({"section": s, "key": k, "what": "differs", "class": classify(va, vb),
                            "text": "%s[%s]: content differs:\n      first : %s\n      second: %s" % (
                                s, k, _short_diff(va, vb), _short_diff(vb, va))})
        for k in db:
            if k not in da and k not in extra_in_b.get(s, ()):
                out.append({"section": s, "key": k, "what": "only-second", "class": "content",
                            "text": "%s[%s]: only in the second" % (s, k)})
    return out


def compare_modulo_order(a_json, b_json, extra_in_b=None, tag_lists_unordered=True, ignore_tags=()):
    """compare_entries as text lines"""
    return [d["text"] for d in compare_entries(a_json, b_json, extra_in_b, tag_lists_unordered, ignore_tags)]


def _short_diff(x, y, ctx=60):
    """the part of x around the first difference with y"""
    i = 0
    while i < min(len(x), len(y)) and x[i] == y[i]:
        i += 1
    return ("..." if i > ctx else "") + x[max(0, i - ctx):i + ctx] + ("..." if len(x) > i + ctx else "")


def order_of(json_bytes):
    """section -> list of keys in order"""
    e = entries(json_bytes)
    return {s: [k for k, _ in e[s]] for s in SECTIONS}
