"""C12 — abstract inheritance environments: text encoding for the model runner, rendering to a
.jst project, reading the same canonical rendering back from the implementation's JSON, an
independent Python statement of the property, and the enumerations used by the check and by
the exhaustive search.

An environment is (types, uses):
  types = [(name, tree | None)]      None = a user type that is not jsight (TYPE @n regex)
  uses  = [(kind, tree)]             kind in KINDS
  tree  = ("o", [base names], [(key, tree), ...])     object
        | ("a", [], [tree, ...])                      array
        | ("s", [], [])                               scalar
The canonical rendering (same text from model and implementation):
  "ok <types>|<uses> used=<lists>"      schema = name ":" body, joined by ";"
  body = "{kid,...}" | "[kid,...]" | "s" | "~"      kid = key "<" inheritedFrom ">" [body of object/array]
"""
import itertools
import json

KINDS = ["path", "query", "reqh", "req", "resph", "resp", "rpcp", "rpcr"]
HTTP_KINDS = KINDS[:6]
PHASES = HTTP_KINDS


def O(bases=(), *props):
    return ("o", list(bases), list(props))


def A(*items):
    return ("a", [], list(items))


S = ("s", [], [])


# ---------------------------------------------------------------------------------------
# encoding for `modelrun allof*`


def enc_tree(t):
    k, bases, kids = t
    b = ("<" + ",".join(bases) + ">") if bases else ""
    if k == "o":
        return "o" + b + "{" + ",".join(key + ":" + enc_tree(c) for key, c in kids) + "}"
    if k == "a":
        return "a" + b + "[" + ",".join(enc_tree(c) for c in kids) + "]"
    return "s" + b


def enc_env(types, uses):
    ts = ";".join(n + "=" + ("~" if t is None else enc_tree(t)) for n, t in types) or "-"
    us = ";".join(k + "=" + enc_tree(t) for k, t in uses) or "-"
    return ts + " " + us


# ---------------------------------------------------------------------------------------
# rendering to a JSight document


def tree_lines(t, ind):
    """the lines of a schema value; line 0 carries no indentation (it follows a key or is placed by
    the caller), the others are indented absolutely; a rule comment stays on the line of the
    opening token of the value it belongs to"""
    k, bases, kids = t
    rule = ""
    if bases:
        if len(bases) == 1:
            rule = ' // {allOf: "%s"}' % bases[0]
        else:
            rule = " // {allOf: [%s]}" % ", ".join('"%s"' % b for b in bases)
    if k == "s":
        return ["1" + rule]
    lines = [("{" if k == "o" else "[") + rule]
    for i, kid in enumerate(kids):
        key, c = kid if k == "o" else (None, kid)
        sub = tree_lines(c, ind + 2)
        comma = "," if i + 1 < len(kids) else ""
        prefix = " " * (ind + 2) + ('"%s": ' % key if key is not None else "")
        if len(sub) == 1:
            val, sep, cm = sub[0].partition(" //")
            lines.append(prefix + val + comma + ((sep + cm) if sep else ""))
        else:
            lines.append(prefix + sub[0])
            lines += sub[1:-1]
            lines.append(sub[-1] + comma)
    lines.append(" " * ind + ("}" if k == "o" else "]"))
    return lines


def jst_tree(t, ind):
    return "\n".join(tree_lines(t, ind))


def block(t, ind):
    return " " * ind + jst_tree(t, ind)


def to_jst(types, uses, spec_keys=None):
    """One interaction per use site: POST /u<i> (path: POST /u<i>/{k}... for the keys the path
    object must end up with: spec_keys(i) -> list of keys), JSON-RPC: URL /u<i>, Method m<i>."""
    out = ["JSIGHT 0.3", ""]
    for n, t in types:
        if t is None:
            out += ["TYPE %s regex" % n, "    /a/", ""]
        else:
            out += ["TYPE %s" % n, block(t, 4), ""]
    for i, (k, t) in enumerate(uses):
        if k in ("rpcp", "rpcr"):
            out += ["URL /u%d" % i, "  Protocol json-rpc-2.0", "  Method m%d" % i]
            if k == "rpcp":
                out += ["    Params", block(t, 6), "    Result", "      1"]
            else:
                out += ["    Params", "      1", "    Result", block(t, 6)]
            out.append("")
            continue
        if i % 2 == 1:
            # a neighbour without any JSight schema: every per-interaction loop must go on after it
            out += ["GET /d%d" % i, "    200 any", ""]
        path = "/u%d" % i
        if k == "path":
            keys = spec_keys(i) if spec_keys else [key for key, _ in t[2]]
            path += "".join("/{%s}" % key for key in keys)
        out.append("POST " + path)
        if k == "path":
            out += ["    Path", block(t, 8)]
        elif k == "query":
            out += ["    Query", block(t, 8)]
        elif k == "reqh":
            out += ["    Request", "        Headers", block(t, 12), "        Body any"]
        elif k == "req":
            out += ["    Request", block(t, 8)]
        elif k == "resph":
            # the response that carries the schema is the last, the FIRST or the only response of its method
            if i % 3 == 1:
                out += ["    204 any", "    404", "        Body empty"]
            out += ["    200", "        Headers", block(t, 12), "        Body any"]
            if i % 3 == 0:
                out += ["    204 any", "    404", "        Body empty"]
        elif k == "resp":
            if i % 3 == 1:
                out += ["    204 any", "    401 regex", "        /a/", "    404", "        Headers", "            {}", "        Body empty"]
            out += ["    200", block(t, 8)]
            if i % 3 == 0:
                out += ["    204 any", "    401 regex", "        /a/", "    404", "        Headers", "            {}", "        Body empty"]
        out.append("")
    return "\n".join(out)


# ---------------------------------------------------------------------------------------
# canonical rendering


def body_of_content(c):
    if c is None:
        return "?"
    tt = c.get("tokenType")
    if tt == "object":
        return "{" + ",".join(kid_of_content(x) for x in c.get("children", [])) + "}"
    if tt == "array":
        return "[" + ",".join(kid_of_content(x) for x in c.get("children", [])) + "]"
    return "s"


def kid_of_content(c):
    s = (c.get("key") or "") + "<" + c.get("inheritedFrom", "") + ">"
    tt = c.get("tokenType")
    if tt in ("object", "array"):
        s += body_of_content(c)
    return s


def _schema(x):
    return (x or {}).get("schema") or {}


def use_schema(j, i, kind):
    """the schema object of use site i in the implementation's JSON"""
    for key, it in j.get("interactions", {}).items():
        p = it.get("path", "")
        if not (p == "/u%d" % i or p.startswith("/u%d/" % i)):
            continue
        if kind == "path":
            return _schema(it.get("pathVariables"))
        if kind == "query":
            return _schema(it.get("query"))
        if kind == "reqh":
            return _schema((it.get("request") or {}).get("headers"))
        if kind == "req":
            return _schema((it.get("request") or {}).get("body"))
        if kind == "resph":
            return _schema([r for r in it["responses"] if r.get("code") == "200"][0].get("headers"))
        if kind == "resp":
            return _schema([r for r in it["responses"] if r.get("code") == "200"][0].get("body"))
        if kind == "rpcp":
            return _schema(it.get("params"))
        if kind == "rpcr":
            return _schema(it.get("result"))
    return {}


def render_json(types, uses, j):
    """'ok ...' line of the model, computed from the implementation's JSON"""
    ts, used = [], []
    ut = j.get("userTypes", {})
    names = list(ut.keys())
    for n in names:
        sch = ut[n].get("schema", {})
        if sch.get("notation") != "jsight":
            ts.append(n + ":~")
            used.append("-")
        else:
            ts.append(n + ":" + body_of_content(sch.get("content")))
            used.append(",".join(sch.get("usedUserTypes") or []) or "-")
    us = []
    for i, (k, t) in enumerate(uses):
        sch = use_schema(j, i, k)
        us.append(k + ":" + body_of_content(sch.get("content")))
        # pathVariables carry no usedUserTypes: the Path schema is rebuilt
        used.append(",".join(sch.get("usedUserTypes") or []) or "-")
    return "ok " + ";".join(ts) + "|" + ";".join(us), ";".join(used)


def classify_error(msg):
    m = msg
    if "not found" in m:
        return "notfound"
    if "must be an object" in m or "is not an object" in m:
        return "notobject"
    if "Duplicate keys" in m or "not allowed to override" in m:
        return "dup"
    if "recursion" in m.lower():
        return "recursion"
    return "other:" + m[:60]


# ---------------------------------------------------------------------------------------
# the property, in Python, independent of the Coq text


class Reject(Exception):
    pass


# deviations an implementation may show (the KNOWN classes of checks/c12.py name the ones it is known
# to show: none since /repo a2c8521 + d4084b3), switched on only to recognise them:
# "array" = nothing below an array is expanded, "rpc" = JSON-RPC schemas are not visited
DEVIATIONS = set()


def spec_children(tys, t, stack):
    """children of object t after inheritance: [(key, inheritedFrom, subtree-rendering)]"""
    k, bases, kids = t
    out = []
    for b in bases:
        if b not in tys:
            raise Reject("notfound")
        bt = tys[b]
        if bt is None or bt[0] != "o":
            raise Reject("notobject")
        if b in stack:
            raise Reject("recursion")
        for key, _, sub in spec_children(tys, bt, stack + [b]):
            out.append((key, b, sub))
    for key, c in kids:
        out.append((key, "", spec_sub(tys, c, stack)))
    keys = [x[0] for x in out]
    if len(set(keys)) != len(keys):
        raise Reject("dup")
    return out


def spec_sub(tys, t, stack):
    k = t[0]
    if k == "o":
        return "{" + ",".join("%s<%s>%s" % x for x in spec_children(tys, t, stack)) + "}"
    if k == "a":
        if t[1]:
            raise Reject("other")
        if "array" in DEVIATIONS:
            return "[" + ",".join("<>" + raw_sub(c) for c in t[2]) + "]"
        return "[" + ",".join("<>" + spec_sub(tys, c, stack) for c in t[2]) + "]"
    if t[1]:
        raise Reject("other")
    return ""


def raw_sub(t):
    """as declared: no inheritance"""
    if t[0] == "o":
        return "{" + ",".join("%s<>%s" % (key, raw_sub(c)) for key, c in t[2]) + "}"
    if t[0] == "a":
        return "[" + ",".join("<>" + raw_sub(c) for c in t[2]) + "]"
    return ""


def spec_body(tys, t, stack=()):
    s = spec_sub(tys, t, list(stack))
    return s if t[0] != "s" else "s"


def py_spec(types, uses):
    """('ok', rendering) or ('rej', kinds): kinds = set of reasons found in any schema"""
    tys = dict(types)
    if len(tys) != len(types):
        return "rej", {"duptype"}
    reasons = set()
    ts, us = [], []
    for n, t in types:
        if t is None:
            ts.append(n + ":~")
            continue
        try:
            ts.append(n + ":" + spec_body(tys, t, [n]))
        except Reject as e:
            reasons.add(str(e))
    for k, t in uses:
        try:
            body = spec_body(tys, t)
            if "rpc" in DEVIATIONS and k in ("rpcp", "rpcr"):
                body = raw_sub(t) if t[0] != "s" else "s"
            us.append(k + ":" + body)
        except Reject as e:
            reasons.add(str(e))
    if reasons:
        return "rej", reasons
    return "ok", "ok " + ";".join(ts) + "|" + ";".join(us)


def py_spec_deviating(types, uses, classes):
    """the rendering when the deviations `classes` (subset of {"array","rpc"}) are switched on"""
    global DEVIATIONS
    old = DEVIATIONS
    DEVIATIONS = set(classes)
    try:
        return py_spec(types, uses)
    finally:
        DEVIATIONS = old


def has_allof(t):
    return bool(t[1]) or any(has_allof(c if t[0] == "a" else c[1]) for c in t[2])


def allof_under_array(t, under=False):
    if t[1] and under:
        return True
    u = under or t[0] == "a"
    return any(allof_under_array(c if t[0] == "a" else c[1], u) for c in t[2])


def classes(types, uses):
    """classes of projects: "array" = an allOf rule at or below an array, "rpc" = a rule in a JSON-RPC
    schema (the two classes on which the implementation did not expand allOf before the fixes)"""
    cl = set()
    for n, t in types:
        if t is not None and allof_under_array(t):
            cl.add("array")
    for k, t in uses:
        if allof_under_array(t):
            cl.add("array")
        if k in ("rpcp", "rpcr") and has_allof(t):
            cl.add("rpc")
    return cl


def all_bases(t):
    """every type named in an allOf rule anywhere in t"""
    out = list(t[1])
    for c in t[2]:
        out += all_bases(c if t[0] == "a" else c[1])
    return out


def json_statement(j):
    """The property read off the JSON alone: every object that carries an allOf rule lists, before
    its own (unmarked) properties, the children of each named user type as the JSON shows them,
    in rule order, each marked with that type; returns a list of complaints."""
    bad = []
    ut = j.get("userTypes", {})

    def base_names(c):
        for r in c.get("rules", []) or []:
            if r.get("key") == "allOf":
                if r.get("tokenType") == "array":
                    return [x.get("scalarValue") for x in r.get("children", [])]
                return [r.get("scalarValue")]
        return None

    def walk(c, where):
        if not isinstance(c, dict):
            return
        if c.get("tokenType") == "object":
            bases = base_names(c)
            if bases is not None:
                exp = []
                for b in bases:
                    bc = ((ut.get(b) or {}).get("schema") or {}).get("content") or {}
                    for ch in bc.get("children", []):
                        exp.append((ch.get("key"), b))
                got = [(ch.get("key"), ch.get("inheritedFrom", "")) for ch in c.get("children", [])]
                inherited = [g for g in got if g[1]]
                k = len(inherited)
                if got[:k] != inherited:
                    bad.append("%s: an inherited property comes after an own property: %r" % (where, got))
                elif inherited != exp:
                    bad.append("%s: inherited properties %r, expected %r from the bases %r" % (where, inherited, exp, bases))
                keys = [g[0] for g in got]
                if len(set(keys)) != len(keys):
                    bad.append("%s: a property is listed twice: %r" % (where, keys))
        for ch in c.get("children", []) or []:
            walk(ch, where + "/" + (ch.get("key") or "[]"))

    for n, t in ut.items():
        walk((t.get("schema") or {}).get("content"), n)
    for key, it in j.get("interactions", {}).items():
        for nm in ("pathVariables", "query", "params", "result"):
            walk(_schema(it.get(nm)).get("content"), key + " " + nm)
        rq = it.get("request") or {}
        walk(_schema(rq.get("headers")).get("content"), key + " request headers")
        walk(_schema(rq.get("body")).get("content"), key + " request body")
        for r in it.get("responses", []) or []:
            walk(_schema(r.get("headers")).get("content"), key + " %s headers" % r.get("code"))
            walk(_schema(r.get("body")).get("content"), key + " %s body" % r.get("code"))
    return bad


# ---------------------------------------------------------------------------------------
# enumerations


def ordered_subsets(items, maxlen):
    for n in range(0, maxlen + 1):
        yield from itertools.permutations(items, n)


def own_props(i, cnt, shared=False):
    """own properties of type i; shared: keys from a common pool so that clashes occur"""
    if shared:
        return [("x", S), ("y", S)][:cnt]
    return [("k%d%s" % (i, "ab"[c]), S) for c in range(cnt)]


def graphs(n, max_own, max_bases, shared=False):
    """every labelled inheritance graph on n types @t0..@t(n-1) (catalog order = label order):
    type i names any ordered list of up to max_bases OTHER types and has 0..max_own own
    properties.  Cycles and clashes are included (the library rejects them)."""
    names = ["@t%d" % i for i in range(n)]
    per = []
    for i in range(n):
        others = [names[j] for j in range(n) if j != i]
        opts = []
        for bases in ordered_subsets(others, max_bases):
            for cnt in range(0, max_own + 1):
                opts.append(O(bases, *own_props(i, cnt, shared)))
        per.append(opts)
    for combo in itertools.product(*per):
        yield [(names[i], combo[i]) for i in range(n)]


def use_sites_for(names, kinds, max_bases=2):
    """candidate use sites: an object with one own property inheriting from 1..max_bases types"""
    out = []
    for k in kinds:
        for bases in ordered_subsets(names, max_bases):
            if bases:
                out.append((k, O(bases, ("z", S))))
    return out
