"""Shared body of the checks that are decided on generated API models (verifsys/gendoc): the generator builds abstract
API models, renders them, transforms them (trivia plans, permutations, fresh declarations, cuts into includes and macros,
fault injections), runs every rendering through the implementation and classifies what differs.  A check picks the classes
that belong to its property, routes the recorded ones to KNOWN-FINDING and reports the rest as violations with the document."""
import json
import re

from . import common as C
from . import gencheck as G


def run(res, pid, tier, seed, replay, pr, take, known_rule=None, risky=False, n=None, label=""):
    """take(prop, cls) -> bool: the finding class belongs to this property.
    known_rule(cls, what, doc) -> known-finding id or None.  Returns (last, violations)"""
    quick = tier == "quick"
    gen_seed = seed % 1000 + 1
    n = n or (120 if quick else 1200)
    if replay:
        rp = json.load(open(replay))
        gen_seed, n, risky = rp.get("gen_seed", gen_seed), rp.get("n", n), rp.get("risky", risky)
    last = G.run(gen_seed, n, risky=risky)
    res.count(int(last.get("harness_runs", 0)))
    known_ids = {f["id"] for f in C.load_known()["findings"] if f["property"] == pid}
    tag = label or ("risky" if risky else "plain")
    res.notes.setdefault("generated", {})[tag] = {
        "models": last.get("n"), "accepted": last.get("accepted"), "harness_runs": last.get("harness_runs"),
        "catalog_of_vs_skeleton_mismatches": last.get("mismatches"), "wall_s": last.get("wall_s"),
        "distribution": {k: (v if len(v) < 40 else dict(list(v.items())[:40])) for k, v in (last.get("dist") or {}).items()},
        "generator_selfchecks": last.get("selfcheck"), "candidate_classes": {k: len(v) for k, v in (last.get("findings") or {}).items()},
    }
    for seed_i in list((last.get("models") or {}).keys())[:1]:
        res.sample({"generated_model_seed": seed_i, "units": len((last["models"][seed_i] or {}).get("blocks", []))})
    for m in (last.get("models") or {}).values():
        res.nontrivial(json.dumps(m, sort_keys=True)[:4000])
    bad = []
    known_hits = {}
    for key, lst in (last.get("findings") or {}).items():
        prop, _, cls = key.partition("|")
        if prop == "generator":
            # the generator's own self-checks failed: nothing it reports can be trusted
            bad.append(("the document generator failed its self-check '%s' (%d cases)" % (cls, len(lst)), None, lst[0], False))
            continue
        if not take(prop, cls):
            continue
        for (s, what, doc) in lst:
            kid = known_rule(cls, what, doc) if known_rule else None
            if kid and kid in known_ids:
                known_hits.setdefault(kid, []).append((cls, s, what, doc))
            else:
                bad.append(("%s: %s" % (cls, what.replace("\n", " | ")[:500]), cls, (s, what, doc), True))
                break   # one per class
    for kid, hits in known_hits.items():
        cls, s, what, doc = hits[0]
        res.known.append("id=%s cases=%d first: %s | %s" % (kid, len(hits), cls, what.replace("\n", " | ")[:300]))
    out = []
    for msg, cls, (s, what, doc), found in bad[:4]:
        out.append((msg, {"gen_seed": gen_seed, "n": n, "risky": risky, "class": cls, "model_seed": s, "what": what[:3000],
                          "document": doc[:20000]}, found))
    return last, out
