"""Correspondence of the core model (coq/model/Core.v: project scan, includes, macro expansion)
with the implementation: normalisation of results, comparison, generators of directive
sequences."""
import itertools
import random

from . import common as C
from . import proj as P

MSG_CLASSES = [
    ("there is no directive for the", "nodirective"),
    ("unknown directive", "unknowndirective"),
    ('not allowed in included file', "jsightininclude"),
    ("directive not allowed", "notallowed"),
    ("required parameter(s) not specified (Filename)", "includenoparam"),
    ("required parameter(s) not specified", "namerequired"),
    ("is a directory", "includeisdir"),
    ("isn't exists", "includenotexist"),
    ("incorrect parameter (Filename)", "includebadname"),
    ("incorrect parameter", "incorrectparam"),
    ("parameter is already defined for the", "paramdup"),
    ('with the "Path" parameter', "incorrectcontextpath"),
    ("incorrect context of directive", "incorrectcontext"),
    ("there is no explicit context for closure", "noexplicit"),
    ("not all explicit contexts are closed", "notallclosed"),
    ("Unknown lexeme type", "unknownlexeme"),
    ("\x00recursion detected", "includerecursion"),
    ("annotation is forbidden for the directive", "annotforbidden"),
    ("empty macro", "emptymacro"),
    ("duplicate names are not allowed", "dupname"),
    ("recursion is prohibited", "recursion"),
    ("macro not found", "macronotfound"),
]


def msg_class(msg):
    first = msg.split("\n")[0]
    if first == "recursion detected":
        return "includerecursion"
    for needle, cls in MSG_CLASSES:
        if needle in first:
            return cls
    return "scan"


def norm_impl(out):
    st, d = P.parse(out)
    if st == "ok":
        return ("ok", d.get("tree", ""))
    if st == "err":
        msg = C.unhx(d["msg"]).decode("latin1")
        return ("err", C.unhx(d["file"]).decode("latin1"), int(d["idx"]), d["line"], C.unhx(d["trace"]).decode("latin1"), msg_class(msg))
    return (st,)


def norm_model(out):
    st, d = P.parse(out)
    if st == "ok":
        return ("ok", d.get("tree", ""))
    if st == "err":
        kind = d["kind"].split("wrapped:")[-1]
        return ("err", C.unhx(d["file"]).decode("latin1"), int(d["idx"]), d["line"], C.unhx(d["trace"]).decode("latin1"), kind)
    return (st,)


def compare(projects, opts):
    """run implementation and model on the same projects; returns (impl, model, mismatches)"""
    lines = [P.run_line(opts, pj) for pj in projects]
    impl = C.run_sharded("harness", "fn", lines)
    model = C.run_sharded("modelrun", None, lines)
    mism = []
    ni, nm = [], []
    for k, (i, m) in enumerate(zip(impl, model)):
        a, b = norm_impl(i), norm_model(m)
        ni.append(a)
        nm.append(b)
        if a != b:
            # errors that the schema library decides are not the model's to predict
            if a[0] == "err" and a[-1] == "scan" and b[0] == "err" and b[-1] == "scan" and a[1:5] == b[1:5]:
                continue
            mism.append(k)
    return ni, nm, mism


# ---- rendering directive-kind sequences --------------------------------------------------

# a minimal, lexically valid line for every directive kind (index = directive.Enumeration)
KIND_LINES = {
    0: "JSIGHT 0.3", 1: "INFO", 2: 'Title "T"', 3: "Version 1", 4: "Description\n  some text", 5: "SERVER @s", 6: 'BaseUrl "http://x"',
    7: "URL /u", 8: "GET", 9: "POST", 10: "PUT", 11: "PATCH", 12: "DELETE", 13: "Body any", 14: "Request any", 15: "200 any",
    16: "Path\n  {}", 17: "Headers\n  {}", 18: "Query\n  {}", 19: "TYPE @t\n  {}", 20: "ENUM @e\n  [1]", 21: "MACRO @m", 22: "PASTE @m",
    24: "Protocol json-rpc-2.0", 25: "Method foo", 26: "Params\n  {}", 27: "Result\n  {}", 28: "TAG @g", 29: "Tags @g",
}
PATH_METHODS = {8: "GET /p", 9: "POST /p", 10: "PUT /p", 11: "PATCH /p", 12: "DELETE /p"}


BODY_INSIDE = {13: ("Body", "{}"), 14: ("Request", "{}"), 15: ("200", "{}"), 16: ("Path", "{}"), 17: ("Headers", "{}"), 18: ("Query", "{}"),
               19: ("TYPE @t", "{}"), 20: ("ENUM @e", "[1]"), 26: ("Params", "{}"), 27: ("Result", "{}")}


def render_items(items, uniq=True, body_inside=False):
    """items: kind index | 'P<kind>' (method with path) | '(' | ')'. Names are made unique so
    that only CONTEXT decides the outcome of the scan stage.  body_inside: a directive that has a body and is directly
    followed by '(' gets its body as the first thing INSIDE the parentheses (`200` / `(` / `{}` ...), not before them."""
    out = []
    n = 0
    for i, it in enumerate(items):
        if it == "(":
            out.append("(")
            if body_inside and i > 0 and items[i - 1] in BODY_INSIDE:
                out.append("  " + BODY_INSIDE[items[i - 1]][1])
        elif it == ")":
            out.append(")")
        else:
            n += 1
            if isinstance(it, str) and it.startswith("P"):
                line = PATH_METHODS[int(it[1:])] + str(n)
            else:
                line = KIND_LINES[it]
                if body_inside and it in BODY_INSIDE and i + 1 < len(items) and items[i + 1] == "(":
                    line = BODY_INSIDE[it][0]
                if uniq:
                    line = line.replace("@t", "@t%d" % n).replace("@e", "@e%d" % n).replace("@s", "@s%d" % n).replace("/u", "/u%d" % n)
                    line = line.replace("@m", "@m%d" % n) if it == 21 else line
            out.append(line)
    return ("\n".join(out) + "\n").encode()


def all_item_seqs(alphabet, maxlen):
    for n in range(1, maxlen + 1):
        for seq in itertools.product(alphabet, repeat=n):
            yield list(seq)


# ---- forests modulo coordinates -----------------------------------------------------------

def parse_forest(s):
    """full parse of the rendered forest: list of dict(kind, kw, f, kb, ke, np, up, ann, body, x, tr, kids)"""
    pos = 0

    def node():
        nonlocal pos
        assert s[pos] == "(", (pos, s[pos:pos + 20])
        k = s.index(" [", pos)
        head = s[pos + 1:k].split(" ")
        d = {"kind": int(head[0])}
        for kv in head[1:]:
            a, _, b = kv.partition("=")
            d[a] = b
        pos = k + 2
        kids = []
        while s[pos] == "(":
            kids.append(node())
        assert s[pos:pos + 2] == "])"
        pos += 2
        d["kids"] = kids
        return d

    out = []
    while pos < len(s):
        out.append(node())
    return out


def shape(forest, files):
    """what a forest MEANS: kinds, keywords, parameters, annotations, body TEXT, explicit flags,
    nesting - without file names, offsets and include traces"""
    fmap = {(n if isinstance(n, str) else n.decode("latin1")): (c if isinstance(c, bytes) else c.encode("latin1")) for n, c in files}

    def body_text(b):
        if b == "-":
            return None
        f, beg, end = b.split(":")
        name = C.unhx(f).decode("latin1")
        return fmap.get(name, b"?")[int(beg):int(end) + 1]

    def one(d):
        return (d["kind"], d["kw"], d["np"], d["up"], d["ann"], body_text(d["body"]), d["x"], tuple(one(k) for k in d["kids"]))

    return tuple(one(d) for d in forest)


# ---- full pipeline: catalog skeleton ---------------------------------------------------------
from . import skeleton as SK  # noqa: E402

CAT_CLASSES = [
    "BaseURL already defined", "HTTP method not found", "Has unused parameters", "JSIGHT should be the first directive",
    "JSON-RPC method not found", "You cannot specify User Type in the response directive if it has a child Body directive",
    "annotation is forbidden", "apart from the opening parenthesis", "body is empty", "cannot be within the same URL directive",
    "cannot use the Type and SchemaNotation parameters together", "directive INFO gotta be only one time",
    "directive JSIGHT gotta be only one time", "duplicate names", "empty body", "empty description", "empty info",
    "has already been defined earlier", "incorrect directive context", "incorrect empty PATH parameter", "incorrect path",
    "incorrect request", "method is already defined", "non-unique path", "not a unique directive",
    "is duplicated in the path", "parameters are forbidden", "parameters are unacceptable, according to the Body directive",
    "parent directive not found", "path not found", "request is empty", "required parameter", "resource not found",
    "responses is empty", "server not found", "\"similar\" paths", "tag not found", "the directive Protocol must be unique",
    "the directive \"Protocol\" was not found", "the parameter value have to be", "there is no body for the Path directive",
    "unknown schema notation", "unsupported version of JSIGHT", "wrong description context",
    "undefined request body", "undefined response body",
]
MODEL_TO_IMPL = {"similar paths": "\"similar\" paths", "parameter is duplicated in the path": "is duplicated in the path",
                 "the directive Protocol was not found": "the directive \"Protocol\" was not found"}


def impl_cat_class(msg):
    first = msg.split("\n")[0]
    for c in CAT_CLASSES:
        if c in first:
            return c
    return None


def compare_full(projects, opts="", keep_impl=False):
    """full pipeline: returns list of records dict(k, kind, impl, model) where kind in
    same | skel-diff | verdict-diff | err-diff | library (not the model's to decide) | dup-keys.
    keep_impl: also keep the complete output lines in rec["impl_out"] / rec["model_out"]"""
    o = (opts + "," if opts else "") + "stage=full"
    lines = [P.run_line(o, pj) for pj in projects]
    impl = C.run_sharded("harness", "fn", [P.run_line(opts or "-", pj) for pj in projects])
    model = C.run_sharded("modelrun", None, lines)
    out = []
    for k, (i, m) in enumerate(zip(impl, model)):
        si, di = P.parse(i)
        sm, dm = P.parse(m)
        rec = {"k": k, "impl": i[:300], "model": m[:300]}
        if keep_impl:
            rec["impl_out"] = i
            rec["model_out"] = m
        mk = dm.get("kind", "") if sm == "err" else ""
        if sm == "err" and mk.startswith("msg:library"):
            rec["kind"] = "library"
        elif si == "ok" and sm == "ok":
            a, dups = SK.skeleton(C.unhx(di["json"]))
            a = a.encode("utf-8", "surrogateescape").decode("latin1")
            b = C.unhx(dm["skel"]).decode("latin1")
            rec["dups"] = dups
            rec["skel"] = a
            if a == b:
                rec["kind"] = "same"
            else:
                rec["kind"] = "skel-diff"
                for x, y in zip(a.split("\n"), b.split("\n")):
                    if x != y:
                        rec["first_diff"] = (x[:200], y[:200])
                        break
        elif si == "err" and sm == "err":
            msg = C.unhx(di["msg"]).decode("latin1")
            ni = norm_impl(i)
            cls = mk.split("wrapped:")[-1]
            if cls.startswith("msg:"):
                want = cls[4:].replace("_", " ")
                want = MODEL_TO_IMPL.get(want, want)
                ok = (want in msg.split("\n")[0]) and (ni[1], ni[2], ni[3], ni[4]) == (
                    C.unhx(dm["file"]).decode("latin1"), int(dm["idx"]), dm["line"], C.unhx(dm["trace"]).decode("latin1"))
            else:
                ok = ni == norm_model(m) or (ni[-1] == "scan" and norm_model(m)[-1] == "scan" and ni[1:5] == norm_model(m)[1:5])
            rec["kind"] = "same" if ok else "err-diff"
            if not ok and impl_cat_class(msg) is None and msg_class(msg) == "scan":
                rec["kind"] = "library"      # a schema-library diagnostic pre-empts what the model predicts
            rec["impl_msg"] = msg[:160]
        elif si == "err" and sm == "ok":
            msg = C.unhx(di["msg"]).decode("latin1")
            # a diagnostic outside the model's vocabulary comes from the schema library
            rec["kind"] = "verdict-diff" if (impl_cat_class(msg) or msg_class(msg) != "scan") else "library"
            rec["impl_msg"] = msg[:160]
        elif si == "ok" and sm == "err":
            rec["kind"] = "verdict-diff"
        else:
            rec["kind"] = "verdict-diff" if si != sm else "same"
        out.append(rec)
    return out


# ---- the context rule of C06, written from the property text (independent of the Coq model) -------------
ALLOWED_CTX = {
    7: {8, 9, 10, 11, 12, 16, 22, 24, 25, 29},
    8: {4, 14, 15, 16, 18, 22, 29}, 9: {4, 14, 15, 16, 18, 22, 29}, 10: {4, 14, 15, 16, 18, 22, 29},
    11: {4, 14, 15, 16, 18, 22, 29}, 12: {4, 14, 15, 16, 18, 22, 29},
    15: {13, 17, 22}, 14: {13, 17, 22}, 1: {2, 3, 4, 22}, 5: {6, 22}, 25: {4, 26, 27, 29}, 28: {4},
    21: {1, 2, 3, 4, 5, 6, 7, 8, 9, 10, 11, 12, 13, 14, 15, 16, 17, 18, 19, 20, 22},
}
ROOT_CTX = {0, 1, 5, 7, 8, 9, 10, 11, 12, 19, 20, 21, 22, 28}
HTTP_METHODS = {8, 9, 10, 11, 12}


def spec_resolve(items):
    """items: kind | 'P<kind>' | '(' | ')'.  Returns ('ok', parents) with parents[i] = index of the
    parent directive (None = top level) for the i-th directive, or ('rejected', reason)."""
    # lines consisting of a parenthesis right after a Description belong to its free text
    norm = []
    in_text = False
    for it in items:
        if in_text and it == "(":
            continue            # text; a line starting with ')' ends the text AND closes a context
        in_text = (it == 4)
        norm.append(it)
    items = norm
    chain = []      # open enclosing directives, innermost last: [index, kind, explicit]
    parents = []
    n = -1
    pending = None  # the directive just read: '(' marks IT
    for it in items:
        if it == "(":
            if pending is None:
                return ("rejected", "nodirective")
            pending[2] = True
            continue
        if it == ")":
            pending = None
            while chain:
                fr = chain.pop()
                if fr[2]:
                    break
            else:
                return ("rejected", "noexplicit")
            continue
        n += 1
        path_method = isinstance(it, str) and it.startswith("P")
        k = int(it[1:]) if path_method else it
        pending = None
        placed = False
        while chain:
            top = chain[-1]
            if k in ALLOWED_CTX.get(top[1], set()):
                if path_method and top[1] == 7:
                    if any(fr[2] for fr in chain):
                        return ("rejected", "incorrectcontextpath")
                    chain = []
                    parents.append(None)
                else:
                    parents.append(top[0])
                placed = True
                break
            if top[2]:
                return ("rejected", "incorrectcontext")
            chain.pop()
        if not placed:
            if k not in ROOT_CTX:
                return ("rejected", "incorrectcontext")
            parents.append(None)
        fr = [n, k, False]
        chain.append(fr)
        pending = fr
    if any(fr[2] for fr in chain):
        return ("rejected", "notallclosed")
    return ("ok", parents)


def forest_parents(forest):
    """pre-order parent indices of a parsed forest (parse_forest output)"""
    out = []

    def walk(nodes, parent):
        for d in nodes:
            me = len(out)
            out.append(parent)
            walk(d["kids"], me)

    walk(forest, None)
    return out


def gen_nested_items(rng, maxdepth=4, budget=14):
    """structured generation: grows trees along the admissibility table, wraps some child groups in
    explicit parentheses, and appends siblings after closed groups (the shapes random flat sequences miss)"""
    items = [0]
    left = [budget]

    def grow(parent_kind, depth):
        if left[0] <= 0:
            return
        cands = sorted(ALLOWED_CTX.get(parent_kind, set()) - {22}) if parent_kind is not None else [1, 5, 7, 8, 9, 19, 20, 28, 21]
        if not cands:
            return
        nkids = rng.randint(0, 3 if depth < maxdepth else 0)
        if nkids == 0:
            return
        explicit = parent_kind is not None and rng.random() < 0.45
        if explicit:
            items.append("(")
        for _ in range(nkids):
            if left[0] <= 0:
                break
            k = rng.choice(cands)
            left[0] -= 1
            if k in HTTP_METHODS and (parent_kind is None or (parent_kind == 7 and rng.random() < 0.15)):
                items.append("P%d" % k)
            else:
                items.append(k)
            grow(k, depth + 1)
        if explicit:
            items.append(")")

    for _ in range(rng.randint(1, 4)):
        grow(None, 0)
    return items
