"""Correspondence of the core model (coq/model/Core.v: project scan, includes, macro expansion)
with the implementation: normalisation of results, comparison, generators of directive
sequences."""
import itertools
import random

from . import common as C
from . import proj as P

MSG_CLASSES = [
    ("there is no directive for the", "nodirective"),
    ("unknown directive", "unknowndirective"),
    ('not allowed in included file', "jsightininclude"),
    ("directive not allowed", "notallowed"),
    ("required parameter(s) not specified (Filename)", "includenoparam"),
    ("required parameter(s) not specified", "namerequired"),
    ("is a directory", "includeisdir"),
    ("isn't exists", "includenotexist"),
    ("incorrect parameter (Filename)", "includebadname"),
    ("incorrect parameter", "incorrectparam"),
    ("parameter is already defined for the", "paramdup"),
    ('with the "Path" parameter', "incorrectcontextpath"),
    ("incorrect context of directive", "incorrectcontext"),
    ("there is no explicit context for closure", "noexplicit"),
    ("not all explicit contexts are closed", "notallclosed"),
    ("Unknown lexeme type", "unknownlexeme"),
    ("\x00recursion detected", "includerecursion"),
    ("annotation is forbidden for the directive", "annotforbidden"),
    ("empty macro", "emptymacro"),
    ("duplicate names are not allowed", "dupname"),
    ("recursion is prohibited", "recursion"),
    ("macro not found", "macronotfound"),
]


def msg_class(msg):
    first = msg.split("\n")[0]
    if first == "recursion detected":
        return "includerecursion"
    for needle, cls in MSG_CLASSES:
        if needle in first:
            return cls
    return "scan"


def norm_impl(out):
    st, d = P.parse(out)
    if st == "ok":
        return ("ok", d.get("tree", ""))
    if st == "err":
        msg = C.unhx(d["msg"]).decode("latin1")
        return ("err", C.unhx(d["file"]).decode("latin1"), int(d["idx"]), d["line"], C.unhx(d["trace"]).decode("latin1"), msg_class(msg))
    return (st,)


def norm_model(out):
    st, d = P.parse(out)
    if st == "ok":
        return ("ok", d.get("tree", ""))
    if st == "err":
        kind = d["kind"].split("wrapped:")[-1]
        return ("err", C.unhx(d["file"]).decode("latin1"), int(d["idx"]), d["line"], C.unhx(d["trace"]).decode("latin1"), kind)
    return (st,)


def compare(projects, opts):
    """run implementation and model on the same projects; returns (impl, model, mismatches)"""
    lines = [P.run_line(opts, pj) for pj in projects]
    impl = C.run_sharded("harness", "fn", lines)
    model = C.run_sharded("modelrun", None, lines)
    mism = []
    ni, nm = [], []
    for k, (i, m) in enumerate(zip(impl, model)):
        a, b = norm_impl(i), norm_model(m)
        ni.append(a)
        nm.append(b)
        if a != b:
            # errors that the schema library decides are not the model's to predict
            if a[0] == "err" and a[-1] == "scan" and b[0] == "err" and b[-1] == "scan" and a[1:5] == b[1:5]:
                continue
            mism.append(k)
    return ni, nm, mism


# ---- rendering directive-kind sequences --------------------------------------------------

# a minimal, lexically valid line for every directive kind (index = directive.Enumeration)
KIND_LINES = {
    0: "JSIGHT 0.3", 1: "INFO", 2: 'Title "T"', 3: "Version 1", 4: "Description\n  some text", 5: "SERVER @s", 6: 'BaseUrl "http://x"',
    7: "URL /u", 8: "GET", 9: "POST", 10: "PUT", 11: "PATCH", 12: "DELETE", 13: "Body any", 14: "Request any", 15: "200 any",
    16: "Path\n  {}", 17: "Headers\n  {}", 18: "Query\n  {}", 19: "TYPE @t\n  {}", 20: "ENUM @e\n  [1]", 21: "MACRO @m", 22: "PASTE @m",
    24: "Protocol json-rpc-2.0", 25: "Method foo", 26: "Params\n  {}", 27: "Result\n  {}", 28: "TAG @g", 29: "Tags @g",
}
PATH_METHODS = {8: "GET /p", 9: "POST /p", 10: "PUT /p", 11: "PATCH /p", 12: "DELETE /p"}


def render_items(items, uniq=True):
    """items: kind index | 'P<kind>' (method with path) | '(' | ')'. Names are made unique so
    that only CONTEXT decides the outcome of the scan stage."""
    out = []
    n = 0
    for it in items:
        if it == "(":
            out.append("(")
        elif it == ")":
            out.append(")")
        else:
            n += 1
            if isinstance(it, str) and it.startswith("P"):
                line = PATH_METHODS[int(it[1:])] + str(n)
            else:
                line = KIND_LINES[it]
                if uniq:
                    line = line.replace("@t", "@t%d" % n).replace("@e", "@e%d" % n).replace("@s", "@s%d" % n).replace("/u", "/u%d" % n)
                    line = line.replace("@m", "@m%d" % n) if it == 21 else line
            out.append(line)
    return ("\n".join(out) + "\n").encode()


def all_item_seqs(alphabet, maxlen):
    for n in range(1, maxlen + 1):
        for seq in itertools.product(alphabet, repeat=n):
            yield list(seq)


# ---- forests modulo coordinates -----------------------------------------------------------

def parse_forest(s):
    """full parse of the rendered forest: list of dict(kind, kw, f, kb, ke, np, up, ann, body, x, tr, kids)"""
    pos = 0

    def node():
        nonlocal pos
        assert s[pos] == "(", (pos, s[pos:pos + 20])
        k = s.index(" [", pos)
        head = s[pos + 1:k].split(" ")
        d = {"kind": int(head[0])}
        for kv in head[1:]:
            a, _, b = kv.partition("=")
            d[a] = b
        pos = k + 2
        kids = []
        while s[pos] == "(":
            kids.append(node())
        assert s[pos:pos + 2] == "])"
        pos += 2
        d["kids"] = kids
        return d

    out = []
    while pos < len(s):
        out.append(node())
    return out


def shape(forest, files):
    """what a forest MEANS: kinds, keywords, parameters, annotations, body TEXT, explicit flags,
    nesting - without file names, offsets and include traces"""
    fmap = {(n if isinstance(n, str) else n.decode("latin1")): (c if isinstance(c, bytes) else c.encode("latin1")) for n, c in files}

    def body_text(b):
        if b == "-":
            return None
        f, beg, end = b.split(":")
        name = C.unhx(f).decode("latin1")
        return fmap.get(name, b"?")[int(beg):int(end) + 1]

    def one(d):
        return (d["kind"], d["kw"], d["np"], d["up"], d["ann"], body_text(d["body"]), d["x"], tuple(one(k) for k in d["kids"]))

    return tuple(one(d) for d in forest)


# ---- full pipeline: catalog skeleton ---------------------------------------------------------
from . import skeleton as SK  # noqa: E402

CAT_CLASSES = [
    "BaseURL already defined", "HTTP method not found", "Has unused parameters", "JSIGHT should be the first directive",
    "JSON-RPC method not found", "You cannot specify User Type in the response directive if it has a child Body directive",
    "annotation is forbidden", "apart from the opening parenthesis", "body is empty", "cannot be within the same URL directive",
    "cannot use the Type and SchemaNotation parameters together", "directive INFO gotta be only one time",
    "directive JSIGHT gotta be only one time", "duplicate names", "empty body", "empty description", "empty info",
    "has already been defined earlier", "incorrect directive context", "incorrect empty PATH parameter", "incorrect path",
    "incorrect request", "method is already defined", "non-unique path", "not a unique directive",
    "is duplicated in the path", "parameters are forbidden", "parameters are unacceptable, according to the Body directive",
    "parent directive not found", "path not found", "request is empty", "required parameter", "resource not found",
    "responses is empty", "server not found", "\"similar\" paths", "tag not found", "the directive Protocol must be unique",
    "the directive \"Protocol\" was not found", "the parameter value have to be", "there is no body for the Path directive",
    "unknown schema notation", "unsupported version of JSIGHT", "wrong description context",
    "undefined request body", "undefined response body",
]
MODEL_TO_IMPL = {"similar paths": "\"similar\" paths", "parameter is duplicated in the path": "is duplicated in the path",
                 "the directive Protocol was not found": "the directive \"Protocol\" was not found"}


def impl_cat_class(msg):
    first = msg.split("\n")[0]
    for c in CAT_CLASSES:
        if c in first:
            return c
    return None


def compare_full(projects, opts=""):
    """full pipeline: returns list of records dict(k, kind, impl, model) where kind in
    same | skel-diff | verdict-diff | err-diff | library (not the model's to decide) | dup-keys"""
    o = (opts + "," if opts else "") + "stage=full"
    lines = [P.run_line(o, pj) for pj in projects]
    impl = C.run_sharded("harness", "fn", [P.run_line(opts or "-", pj) for pj in projects])
    model = C.run_sharded("modelrun", None, lines)
    out = []
    for k, (i, m) in enumerate(zip(impl, model)):
        si, di = P.parse(i)
        sm, dm = P.parse(m)
        rec = {"k": k, "impl": i[:300], "model": m[:300]}
        mk = dm.get("kind", "") if sm == "err" else ""
        if sm == "err" and mk.startswith("msg:library"):
            rec["kind"] = "library"
        elif si == "ok" and sm == "ok":
            a, dups = SK.skeleton(C.unhx(di["json"]))
            a = a.encode("utf-8", "surrogateescape").decode("latin1")
            b = C.unhx(dm["skel"]).decode("latin1")
            rec["dups"] = dups
            rec["skel"] = a
            if a == b:
                rec["kind"] = "same"
            else:
                rec["kind"] = "skel-diff"
                for x, y in zip(a.split("\n"), b.split("\n")):
                    if x != y:
                        rec["first_diff"] = (x[:200], y[:200])
                        break
        elif si == "err" and sm == "err":
            msg = C.unhx(di["msg"]).decode("latin1")
            ni = norm_impl(i)
            cls = mk.split("wrapped:")[-1]
            if cls.startswith("msg:"):
                want = cls[4:].replace("_", " ")
                want = MODEL_TO_IMPL.get(want, want)
                ok = (want in msg.split("\n")[0]) and (ni[1], ni[2], ni[3], ni[4]) == (
                    C.unhx(dm["file"]).decode("latin1"), int(dm["idx"]), dm["line"], C.unhx(dm["trace"]).decode("latin1"))
            else:
                ok = ni == norm_model(m) or (ni[-1] == "scan" and norm_model(m)[-1] == "scan" and ni[1:5] == norm_model(m)[1:5])
            rec["kind"] = "same" if ok else "err-diff"
            if not ok and impl_cat_class(msg) is None and msg_class(msg) == "scan":
                rec["kind"] = "library"      # a schema-library diagnostic pre-empts what the model predicts
            rec["impl_msg"] = msg[:160]
        elif si == "err" and sm == "ok":
            msg = C.unhx(di["msg"]).decode("latin1")
            # a diagnostic outside the model's vocabulary comes from the schema library
            rec["kind"] = "verdict-diff" if (impl_cat_class(msg) or msg_class(msg) != "scan") else "library"
            rec["impl_msg"] = msg[:160]
        elif si == "ok" and sm == "err":
            rec["kind"] = "verdict-diff"
        else:
            rec["kind"] = "verdict-diff" if si != sm else "same"
        out.append(rec)
    return out
