"""Projection of the implementation's JSON onto the catalog skeleton printed by the model
(coq/extract/cmds_zcatalog.ml render_catalog): same lines, same field order."""
import json

from . import common as C


def hx(s):
    if s is None:
        return "~"
    return C.hx(s.encode("utf-8", "surrogateescape") if isinstance(s, str) else s)


def parse_pairs(b):
    """order- and duplicate-preserving JSON parse; returns (value, duplicate_keys)"""
    dups = []

    def hook(pairs):
        seen = set()
        for k, _ in pairs:
            if k in seen:
                dups.append(k)
            seen.add(k)
        return pairs

    return json.loads(b, object_pairs_hook=hook), dups


def get(pairs, key, default=None):
    for k, v in pairs:
        if k == key:
            return v
    return default


def ids(l):
    return "." if not l else "|".join(hx(x) for x in l)


def skeleton(json_bytes):
    v, dups = parse_pairs(json_bytes)
    out = []
    out.append("J " + hx(get(v, "jsight", "")))
    info = get(v, "info")
    if info is not None:
        out.append("I %s %s %s" % (hx(get(info, "title", "")), hx(get(info, "version", "")), hx(get(info, "description"))))
    for n, s in get(v, "servers", []) or []:
        out.append("S %s %s %s" % (hx(n), hx(get(s, "annotation", "")), hx(get(s, "baseUrl", ""))))
    for n, t in get(v, "userTypes", []) or []:
        out.append("T %s %s %s" % (hx(n), hx(get(t, "annotation", "")), hx(get(get(t, "schema", []), "notation", ""))))
    for n, e in get(v, "userEnums", []) or []:
        out.append("E %s %s" % (hx(n), hx(get(e, "annotation", ""))))
    for n, t in get(v, "tags", []) or []:
        http, rpc = [], []
        for g in get(t, "interactionGroups", []) or []:
            if get(g, "protocol") == "http":
                http = get(g, "interactions", [])
            else:
                rpc = get(g, "interactions", [])
        out.append("G %s %s %s %s %s" % (hx(n), hx(get(t, "title", "")), hx(get(t, "description")), ids(http), ids(rpc)))
    for k, i in get(v, "interactions", []) or []:
        if get(i, "protocol") == "http":
            q = get(i, "query")
            qs = "~" if q is None else hx(get(q, "format", "")) + ":" + hx(get(q, "example", ""))
            r = get(i, "request")
            if r is None:
                rs = "~"
            else:
                b = get(r, "body")
                rs = ("~" if b is None else hx(get(b, "format", ""))) + ":" + ("0" if get(r, "headers") is None else "1")
            resp = get(i, "responses", []) or []
            ps = "." if not resp else ";".join(
                "%s:%s:%s:%s" % (hx(get(x, "code", "")), hx(get(x, "annotation", "")),
                                 "~" if get(x, "body") is None else hx(get(get(x, "body"), "format", "")),
                                 "0" if get(x, "headers") is None else "1") for x in resp)
            pv = get(i, "pathVariables")
            pvn = []
            if pv is not None:
                content = get(get(pv, "schema", []), "content", [])
                pvn = [get(c, "key", "") for c in (get(content, "children", []) or [])]
            out.append("H %s %s %s %s %s %s Q=%s R=%s P=%s V=%s" % (
                hx(k), hx(get(i, "httpMethod", "")), hx(get(i, "path", "")), hx(get(i, "annotation", "")), hx(get(i, "description")),
                ids(get(i, "tags", [])), qs, rs, ps, ids(pvn)))
        else:
            out.append("R %s %s %s %s %s %s %s %s" % (
                hx(k), hx(get(i, "method", "")), hx(get(i, "path", "")), hx(get(i, "annotation", "")), hx(get(i, "description")),
                ids(get(i, "tags", [])), "0" if get(i, "params") is None else "1", "0" if get(i, "result") is None else "1"))
    return "\n".join(out) + "\n", dups
