"""Shared machinery for /verif/check: building the translator, the Coq development,
the extracted model and the Go harness from /repo's current working tree; running
model and implementation on the same inputs; evidence and violation reporting."""
import fcntl
import hashlib
import json
import os
import random
import re
import shutil
import subprocess
import sys
import time

VERIF = os.path.dirname(os.path.dirname(os.path.abspath(__file__)))
REPO = os.environ.get("VERIF_REPO", "/repo")
COQ = os.path.join(VERIF, "coq")
TOOLS = os.path.join(VERIF, "tools")
EVID = os.path.join(VERIF, "evidence")
REPLAY = os.path.join(VERIF, "replays")
WORK = os.path.join(VERIF, "work")

GOENV = dict(os.environ, GOFLAGS="-mod=mod", GOPROXY="off", GOSUMDB="off", GOTOOLCHAIN="local",
             CGO_ENABLED=os.environ.get("CGO_ENABLED", "0"))

STD_AXIOMS_ALLOWED = {
    # stdlib axioms that would be acceptable if a library pulled them in; none expected
    "functional_extensionality_dep", "proof_irrelevance", "JMeq_eq", "classic",
}


def log(*a):
    print("[check]", *a, file=sys.stderr, flush=True)


def sh(cmd, cwd=None, env=None, timeout=None, input=None, check=False):
    t0 = time.time()
    p = subprocess.run(cmd, cwd=cwd, env=env, timeout=timeout, input=input,
                       stdout=subprocess.PIPE, stderr=subprocess.PIPE, text=True,
                       shell=isinstance(cmd, str))
    if check and p.returncode != 0:
        raise RuntimeError("command failed: %s\n%s\n%s" % (cmd, p.stdout[-4000:], p.stderr[-4000:]))
    p.wall = time.time() - t0
    return p


class Lock:
    def __init__(self, name):
        os.makedirs(WORK, exist_ok=True)
        self.path = os.path.join(WORK, name + ".lock")

    def __enter__(self):
        self.f = open(self.path, "w")
        fcntl.flock(self.f, fcntl.LOCK_EX)
        return self

    def __exit__(self, *a):
        fcntl.flock(self.f, fcntl.LOCK_UN)
        self.f.close()


# ---------------------------------------------------------------------------------------
# build steps


def build_go2coq():
    os.makedirs(TOOLS, exist_ok=True)
    sh(["go", "build", "-o", os.path.join(TOOLS, "go2coq"), "."], cwd=os.path.join(VERIF, "go2coq"),
       env=GOENV, check=True)


def run_go2coq():
    """Regenerate coq/gen from /repo.  Returns {generator: 'WROTE'|'UNCHANGED'|'FAILED <why>'}."""
    build_go2coq()
    p = sh([os.path.join(TOOLS, "go2coq"), "-repo", REPO, "-out", os.path.join(COQ, "gen")])
    res = {}
    for line in p.stdout.splitlines():
        m = re.match(r"(WROTE|UNCHANGED|FAILED) (\S+)\s*(.*)", line)
        if m:
            res[m.group(2)] = m.group(1) + ((" " + m.group(3)) if m.group(3) else "")
    if p.returncode not in (0, 3):
        raise RuntimeError("go2coq crashed: " + p.stderr[-2000:])
    return res


def coq_makefile():
    mk = os.path.join(COQ, "Makefile")
    cp = os.path.join(COQ, "_CoqProject")
    if not os.path.exists(mk) or os.path.getmtime(mk) < os.path.getmtime(cp):
        sh(["coq_makefile", "-f", "_CoqProject", "-o", "Makefile"], cwd=COQ, check=True)


def coq_make(targets, timeout=3000):
    """make the given .vo targets (full .vo build).  Returns (ok, output)."""
    coq_makefile()
    p = sh(["timeout", str(timeout), "make", "-j16", "-k"] + targets, cwd=COQ)
    return p.returncode == 0, (p.stdout + p.stderr)


def coq_error_summary(output):
    """first 'File ..., line ...: Error' block of a make output"""
    m = re.search(r'File "([^"]+)", line (\d+), characters [^\n]*\nError:?\s*(.*?)(?:\n\n|\nmake|\Z)', output, re.S)
    if m:
        return {"file": m.group(1), "line": int(m.group(2)), "error": " ".join(m.group(3).split())[:600]}
    return {"file": "?", "line": 0, "error": " ".join(output.split())[-600:]}


FORBIDDEN = re.compile(r"\b(Admitted|admit|Axiom|Axioms|Parameter|Parameters|Conjecture|Hypothesis|Variable|Variables)\b|Unset Guard|bypass_check|Admit Obligations|-type-in-type|-impredicative-set")


def forbidden_vernacular():
    """grep the development for declarations that would add to the trusted base.
    Variable/Hypothesis are allowed inside a Section only."""
    bad = []
    for root, _, files in os.walk(COQ):
        if "/extract/ml" in root:
            continue
        for fn in files:
            if not fn.endswith(".v"):
                continue
            path = os.path.join(root, fn)
            depth = 0
            in_comment = 0
            for ln, line in enumerate(open(path, encoding="utf-8", errors="replace"), 1):
                # strip comments (nesting-aware, line-granular approximation)
                text = ""
                i = 0
                while i < len(line):
                    if line.startswith("(*", i):
                        in_comment += 1
                        i += 2
                    elif line.startswith("*)", i) and in_comment:
                        in_comment -= 1
                        i += 2
                    else:
                        if not in_comment:
                            text += line[i]
                        i += 1
                # string literals cannot hide vernacular we care about; drop them
                text = re.sub(r'"[^"]*"', '""', text)
                if re.match(r"\s*Section\b", text):
                    depth += 1
                if re.match(r"\s*End\b", text) and depth:
                    depth -= 1
                for m in FORBIDDEN.finditer(text):
                    w = m.group(0)
                    if w in ("Variable", "Variables", "Hypothesis") and depth > 0:
                        continue
                    bad.append("%s:%d: %s" % (os.path.relpath(path, VERIF), ln, w))
    return bad


def props_report(pid):
    """Compile props/<pid>.v on its own (its dependencies must be built) and return
    (ok, theorems, assumptions) where assumptions maps theorem -> list of axioms
    ([] = closed under the global context)."""
    src = os.path.join(COQ, "props", pid + ".v")
    text = open(src).read()
    theorems = re.findall(r"^\s*Theorem\s+([A-Za-z0-9_']+)", text, re.M)
    p = sh(["timeout", "1200", "coqc"] + coq_args() + [src], cwd=COQ)
    out = p.stdout
    if p.returncode != 0:
        return False, theorems, {}, p.stderr
    # Print Assumptions blocks appear in order
    blocks = re.split(r"(?=Closed under the global context|Axioms:)", out)
    results = []
    for b in blocks:
        if b.startswith("Closed under the global context"):
            results.append([])
        elif b.startswith("Axioms:"):
            names = re.findall(r"^([A-Za-z0-9_.']+)\s*:", b[len("Axioms:"):], re.M)
            results.append(names)
    ass = {}
    for i, t in enumerate(theorems):
        ass[t] = results[i] if i < len(results) else ["<no Print Assumptions output>"]
    return True, theorems, ass, ""


def coq_args():
    args = []
    for line in open(os.path.join(COQ, "_CoqProject")):
        parts = line.split()
        if parts and parts[0] == "-Q":
            args += ["-Q", parts[1], parts[2]]
    return args + ["-w", "-notation-overridden,-deprecated-hint-without-locality,-deprecated-instance-without-locality"]


def build_model_runner():
    """Extract the model to OCaml and build tools/modelrun (only when the extracted code changed)."""
    mldir = os.path.join(COQ, "extract", "ml")
    os.makedirs(mldir, exist_ok=True)
    deps = []
    for line in open(os.path.join(COQ, "_CoqProject")):
        line = line.strip()
        if line.endswith(".v") and line.split("/")[0] in ("lib", "gen", "model", "spec"):
            deps.append(line[:-2] + ".vo")
    ok, out = coq_make(deps)
    if not ok:
        return False, out
    args = []
    for line in open(os.path.join(COQ, "_CoqProject")):
        parts = line.split()
        if parts and parts[0] == "-Q":
            args += ["-Q", os.path.join("..", "..", parts[1]), parts[2]]
    old = _hash_file(os.path.join(mldir, "Model.ml"))
    p = sh(["timeout", "600", "coqc"] + args + [os.path.join("..", "Extraction.v")], cwd=mldir)
    if p.returncode != 0:
        return False, p.stdout + p.stderr
    # the only edit of the extracted code: scan_fuel (a pure function of the file content, a unary number of 42*len+512
    # constructors) is memoised on the physical identity of its argument; Core.sc_next calls it once per lexeme, which made
    # the runner quadratic in the file size.  Same value, computed once per file.
    mp = os.path.join(mldir, "Model.ml")
    src = open(mp).read()
    if "scan_fuel_compute" not in src and "let scan_fuel data0 =\n" in src:
        src = src.replace("let scan_fuel data0 =\n",
                          "let scan_fuel_memo : (Obj.t * nat) option ref = ref None\n"
                          "let rec scan_fuel data0 =\n"
                          "  match !scan_fuel_memo with\n"
                          "  | Some (d, v) when d == Obj.repr data0 -> v\n"
                          "  | _ -> let v = scan_fuel_compute data0 in scan_fuel_memo := Some (Obj.repr data0, v); v\n"
                          "and scan_fuel_compute data0 =\n", 1)
        open(mp, "w").write(src)
    exdir = os.path.join(COQ, "extract")
    mls = ["conv.ml", "registry.ml", "oracle.ml"] + sorted(f for f in os.listdir(exdir) if f.startswith("cmds_") and f.endswith(".ml")) + ["modelrun.ml"]
    new = _hash_file(os.path.join(mldir, "Model.ml"))
    for f in mls:
        shutil.copy(os.path.join(exdir, f), os.path.join(mldir, f))
        new += _hash_file(os.path.join(mldir, f))
    stamp = os.path.join(mldir, ".built")
    if os.path.exists(os.path.join(TOOLS, "modelrun")) and os.path.exists(stamp) and open(stamp).read() == new:
        return True, ""
    for fn in os.listdir(mldir):
        if fn.endswith((".cmi", ".cmx", ".o", ".cmo")):
            os.remove(os.path.join(mldir, fn))
    base = ["ocamlfind", "ocamlopt", "-w", "-a", "-package", "unix", "-linkpkg", "Model.mli", "Model.ml"] + mls + ["-o", os.path.join(TOOLS, "modelrun")]
    p = sh(base[:2] + ["-O2"] + base[2:], cwd=mldir)
    if p.returncode != 0:
        p = sh(base, cwd=mldir)
    if p.returncode != 0:
        return False, p.stdout + p.stderr
    open(stamp, "w").write(new)
    return True, ""


def _hash_file(path):
    try:
        return hashlib.sha256(open(path, "rb").read()).hexdigest()
    except FileNotFoundError:
        return ""


def build_harness(race=False):
    hdir = os.path.join(VERIF, "harness")
    shutil.copy(os.path.join(REPO, "go.sum"), os.path.join(hdir, "go.sum"))
    out = os.path.join(TOOLS, "harness-race" if race else "harness")
    cmd = ["go", "build", "-tags", "verif"]
    env = dict(GOENV)
    if race:
        cmd.append("-race")
        env["CGO_ENABLED"] = "1"
    p = sh(cmd + ["-o", out, "."], cwd=hdir, env=env)
    if p.returncode != 0:
        return False, p.stdout + p.stderr
    return True, ""


# ---------------------------------------------------------------------------------------
# running model and implementation


def _big_stack():
    """the extracted model recurses structurally (not tail-recursively) over the input"""
    import resource
    try:
        soft, hard = resource.getrlimit(resource.RLIMIT_STACK)
        want = hard if hard != resource.RLIM_INFINITY else resource.RLIM_INFINITY
        resource.setrlimit(resource.RLIMIT_STACK, (want, hard))
    except Exception:
        pass


def run_lines(tool, sub, lines, timeout=1800):
    """feed lines to `tools/<tool> [sub]`, return output lines"""
    cmd = [os.path.join(TOOLS, tool)] + ([sub] if sub else [])
    data = "\n".join(lines) + "\n"
    p = subprocess.run(cmd, input=data, stdout=subprocess.PIPE, stderr=subprocess.PIPE, text=True, timeout=timeout,
                       preexec_fn=_big_stack if tool == "modelrun" else None)
    if p.returncode != 0:
        raise RuntimeError("%s failed (%d): %s" % (cmd, p.returncode, p.stderr[-2000:]))
    out = p.stdout.split("\n")
    if out and out[-1] == "":
        out.pop()
    if len(out) != len(lines):
        raise RuntimeError("%s: %d output lines for %d inputs" % (cmd, len(out), len(lines)))
    return out


def run_sharded(tool, sub, lines, shards=16, timeout=3600):
    """as run_lines but split over processes"""
    if len(lines) < 2000:
        return run_lines(tool, sub, lines, timeout)
    import concurrent.futures as cf
    n = (len(lines) + shards - 1) // shards
    chunks = [lines[i:i + n] for i in range(0, len(lines), n)]
    with cf.ThreadPoolExecutor(max_workers=shards) as ex:
        outs = list(ex.map(lambda c: run_lines(tool, sub, c, timeout), chunks))
    res = []
    for o in outs:
        res.extend(o)
    return res


def hx(b):
    if isinstance(b, str):
        b = b.encode("utf-8", "surrogateescape")
    return b.hex() if b else "-"


def unhx(h):
    return b"" if h == "-" else bytes.fromhex(h)


def all_strings(alphabet, maxlen, minlen=0):
    """every byte string over alphabet with minlen <= length <= maxlen"""
    cur = [b""]
    if minlen == 0:
        yield b""
    for n in range(1, maxlen + 1):
        cur = [s + bytes([a]) for s in cur for a in alphabet]
        if n >= minlen:
            yield from cur


# ---------------------------------------------------------------------------------------
# results


class Result:
    def __init__(self, pid, tier, seed):
        self.pid = pid
        self.tier = tier
        self.seed = seed
        self.t0 = time.time()
        self.violations = []      # dicts: {what, replay(dict), found_input(bool)}
        self.known = []           # strings
        self.coverage = {"obligations": 0, "discharged": 0, "checker_cmd": "", "trusted_base": [],
                         "evaluations": 0, "distinct_nontrivial": 0, "rule": "", "samples": [],
                         "traces_validated_against_impl": 0}
        self.assumptions = []
        self._distinct = set()
        self.notes = {}
        # stale replay files of earlier runs of this property must not be mistaken for this run's
        try:
            for fn in os.listdir(REPLAY):
                if fn.startswith(pid + "_") and fn.endswith(".json"):
                    os.remove(os.path.join(REPLAY, fn))
        except FileNotFoundError:
            pass

    def count(self, n=1):
        self.coverage["evaluations"] += n

    def nontrivial(self, key):
        self._distinct.add(hashlib.md5(repr(key).encode()).digest()[:8])

    def sample(self, s, limit=12):
        if len(self.coverage["samples"]) < limit:
            self.coverage["samples"].append(s)

    def violation(self, what, replay, found_input=True):
        self.violations.append({"what": what, "replay": replay, "found_input": found_input})

    def finish(self):
        self.coverage["distinct_nontrivial"] = len(self._distinct)
        self.coverage.update(self.notes)
        os.makedirs(EVID, exist_ok=True)
        os.makedirs(REPLAY, exist_ok=True)
        lines = []
        for k in self.known:
            lines.append("KNOWN-FINDING: property=%s %s" % (self.pid, k))
        nviol = 0
        for i, v in enumerate(self.violations):
            nviol += 1
            path = os.path.join(REPLAY, "%s_%d.json" % (self.pid, i))
            rp = dict(v["replay"])
            rp.update({"property": self.pid, "what": v["what"], "seed": self.seed, "tier": self.tier})
            with open(path, "w") as f:
                json.dump(rp, f, indent=1, default=str)
            tail = "" if v["found_input"] else " no-failing-input-found"
            lines.append("VIOLATION property=%s replay=%s%s" % (self.pid, path, tail))
            if i >= 19:
                break
        ev = {
            "property_id": self.pid, "tier": self.tier, "seed": self.seed, "level": "proof",
            "coverage": self.coverage, "assumptions": self.assumptions,
            "wall_s": round(time.time() - self.t0, 2), "violations": len(self.violations),
        }
        ev["coverage"]["known_findings_printed"] = list(self.known)
        with open(os.path.join(EVID, self.pid + ".json"), "w") as f:
            json.dump(ev, f, indent=1, default=str)
        for l in lines:
            print(l, flush=True)
        if not self.violations:
            print("OK property=%s tier=%s obligations=%d discharged=%d evaluations=%d wall=%.1fs" % (
                self.pid, self.tier, self.coverage["obligations"], self.coverage["discharged"],
                self.coverage["evaluations"], time.time() - self.t0), flush=True)
        return 1 if self.violations else 0


def load_known():
    path = os.path.join(VERIF, "known_findings.json")
    if not os.path.exists(path):
        return {"findings": [], "fixed": []}
    return json.load(open(path))


TRUSTED_BASE = [
    "Coq 8.16.1 kernel and vm_compute (no native_compute)",
    "axioms: none declared; every property theorem must print 'Closed under the global context'",
    "go2coq translator (/verif/go2coq) for the regenerated models under coq/gen",
    "extraction (ExtrOcamlBasic only, no Extract Constant/Inductive of our own), OCaml 4.13.1, extract/modelrun.ml driver",
    "the Go correspondence harness (/verif/harness) and this orchestrator",
    "hand models of Go stdlib string/path functions in coq/lib, validated against the real functions on every run",
]


class Prep:
    """Outcome of the build/proof stage for one property."""

    def __init__(self):
        self.gen = {}
        self.proof_ok = False
        self.proof_err = None
        self.theorems = []
        self.assumptions = {}
        self.model_ok = False
        self.model_err = ""
        self.harness_ok = False
        self.harness_err = ""
        self.forbidden = []


def prepare(pid, res, need_gens=(), want_model=True):
    """Steps 1-4 of every check.  Fills res.coverage obligations/discharged."""
    pr = Prep()
    with Lock("build"):
        pr.gen = run_go2coq()
        ok, out = coq_make(["props/%s.vo" % pid])
        pr.forbidden = forbidden_vernacular()
        if ok:
            ok2, ths, ass, err = props_report(pid)
            pr.theorems, pr.assumptions = ths, ass
            if not ok2:
                pr.proof_err = coq_error_summary(err)
            else:
                pr.proof_ok = True
        else:
            pr.proof_err = coq_error_summary(out)
            src = os.path.join(COQ, "props", pid + ".v")
            pr.theorems = re.findall(r"^\s*Theorem\s+([A-Za-z0-9_']+)", open(src).read(), re.M)
        if want_model:
            pr.model_ok, pr.model_err = build_model_runner()
        pr.harness_ok, pr.harness_err = build_harness()
    res.coverage["obligations"] = len(pr.theorems)
    bad_ax = {t: a for t, a in pr.assumptions.items() if a}
    res.coverage["discharged"] = (len(pr.theorems) - len(bad_ax)) if pr.proof_ok else 0
    res.coverage["checker_cmd"] = "cd /verif/coq && make -j16 props/%s.vo && coqc <-Q ...> props/%s.v  (Print Assumptions under every theorem)" % (pid, pid)
    res.coverage["trusted_base"] = list(TRUSTED_BASE)
    res.coverage["theorems"] = pr.theorems
    res.coverage["print_assumptions"] = {t: (a or "Closed under the global context") for t, a in pr.assumptions.items()}
    res.coverage["regenerated"] = pr.gen
    for g in need_gens:
        st = pr.gen.get(g, "MISSING")
        if st.startswith("FAILED") or st == "MISSING":
            pr.proof_ok = False
            pr.proof_err = pr.proof_err or {"file": "go2coq:" + g, "line": 0, "error": st}
    if pr.forbidden:
        pr.proof_ok = False
        pr.proof_err = {"file": "forbidden vernacular", "line": 0, "error": "; ".join(pr.forbidden[:10])}
    if bad_ax:
        pr.proof_ok = False
        pr.proof_err = {"file": "props/%s.v" % pid, "line": 0, "error": "unexpected axioms: %r" % bad_ax}
    return pr
