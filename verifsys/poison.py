"""History independence inside ONE process: a project gives the result it gives in a fresh process whatever the process
handled before - in particular after REJECTED projects that use the same names (a set taken from a pool and put back dirty, a
cache filled half way, a package-level table left behind by an error path).

pairs(): (poison, victim) documents; the harness processes `poison` and then `victim` in one process, many pairs in a
row; every victim's output must equal the output of that victim processed first in a process of its own."""
from . import common as C
from . import proj as P

J = "JSIGHT 0.3\n"


def families():
    out = []
    # macro recursion, then a valid document with the same macro names, the inner macro defined AFTER its user
    valid_macros = [
        J + "MACRO @outer\n(\n  PASTE @auth\n)\nMACRO @auth\n(\n  404 any\n)\nGET /a\n  PASTE @outer\n  200 any\n",
        J + "GET /a\n  PASTE @outer\n  200 any\nMACRO @outer\n(\n  PASTE @mid\n)\nMACRO @mid\n(\n  PASTE @auth\n)\nMACRO @auth\n(\n  404 any\n)\n",
        J + "MACRO @auth\n(\n  404 any\n)\nURL /u\n  GET\n    PASTE @auth\n    200 any\n",
    ]
    cyclic = [
        J + "MACRO @auth\n(\n  PASTE @auth\n)\nGET /a\n  200 any\n",
        J + "MACRO @auth\n(\n  404 any\n  PASTE @mid\n)\nMACRO @mid\n(\n  PASTE @outer\n)\nMACRO @outer\n(\n  PASTE @auth\n)\nGET /a\n  200 any\n",
        J + "MACRO @outer\n(\n  PASTE @auth\n)\nMACRO @auth\n(\n  PASTE @outer\n)\nGET /a\n  PASTE @outer\n  200 any\n",
    ]
    for c in cyclic:
        for v in valid_macros:
            out.append(("macro-recursion-then-same-names", c, v))
    # duplicate / undefined names, then the repaired document
    reps = [
        ("dup-type", J + "TYPE @t\n  {}\nTYPE @t\n  {}\nGET /a\n  200 @t\n", J + "TYPE @t\n  {}\nGET /a\n  200 @t\n"),
        ("undefined-type", J + "GET /a\n  200 @t\n", J + "GET /a\n  200 @t\nTYPE @t\n  {\n    \"k\": 1\n  }\n"),
        ("dup-enum", J + "ENUM @e\n  [1]\nENUM @e\n  [2]\n", J + "ENUM @e\n  [2]\nTYPE @t\n  {\n    \"k\": 2 // {enum: @e}\n  }\n"),
        ("dup-server", J + "SERVER @s\n  BaseUrl \"http://a\"\nSERVER @s\n  BaseUrl \"http://b\"\n", J + "SERVER @s\n  BaseUrl \"http://b\"\n"),
        ("undeclared-tag", J + "GET /cats\n  Tags @cats\n  200 any\n", J + "TAG @cats\nGET /cats\n  Tags @cats\n  200 any\n"),
        ("dup-method", J + "GET /a\n  200 any\nGET /a\n  404 any\n", J + "GET /a\n  404 any\n"),
        ("similar-paths", J + "GET /a/{x}\n  200 any\nGET /a/{y}\n  200 any\n", J + "GET /a/{y}\n  200 any\n"),
        ("path-param-twice", J + "URL /a/{id}\n  Path\n    {\n      \"id\": 1\n    }\n  GET\n    Path\n      {\n        \"id\": 2\n      }\n    200 any\n",
         J + "URL /a/{id}\n  GET\n    Path\n      {\n        \"id\": \"s\"\n      }\n    200 any\n"),
        ("allof-recursion", J + "TYPE @a\n  { // {allOf: \"@b\"}\n  }\nTYPE @b\n  { // {allOf: \"@a\"}\n  }\n",
         J + "TYPE @b\n  {\n    \"k\": 1\n  }\nTYPE @a\n  { // {allOf: \"@b\"}\n    \"m\": 2\n  }\nGET /a\n  200 @a\n"),
        ("scan-error", J + "GET /a\n  200 any\n%%%\n", J + "GET /a\n  200 any\n"),
        ("unclosed-paren", J + "URL /a\n(\n  GET\n    200 any\n", J + "URL /a\n(\n  GET\n    200 any\n)\n"),
        ("regex-type", J + "TYPE @r regex\n  /[a-z]{3}(/\n", J + "TYPE @r regex\n  /[a-z]{3}/\nGET /a\n  200 @r\n"),
        ("rpc", J + "URL /r\n  Protocol json-rpc-2.0\n  Method m\n  Method m\n", J + "URL /r\n  Protocol json-rpc-2.0\n  Method m\n    Params\n      {}\n"),
        ("description", J + "GET /a\n  Description\n  200 any\n", J + "GET /a\n  Description\n    some text\n  200 any\n"),
    ]
    for name, bad, good in reps:
        out.append((name, bad, good))
    # an ACCEPTED project first, then another one that shares names / file offsets with it
    out.append(("same-offsets-other-text", J + "GET /a\n  Description\n    first text\n  200 any\n", J + "GET /a\n  Description\n    other text\n  200 any\n"))
    out.append(("same-names-other-types", J + "TYPE @t\n  {\n    \"a\": 1\n  }\nGET /a\n  200 @t\n", J + "TYPE @t\n  \"str\"\nGET /a\n  200 @t\n"))
    out.append(("same-pattern-regex", J + "TYPE @r regex\n  /[a-z]{5}/\nGET /a\n  200 @r\n", J + "TYPE @q regex\n  /[a-z]{5}/\nGET /b\n  200 @q\n"))
    return out


def run_stage(res, quick):
    """returns a list of (message, replay dict)"""
    fam = families()
    victims = sorted({v for _, _, v in fam})
    alone = {}
    for v in victims:
        # one process per victim
        alone[v] = C.run_lines("harness", "fn", [P.run_line("out=json", [("a.jst", v.encode())])])[0]
    bad = []
    rounds = 2 if quick else 6
    lines, meta = [], []
    for r in range(rounds):
        order = fam if r % 2 == 0 else list(reversed(fam))
        for name, poison, victim in order:
            lines.append(P.run_line("out=json", [("a.jst", poison.encode())]))
            meta.append(None)
            lines.append(P.run_line("out=json", [("a.jst", victim.encode())]))
            meta.append((name, poison, victim))
    outs = C.run_lines("harness", "fn", lines)
    res.count(len(lines) + len(victims))
    n_ok = 0
    for m, o in zip(meta, outs):
        if m is None:
            continue
        name, poison, victim = m
        a = alone[victim]
        sa, da = P.parse(a)
        so, do = P.parse(o)
        same = sa == so and ((sa == "ok" and da.get("json") == do.get("json")) or (sa == "err" and (da.get("msg"), da.get("idx")) == (do.get("msg"), do.get("idx"))) or sa not in ("ok", "err"))
        if same:
            n_ok += 1
            res.nontrivial(("after-another-project", name, victim))
            continue
        bad.append(("a project does not give the result it gives in a process of its own when the same process handled another project before "
                    "(family %s): alone %s, after the other project %s" % (name, a[:100] if sa != "ok" else "accepted", o[:140] if so != "ok" else "accepted with another catalog"),
                    {"doc": C.hx(victim.encode()), "before": C.hx(poison.encode()), "family": name}))
        if len(bad) >= 3:
            break
    res.notes["after_another_project"] = {"pairs": sum(1 for m in meta if m), "families": len(fam), "victims_equal_to_their_solo_result": n_ok}
    return bad
