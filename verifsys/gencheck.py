"""Runs the document-toolkit comparison (verifsys/gendoc/selftest.py) once per (harness binary, seed, n)
and hands its classified candidate findings to the per-property checks."""
import contextlib
import hashlib
import io
import json
import os
import time

from . import common as C


def run(seed, n, risky=False):
    """risky: False | True (all four) | a list of risky trivia names (see gendoc.render.TriviaPlan.risky)"""
    os.makedirs(C.WORK, exist_ok=True)
    h = hashlib.sha256(open(os.path.join(C.TOOLS, "harness"), "rb").read())
    gd = os.path.join(os.path.dirname(os.path.abspath(__file__)), "gendoc")
    for fn in sorted(os.listdir(gd)):
        if fn.endswith(".py"):
            h.update(open(os.path.join(gd, fn), "rb").read())      # the generator itself is part of the key
    hb = h.hexdigest()[:16]
    rk = ",".join(risky) if isinstance(risky, (list, tuple)) else ("all" if risky else "none")
    cache = os.path.join(C.WORK, "gencheck_%s_%d_%d_%s.json" % (hb, seed, n, hashlib.sha256(rk.encode()).hexdigest()[:8]))
    if os.path.exists(cache) and time.time() - os.path.getmtime(cache) < 1800:
        return json.load(open(cache))
    from .gendoc import selftest
    buf = io.StringIO()
    t0 = time.time()
    argv = ["--n", str(n), "--seed", str(seed)] + (["--risky-only", rk] if isinstance(risky, (list, tuple)) else (["--risky"] if risky else []))
    with contextlib.redirect_stdout(buf):
        rc = selftest.main(argv)
    last = selftest.LAST or {}
    last["exit"] = rc
    last["wall_s"] = round(time.time() - t0, 1)
    last["report_text"] = buf.getvalue()[-6000:]
    with C.Lock("gencheck"):
        json.dump(last, open(cache, "w"))
    return last


def findings_for(last, props):
    """[(prop, cls, seed, what, doc)] for the given property ids (and the generator's own self checks)"""
    out = []
    for k, lst in (last.get("findings") or {}).items():
        prop, _, cls = k.partition("|")
        if prop in props:
            for seed, what, doc in lst:
                out.append((prop, cls, seed, what, doc))
    return out
