"""helpers for project-level harness commands"""
from . import common as C


def run_line(opts, files):
    """files: list of (name, content) as bytes/str; the first is the root"""
    parts = ["run", opts or "-"]
    for n, c in files:
        parts += [C.hx(n), C.hx(c)]
    return " ".join(parts)


def parse(out):
    """'ok k=v k=v' -> ('ok', {k: v})"""
    tree = None
    if " tree=" in out:
        out, _, tree = out.partition(" tree=")
    p = out.split(" ")
    d = {}
    if tree is not None:
        d["tree"] = tree
    for kv in p[1:]:
        k, _, v = kv.partition("=")
        d[k] = v
    return p[0], d
