"""C19 — Tags, string-level part: the automatic tag NAME is injective on the titles
"/" + first-segment, and the automatic TITLE is "/" + the first path segment that is neither
empty nor ".", or "/" when there is none.

Proof side  : coq/props/C19.v (regenerated tagName + hand model pathTagTitle).
Dynamic side: (i) model vs implementation on the same inputs (`tagname`, `pathtagtitle`);
              (ii) the executable statement of the property evaluated on the IMPLEMENTATION's
                   outputs: no two distinct titles share a name (group by output), the title of a
                   path is what an independent Python reading of the property text says, and over
                   the enumerated paths "same first segment <=> same tag name";
              (iii) verdict as in c08.judge."""
import json

from .. import common as C

# '_' '%' '/' '.' ' ' '2' '5' 'a' and the two bytes of 'é'
TITLE_ALPHABET = bytes([0x5F, 0x25, 0x2F, 0x2E, 0x20, 0x32, 0x35, 0x61, 0xC3, 0xA9])
PATH_ALPHABET = b"/.a_{"
CHUNK = 1200000   # titles per batch (memory bound for the thorough tier)


def py_first_segment(path: bytes):
    """independent reading of the property text: first segment that is not empty and not '.'"""
    for seg in path.split(b"/"):
        if seg not in (b"", b"."):
            return seg
    return None


def py_title(path: bytes) -> bytes:
    seg = py_first_segment(path)
    return b"/" if seg is None else b"/" + seg


def is_auto_title(t: bytes) -> bool:
    """shape of the titles the theorem quantifies over: '/' + segment without '/'"""
    return t[:1] == b"/" and b"/" not in t[1:]


def byte_titles():
    """every single byte as a segment, and every byte next to '_' and '%': the proof is a
    byte-by-byte argument, so the per-byte behaviour of url.PathEscape is covered completely"""
    out = []
    for b in range(256):
        c = bytes([b])
        out.append(b"/" + c)
        for x in (b"_", b"%"):
            out.append(b"/" + x + c)
            out.append(b"/" + c + x)
    return out


def batches(it, n):
    cur = []
    for x in it:
        cur.append(x)
        if len(cur) >= n:
            yield cur
            cur = []
    if cur:
        yield cur


class Acc:
    def __init__(self):
        self.corr_bad = []    # (cmd, input, impl, model)
        self.spec_bad = []    # (what, replay dict)
        self.by_name = {}     # impl name -> first title seen with it
        self.n_corr = 0


def check_titles(acc, res, titles, keep_groups=True):
    """tagname on a batch of titles: correspondence + injectivity of the implementation"""
    lines = ["tagname " + C.hx(t) for t in titles]
    impl = C.run_sharded("harness", "fn", lines)
    model = C.run_sharded("modelrun", None, lines)
    res.count(len(lines))
    acc.n_corr += len(lines)
    for t, i, m in zip(titles, impl, model):
        if i != m:
            if len(acc.corr_bad) < 50:
                acc.corr_bad.append(("tagname", t, i, m))
            else:
                acc.corr_bad.append(None)
        if i == "panic":
            acc.spec_bad.append(("tagName panics on title %r" % t,
                                 {"title": C.hx(t), "expected": "a name", "theorem": "tagName_total"}))
            continue
        if not is_auto_title(t):
            continue          # the property only speaks about '/' + segment
        if any(ch in t for ch in b"_% \xc3"):
            res.nontrivial(t)
        other = acc.by_name.get(i)
        if other is None:
            if keep_groups:
                acc.by_name[i] = t
        elif other != t:
            acc.spec_bad.append((
                "automatic tag name is not injective: titles %r and %r both get the name %r" % (other, t, C.unhx(i)),
                {"title": C.hx(other), "title2": C.hx(t), "name": i, "expected": "different names",
                 "theorem": "tagName_injective / auto_tag_names_distinct"}))
    return impl, model


def run(res, tier, seed, replay):
    pr = C.prepare("C19", res, need_gens=("tagname",))
    res.coverage["rule"] = (
        "titles: '/'+s for every byte string s over {_ % / . space 2 5 a 0xC3 0xA9} up to the length bound "
        "(exhaustive; titles whose s contains '/' only take part in the model/implementation comparison), plus "
        "'/'+b, '/_'+b, '/%'+b, '/'+b+'_', '/'+b+'%' for all 256 bytes b; non-trivial = contains '_', '%', space or a "
        "non-ASCII byte; paths: every byte string over {/ . a _ {} up to the length bound (exhaustive), "
        "non-trivial = has a segment to skip ('' or '.') before the first kept one, or no kept one")
    if not (pr.harness_ok and pr.model_ok):
        res.violation("build failed: " + (pr.harness_err or pr.model_err)[-800:],
                      {"obligation": "build of harness/model"}, found_input=False)
        return
    tmax = 5 if tier == "quick" else 7
    pmax = 6 if tier == "quick" else 8
    acc = Acc()

    rp = json.load(open(replay)) if replay else None
    if rp is not None:
        titles_iter = [C.unhx(rp[k]) for k in ("title", "title2") if k in rp]
        paths = [C.unhx(rp[k]) for k in ("path", "path2") if k in rp]
        extra = []
    else:
        titles_iter = (b"/" + s for s in C.all_strings(TITLE_ALPHABET, tmax))
        paths = list(C.all_strings(PATH_ALPHABET, pmax))
        extra = [t for t in dict.fromkeys(byte_titles())
                 if not (len(t) - 1 <= tmax and all(c in TITLE_ALPHABET for c in t[1:]))]

    # ---- (a) tag names --------------------------------------------------------------------
    n_titles = 0
    n_auto = 0
    first = True
    for batch in batches(titles_iter, CHUNK):
        impl, model = check_titles(acc, res, batch)
        n_titles += len(batch)
        n_auto += sum(1 for t in batch if is_auto_title(t))
        if first and len(batch) > 4000:
            for k in (0, 7, 3977):
                res.sample({"title": batch[k].decode("latin1"), "impl_name": C.unhx(impl[k]).decode("latin1"),
                            "model_name": C.unhx(model[k]).decode("latin1")})
        first = False
    if extra:
        impl, model = check_titles(acc, res, extra)
        n_titles += len(extra)
        n_auto += sum(1 for t in extra if is_auto_title(t))
        k = min(len(extra) - 1, 5 * 0xE9)
        res.sample({"title": extra[k].decode("latin1"), "impl_name": C.unhx(impl[k]).decode("latin1"),
                    "model_name": C.unhx(model[k]).decode("latin1")})

    # ---- (b) titles of paths ----------------------------------------------------------------
    seg_of = {}
    dist = {"root_title": 0, "first_piece_kept": 0, "pieces_skipped_first": 0}
    impl_title = {}
    if paths:
        lines = ["pathtagtitle " + C.hx(p) for p in paths]
        impl = C.run_sharded("harness", "fn", lines)
        model = C.run_sharded("modelrun", None, lines)
        res.count(len(lines))
        acc.n_corr += len(lines)
        for p, i, m in zip(paths, impl, model):
            if i != m:
                acc.corr_bad.append(("pathtagtitle", p, i, m))
            want = py_title(p)
            seg = py_first_segment(p)
            seg_of[p] = seg
            if seg is None:
                dist["root_title"] += 1
                res.nontrivial(p)
            elif p.split(b"/")[0] == seg:
                dist["first_piece_kept"] += 1
            else:
                dist["pieces_skipped_first"] += 1
                res.nontrivial(p)
            if i == "panic" or C.unhx(i) != want:
                acc.spec_bad.append((
                    "automatic tag title of path %r is %s, the property says %r" % (p, "a panic" if i == "panic" else repr(C.unhx(i)), want),
                    {"path": C.hx(p), "impl": i, "expected": C.hx(want), "theorem": "pathTagTitle_spec"}))
            else:
                impl_title[p] = C.unhx(i)
        k = min(len(paths) - 1, 1234)
        res.sample({"path": paths[k].decode("latin1"), "impl_title": C.unhx(impl[k]).decode("latin1"),
                    "model_title": C.unhx(model[k]).decode("latin1")})

    # ---- (c) same first segment <=> same tag name, on the implementation ------------------------
    if impl_title:
        dtitles = sorted(set(impl_title.values()))
        acc2 = Acc()
        impl, _ = check_titles(acc2, res, dtitles)
        acc.n_corr += acc2.n_corr
        acc.corr_bad += acc2.corr_bad
        acc.spec_bad += acc2.spec_bad        # collisions among the titles of the enumerated paths
        name_of_title = dict(zip(dtitles, impl))
        name_seg = {}
        seg_name = {}
        for p, t in impl_title.items():
            n = name_of_title[t]
            s = seg_of[p]
            if n in name_seg and name_seg[n][0] != s:
                acc.spec_bad.append((
                    "paths %r and %r have different first segments but the same automatic tag name %r" % (name_seg[n][1], p, C.unhx(n)),
                    {"path": C.hx(name_seg[n][1]), "path2": C.hx(p), "name": n, "expected": "different names",
                     "theorem": "auto_tag_names_distinct"}))
            name_seg.setdefault(n, (s, p))
            if s in seg_name and seg_name[s][0] != n:
                acc.spec_bad.append((
                    "paths %r and %r have the same first segment but different automatic tag names" % (seg_name[s][1], p),
                    {"path": C.hx(seg_name[s][1]), "path2": C.hx(p), "expected": "same name",
                     "theorem": "pathTagTitle_same_segment"}))
            seg_name.setdefault(s, (n, p))
        res.sample({"distinct_first_segments": len(seg_name), "distinct_tag_names": len(name_seg)})
        dist["distinct_first_segments"] = len(seg_name)

    res.coverage["exhaustive"] = rp is None
    res.coverage["traces_validated_against_impl"] = acc.n_corr
    res.notes["input_distribution"] = {
        "titles": n_titles, "titles_of_the_shape_slash_segment": n_auto, "title_max_segment_len": tmax,
        "distinct_names_of_those": len(acc.by_name), "paths": len(paths), "path_max_len": pmax, "path_classes": dist}

    judge(res, pr, acc.corr_bad, acc.spec_bad)


def judge(res, pr, corr_bad, spec_bad):
    for what, rpl in spec_bad[:5]:
        res.violation(what, rpl)
    if spec_bad:
        return
    if not pr.proof_ok:
        res.violation("proof obligation no longer checks: %s" % pr.proof_err,
                      {"obligation": pr.proof_err, "theorems": pr.theorems}, found_input=False)
    real = [c for c in corr_bad if c is not None]
    if real:
        cmd, n, i, m = real[0]
        res.violation("model and implementation disagree on %s %r: impl=%s model=%s (%d disagreements); "
                      "the implementation satisfied the executable specification on every input tried" % (cmd, n, i, m, len(corr_bad)),
                      {"correspondence": cmd, "input": C.hx(n), "impl": i, "model": m}, found_input=False)
