"""C19 — Tags, string-level part: the automatic tag NAME is injective on the titles
"/" + first-segment, and the automatic TITLE is "/" + the first path segment that is neither
empty nor ".", or "/" when there is none.

Proof side  : coq/props/C19.v (regenerated tagName + hand model pathTagTitle).
Dynamic side: (i) model vs implementation on the same inputs (`tagname`, `pathtagtitle`);
              (ii) the executable statement of the property evaluated on the IMPLEMENTATION's
                   outputs: no two distinct titles share a name (group by output), the title of a
                   path is what an independent Python reading of the property text says, and over
                   the enumerated paths "same first segment <=> same tag name";
              (iii) verdict as in c08.judge."""
import json
import os
import random

from .. import common as C
from .. import corecheck as K
from .. import proj as P
from .. import scancheck as S
from .. import skeleton as SK

# '_' '%' '/' '.' ' ' '2' '5' 'a' and the two bytes of 'é'
TITLE_ALPHABET = bytes([0x5F, 0x25, 0x2F, 0x2E, 0x20, 0x32, 0x35, 0x61, 0xC3, 0xA9])
PATH_ALPHABET = b"/.a_{"
CHUNK = 1200000   # titles per batch (memory bound for the thorough tier)


def py_first_segment(path: bytes):
    """independent reading of the property text: first segment that is not empty and not '.'"""
    for seg in path.split(b"/"):
        if seg not in (b"", b"."):
            return seg
    return None


def py_title(path: bytes) -> bytes:
    seg = py_first_segment(path)
    return b"/" if seg is None else b"/" + seg


def is_auto_title(t: bytes) -> bool:
    """shape of the titles the theorem quantifies over: '/' + segment without '/'"""
    return t[:1] == b"/" and b"/" not in t[1:]


def byte_titles():
    """every single byte as a segment, and every byte next to '_' and '%': the proof is a
    byte-by-byte argument, so the per-byte behaviour of url.PathEscape is covered completely"""
    out = []
    for b in range(256):
        c = bytes([b])
        out.append(b"/" + c)
        for x in (b"_", b"%"):
            out.append(b"/" + x + c)
            out.append(b"/" + c + x)
    return out


def batches(it, n):
    cur = []
    for x in it:
        cur.append(x)
        if len(cur) >= n:
            yield cur
            cur = []
    if cur:
        yield cur


class Acc:
    def __init__(self):
        self.corr_bad = []    # (cmd, input, impl, model)
        self.spec_bad = []    # (what, replay dict)
        self.by_name = {}     # impl name -> first title seen with it
        self.n_corr = 0


def check_titles(acc, res, titles, keep_groups=True):
    """tagname on a batch of titles: correspondence + injectivity of the implementation"""
    lines = ["tagname " + C.hx(t) for t in titles]
    impl = C.run_sharded("harness", "fn", lines)
    model = C.run_sharded("modelrun", None, lines)
    res.count(len(lines))
    acc.n_corr += len(lines)
    for t, i, m in zip(titles, impl, model):
        if i != m:
            if len(acc.corr_bad) < 50:
                acc.corr_bad.append(("tagname", t, i, m))
            else:
                acc.corr_bad.append(None)
        if i == "panic":
            acc.spec_bad.append(("tagName panics on title %r" % t,
                                 {"title": C.hx(t), "expected": "a name", "theorem": "tagName_total"}))
            continue
        if not is_auto_title(t):
            continue          # the property only speaks about '/' + segment
        if any(ch in t for ch in b"_% \xc3"):
            res.nontrivial(t)
        other = acc.by_name.get(i)
        if other is None:
            if keep_groups:
                acc.by_name[i] = t
        elif other != t:
            acc.spec_bad.append((
                "automatic tag name is not injective: titles %r and %r both get the name %r" % (other, t, C.unhx(i)),
                {"title": C.hx(other), "title2": C.hx(t), "name": i, "expected": "different names",
                 "theorem": "tagName_injective / auto_tag_names_distinct"}))
    return impl, model


def run(res, tier, seed, replay):
    os.environ.setdefault("VERIF_HARNESS", os.path.join(C.TOOLS, "harness"))
    pr = C.prepare("C19", res, need_gens=("tagname", "tables", "scanner", "typing"))
    res.coverage["rule"] = (
        "titles: '/'+s for every byte string s over {_ % / . space 2 5 a 0xC3 0xA9} up to the length bound "
        "(exhaustive; titles whose s contains '/' only take part in the model/implementation comparison), plus "
        "'/'+b, '/_'+b, '/%'+b, '/'+b+'_', '/'+b+'%' for all 256 bytes b; non-trivial = contains '_', '%', space or a "
        "non-ASCII byte; paths: every byte string over {/ . a _ {} up to the length bound (exhaustive), "
        "non-trivial = has a segment to skip ('' or '.') before the first kept one, or no kept one")
    if not (pr.harness_ok and pr.model_ok):
        res.violation("build failed: " + (pr.harness_err or pr.model_err)[-800:],
                      {"obligation": "build of harness/model"}, found_input=False)
        return
    tmax = 5 if tier == "quick" else 7
    pmax = 6 if tier == "quick" else 8
    acc = Acc()

    rp = json.load(open(replay)) if replay else None
    if rp is not None:
        titles_iter = [C.unhx(rp[k]) for k in ("title", "title2") if k in rp]
        paths = [C.unhx(rp[k]) for k in ("path", "path2") if k in rp]
        extra = []
    else:
        titles_iter = (b"/" + s for s in C.all_strings(TITLE_ALPHABET, tmax))
        paths = list(C.all_strings(PATH_ALPHABET, pmax))
        extra = [t for t in dict.fromkeys(byte_titles())
                 if not (len(t) - 1 <= tmax and all(c in TITLE_ALPHABET for c in t[1:]))]

    # ---- (a) tag names --------------------------------------------------------------------
    n_titles = 0
    n_auto = 0
    first = True
    for batch in batches(titles_iter, CHUNK):
        impl, model = check_titles(acc, res, batch)
        n_titles += len(batch)
        n_auto += sum(1 for t in batch if is_auto_title(t))
        if first and len(batch) > 4000:
            for k in (0, 7, 3977):
                res.sample({"title": batch[k].decode("latin1"), "impl_name": C.unhx(impl[k]).decode("latin1"),
                            "model_name": C.unhx(model[k]).decode("latin1")})
        first = False
    if extra:
        impl, model = check_titles(acc, res, extra)
        n_titles += len(extra)
        n_auto += sum(1 for t in extra if is_auto_title(t))
        k = min(len(extra) - 1, 5 * 0xE9)
        res.sample({"title": extra[k].decode("latin1"), "impl_name": C.unhx(impl[k]).decode("latin1"),
                    "model_name": C.unhx(model[k]).decode("latin1")})

    # ---- (b) titles of paths ----------------------------------------------------------------
    seg_of = {}
    dist = {"root_title": 0, "first_piece_kept": 0, "pieces_skipped_first": 0}
    impl_title = {}
    if paths:
        lines = ["pathtagtitle " + C.hx(p) for p in paths]
        impl = C.run_sharded("harness", "fn", lines)
        model = C.run_sharded("modelrun", None, lines)
        res.count(len(lines))
        acc.n_corr += len(lines)
        for p, i, m in zip(paths, impl, model):
            if i != m:
                acc.corr_bad.append(("pathtagtitle", p, i, m))
            want = py_title(p)
            seg = py_first_segment(p)
            seg_of[p] = seg
            if seg is None:
                dist["root_title"] += 1
                res.nontrivial(p)
            elif p.split(b"/")[0] == seg:
                dist["first_piece_kept"] += 1
            else:
                dist["pieces_skipped_first"] += 1
                res.nontrivial(p)
            if i == "panic" or C.unhx(i) != want:
                acc.spec_bad.append((
                    "automatic tag title of path %r is %s, the property says %r" % (p, "a panic" if i == "panic" else repr(C.unhx(i)), want),
                    {"path": C.hx(p), "impl": i, "expected": C.hx(want), "theorem": "pathTagTitle_spec"}))
            else:
                impl_title[p] = C.unhx(i)
        k = min(len(paths) - 1, 1234)
        res.sample({"path": paths[k].decode("latin1"), "impl_title": C.unhx(impl[k]).decode("latin1"),
                    "model_title": C.unhx(model[k]).decode("latin1")})

    # ---- (c) same first segment <=> same tag name, on the implementation ------------------------
    if impl_title:
        dtitles = sorted(set(impl_title.values()))
        acc2 = Acc()
        impl, _ = check_titles(acc2, res, dtitles)
        acc.n_corr += acc2.n_corr
        acc.corr_bad += acc2.corr_bad
        acc.spec_bad += acc2.spec_bad        # collisions among the titles of the enumerated paths
        name_of_title = dict(zip(dtitles, impl))
        name_seg = {}
        seg_name = {}
        for p, t in impl_title.items():
            n = name_of_title[t]
            s = seg_of[p]
            if n in name_seg and name_seg[n][0] != s:
                acc.spec_bad.append((
                    "paths %r and %r have different first segments but the same automatic tag name %r" % (name_seg[n][1], p, C.unhx(n)),
                    {"path": C.hx(name_seg[n][1]), "path2": C.hx(p), "name": n, "expected": "different names",
                     "theorem": "auto_tag_names_distinct"}))
            name_seg.setdefault(n, (s, p))
            if s in seg_name and seg_name[s][0] != n:
                acc.spec_bad.append((
                    "paths %r and %r have the same first segment but different automatic tag names" % (seg_name[s][1], p),
                    {"path": C.hx(seg_name[s][1]), "path2": C.hx(p), "expected": "same name",
                     "theorem": "pathTagTitle_same_segment"}))
            seg_name.setdefault(s, (n, p))
        res.sample({"distinct_first_segments": len(seg_name), "distinct_tag_names": len(name_seg)})
        dist["distinct_first_segments"] = len(seg_name)

    res.coverage["exhaustive"] = rp is None
    res.coverage["traces_validated_against_impl"] = acc.n_corr
    res.notes["input_distribution"] = {
        "titles": n_titles, "titles_of_the_shape_slash_segment": n_auto, "title_max_segment_len": tmax,
        "distinct_names_of_those": len(acc.by_name), "paths": len(paths), "path_max_len": pmax, "path_classes": dist}

    if rp is None or "project" in rp:
        catalog_part(res, acc, random.Random(seed), tier == "quick", rp)

    judge(res, pr, acc.corr_bad, acc.spec_bad)


# ---------------------------------------------------------------------------------------------
# catalog level: which tags an interaction carries (theorems every_interaction_tagged, explicit_tags_win,
# explicit_tags_declared, undeclared_tag_rejected, tags_directive_checked, declared_title,
# declared_tag_captures_automatic of props/C19.v).  An accepted document in which a Tags directive names
# something no TAG directive declares is a violation (it was the known class
# C19/tags-may-name-an-automatic-tag until /repo 7c6c158 + d972208).

HTTP_KINDS = {8: "GET", 9: "POST", 10: "PUT", 11: "PATCH", 12: "DELETE"}
EXAMPLES = [
    ("declared-captures-automatic", b"JSIGHT 0.3\n\nTAG @x // My X\n\nGET /x\n  200 any\n"),
    ("undeclared-automatic", b"JSIGHT 0.3\n\nGET /x\n  200 any\n\nGET /y\n  Tags @x\n  200 any\n"),
    ("undeclared-automatic-swapped", b"JSIGHT 0.3\n\nGET /y\n  Tags @x\n  200 any\n\nGET /x\n  200 any\n"),
    ("undeclared-unused-url-tags", b"JSIGHT 0.3\nTAG @a\nURL /u\n  Tags @b\n  GET\n    Tags @a\n    200 any\n"),
]
# the verdicts the theorems declared_tag_captures_automatic / undeclared_tag_examples state for them:
# accepted, or "tag not found" at this offset
EXAMPLE_VERDICTS = {"declared-captures-automatic": None, "undeclared-automatic": 39, "undeclared-automatic-swapped": 21,
                    "undeclared-unused-url-tags": 27}
TAG_PATHS = [b"/x", b"/x/y", b"/y", b'"/x y"', b"/x_", b"/", b"/./x", b"//x", b"/X", "/é".encode(), b"/x\xff", b"/{id}/x"]
TAG_NAMES = [b"@x", b"@y", b"@x_20y", b"@_", b"@X", b"@t", b"@x__"]


def tag_documents(rng, quick):
    docs = list(EXAMPLES)
    J = b"JSIGHT 0.3\n"
    n = 700 if quick else 12000
    for _ in range(n):
        lines = [J]
        decl = rng.sample(TAG_NAMES, rng.randint(0, 4))
        for t in decl:
            ann = rng.choice([b"", b" // Title", b' // "q"', " // é".encode(), b" // a\xff"])
            # a declared tag may carry a Description: its title stays the annotation, or the NAME when there is none
            desc = rng.choice([b"", b"", b"  Description\n    All about it\n", b"  Description\n    (\n    x\n    )\n"])
            lines.append(b"TAG " + t + ann + b"\n" + desc)
        used = set()
        urls = set()
        for _ in range(rng.randint(1, 5)):
            p = rng.choice(TAG_PATHS)
            form = rng.randint(0, 5)
            pool = decl if (decl and rng.random() < 0.8) else TAG_NAMES
            tags = b"Tags " + b" ".join(rng.sample(pool, min(len(pool), rng.randint(1, 2)))) + b"\n"
            # the method-level Tags of a block that also has URL-level Tags name OTHER tags (most of the time)
            tags_m = b"Tags " + b" ".join(rng.sample(pool, min(len(pool), rng.randint(1, 2)))) + b"\n"
            m = rng.choice([b"GET", b"POST", b"PUT", b"DELETE", b"PATCH"])
            if (m, p) in used or (form != 0 and p in urls):
                continue
            used.add((m, p))
            if form == 0:
                # a root-level method; it may share its path with a URL block written earlier or later
                lines.append(m + b" " + p + b"\n" + (b"  " + tags if rng.random() < 0.4 else b"") + b"  200 any\n")
            elif form == 1:
                urls.add(p)
                lines.append(b"URL " + p + b"\n" + (b"  " + tags if rng.random() < 0.5 else b"") + b"  " + m + b"\n" +
                             (b"    " + tags_m if rng.random() < 0.4 else b"") + b"    200 any\n")
            elif form == 2:
                urls.add(p)
                lines.append(b"URL " + p + b"\n" + (b"  " + tags if rng.random() < 0.4 else b"") + b"  Protocol json-rpc-2.0\n  Method m" +
                             (b"\n    " + tags_m if rng.random() < 0.5 else b"\n") + b"  Method n\n")
                used.update((x, p) for x in (b"GET", b"POST", b"PUT"))
            elif form == 3:
                urls.add(p)
                lines.append(b"URL " + p + b"\n" + (b"  " + tags if rng.random() < 0.5 else b"") + b"  " + m + b" " + p + b"/sub\n    200 any\n")
                used.discard((m, p))
                used.add((m, p + b"/sub"))
            elif form == 5:
                # the URL-level Tags stands AFTER a method of the block whose context is closed by parentheses (it is still a child
                # of the URL); a JSON-RPC variant half of the time
                urls.add(p)
                if rng.random() < 0.5:
                    m2 = rng.choice([x for x in (b"GET", b"POST", b"PUT") if x != m])
                    if (m2, p) in used:
                        continue
                    used.add((m2, p))
                    # half of the time the parenthesised method has an EARLIER sibling (the ')' returns to the URL, not to it)
                    free0 = [x for x in (b"PATCH", b"DELETE") if x != m and (x, p) not in used]
                    m0 = rng.choice(free0) if (free0 and rng.random() < 0.5) else None
                    pre0 = b""
                    if m0 is not None and (m0, p) not in used:
                        used.add((m0, p))
                        pre0 = b"  " + m0 + b"\n    200 any\n"
                    lines.append(b"URL " + p + b"\n" + pre0 + b"  " + m + b"\n  (\n    200 any\n  )\n  " + tags + b"  " + m2 + b"\n" +
                                 (b"    " + tags_m if rng.random() < 0.3 else b"") + b"    200 any\n")
                else:
                    pre0 = b"  Method k\n" if rng.random() < 0.5 else b""
                    lines.append(b"URL " + p + b"\n  Protocol json-rpc-2.0\n" + pre0 + b"  Method m\n  (\n    Params\n      {}\n  )\n  " + tags + b"  Method n\n")
                    used.update((x, p) for x in (b"GET", b"POST", b"PUT"))
            else:
                # a URL block with URL-level Tags and a child method, then a method with the same path that is not its child
                # (written with its own path inside the block, so it leaves the block)
                urls.add(p)
                m2 = rng.choice([x for x in (b"GET", b"POST", b"PUT") if x != m])
                if (m2, p) in used:
                    continue
                used.add((m2, p))
                lines.append(b"URL " + p + b"\n  " + tags + b"  " + m + b"\n    200 any\n  " + m2 + b" " + p + b"\n    200 any\n")
        docs.append(("random", b"".join(lines)))
    # untagged methods in a row whose first segments are string prefixes of one another (a tag remembered from the previous
    # interaction is not the tag of the next one)
    import itertools as _it
    segs = [b"/cats", b"/catsitters", b"/cat", b"/cats/x", b"/catsitters/y", b"/c", b"/cats.v2", b"/cats_", b"/dogs"]
    for combo in _it.permutations(segs, 3):
        docs.append(("prefix-segments", J + b"".join(rng.choice([b"GET", b"DELETE", b"PATCH"]) + b" " + p + b"\n  200 any\n" for p in combo)))
    return docs


def np_of(d):
    out = {}
    for kv in d["np"].split(","):
        if kv:
            a, _, b = kv.partition(":")
            out[C.unhx(a)] = C.unhx(b)
    return out


def ups_of(d):
    return [C.unhx(x) for x in d["up"].split(",") if x]


def py_interactions(forest):
    """independent reading of the forest: [(id bytes, path, explicit tag list or None, has_tags_directive)]"""
    out = []

    def path_of(d, anc):
        for x in [d] + anc:
            n = np_of(x)
            if x["kind"] == 7:
                return n.get(b"Path", b"")
            if x["kind"] in HTTP_KINDS and n.get(b"Path", b"") != b"":
                return n[b"Path"]
        return None

    def tags_child(d):
        for k in d["kids"]:
            if k["kind"] == 29:
                return ups_of(k)
        return None

    def walk(d, anc):
        if d["kind"] == 21:
            return
        if d["kind"] in HTTP_KINDS or d["kind"] == 25:
            p = path_of(d, anc)
            if d["kind"] == 25:
                ident = b"json-rpc-2.0 " + np_of(d).get(b"MethodName", b"") + b" " + (p or b"")
            else:
                ident = b"http " + HTTP_KINDS[d["kind"]].encode() + b" " + (p or b"")
            explicit = tags_child(d)
            if explicit is None and anc and anc[0]["kind"] == 7:
                explicit = tags_child(anc[0])
            out.append((ident, p, explicit))
        for k in d["kids"]:
            walk(k, [d] + anc)

    for t in forest:
        walk(t, [])
    return out


def catalog_part(res, acc, rng, quick, rp):
    from .c09 import go_coerce, project_of
    if rp is not None:
        projects = [("replay", [(C.unhx(n).decode("latin1"), C.unhx(c)) for n, c in rp["project"]])]
    else:
        projects = [("fixture:" + os.path.relpath(f, C.REPO), project_of(f)) for f in S.fixture_files()]
        projects += [("tags:" + cls, [("a.jst", d)]) for cls, d in tag_documents(rng, quick)]
    outs = C.run_sharded("harness", "fn", [P.run_line("out=json", pj) for _, pj in projects])
    # the generated tag documents have no MACRO / PASTE / INCLUDE: what they SAY is the forest of the first resolution (scan
    # stage); a second resolution that moves a Tags directive elsewhere must not move the expectation with it
    trees = C.run_sharded("harness", "fn", [P.run_line("stage=scan" if o_.startswith("tags:") else "stage=expand", pj) for o_, pj in projects])
    res.count(len(projects))
    dist = {"projects": len(projects), "accepted": 0, "interactions": 0, "with_own_or_url_Tags": 0, "automatic": 0,
            "declared_tags": 0, "captured_by_declared_tag": 0, "tags_directives": 0, "tags_directives_no_method_inherits": 0,
            "skipped_repeated_keys": 0, "rejected_tag_not_found": 0}

    def bad(k, what, detail):
        origin, pj = projects[k]
        acc.spec_bad.append(("tags (%s): %s [%s]" % (what, detail, origin),
                             {"project": [(C.hx(n), C.hx(c)) for n, c in pj], "clause": what, "theorem": "props/C19.v catalog level"}))

    for k, (o, tr) in enumerate(zip(outs, trees)):
        st, d = P.parse(o)
        origin = projects[k][0]
        if origin.startswith("tags:") and origin[5:] in EXAMPLE_VERDICTS:
            want_off = EXAMPLE_VERDICTS[origin[5:]]
            got_v = None if st == "ok" else (int(d["idx"]) if st == "err" and b"tag not found" in C.unhx(d.get("msg", "-")) else (st, d.get("idx")))
            if got_v != want_off:
                bad(k, "example of props/C19.v", "the theorem says %s, the implementation: %r" % (
                    "accepted" if want_off is None else "tag not found at offset %d" % want_off, "accepted" if got_v is None else got_v))
        if st == "err" and b"tag not found" in C.unhx(d.get("msg", "-")):
            dist["rejected_tag_not_found"] += 1
        elif st == "err" and b'"Tags"' in C.unhx(d.get("msg", "-")) and origin.startswith("tags:"):
            # every Tags directive of these documents stands where one may stand (in a method of any kind, in a URL block at any
            # position among its children, HTTP or JSON-RPC): a diagnostic ABOUT the Tags directive itself is never right
            bad(k, "a Tags directive may stand in every method and anywhere among the children of a URL block",
                "rejected with %r" % C.unhx(d.get("msg", "-")).decode("latin1")[:120])
        stt, dt = P.parse(tr)
        if st != "ok" or stt != "ok":
            continue
        dist["accepted"] += 1
        v, dups = SK.parse_pairs(C.unhx(d["json"]).decode("utf-8", "replace"))
        inters = SK.get(v, "interactions", []) or []
        tags = SK.get(v, "tags", []) or []
        if len({kk for kk, _ in inters}) != len(inters):
            dist["skipped_repeated_keys"] += 1       # C09's known classes: ids are ambiguous as strings
            continue
        forest = K.parse_forest(dt["tree"])
        declared = {}
        for t in forest:
            if t["kind"] == 28:
                declared[go_coerce(np_of(t).get(b"TagName", b""))] = go_coerce(C.unhx(t["ann"]))
        dist["declared_tags"] += len(declared)
        # declared titles
        for n, ann in declared.items():
            t = SK.get(tags, n)
            if t is None:
                bad(k, "a declared tag exists", "TAG %r is not in the catalog" % n)
            elif SK.get(t, "title") != (ann if ann != "" else n):
                bad(k, "a declared tag's title is its annotation or its name", "tag %r: title %r, annotation %r" % (n, SK.get(t, "title"), ann))
        expected = py_interactions(forest)
        if len(expected) != len(inters):
            bad(k, "one interaction per method directive", "%d method directives, %d interactions" % (len(expected), len(inters)))
            continue
        auto_of_seg = {}
        for ident, path, explicit in expected:
            key = go_coerce(ident)
            i = SK.get(inters, key)
            dist["interactions"] += 1
            if i is None:
                bad(k, "interaction of a method directive", "no interaction %r" % key)
                continue
            got = SK.get(i, "tags", []) or []
            if not got:
                bad(k, "every interaction carries at least one tag", "interaction %r has none" % key)
                continue
            res.nontrivial(("tags", key, tuple(got), o[:40]))
            if explicit is not None:
                dist["with_own_or_url_Tags"] += 1
                want = [go_coerce(x) for x in explicit]
                if got != want:
                    bad(k, "an interaction with a Tags directive carries exactly those tags", "%r: has %r, Tags says %r" % (key, got, want))
                for n in want:
                    if n not in declared:
                        bad(k, "each tag of a Tags directive must be declared by a TAG directive or the document is rejected",
                            "accepted although no TAG directive declares %r named by the Tags directive of %r" % (n, key))
            else:
                dist["automatic"] += 1
                if len(got) != 1:
                    bad(k, "otherwise the single automatic tag", "%r has %r" % (key, got))
                    continue
                t = SK.get(tags, got[0])
                title = go_coerce(py_title(path or b""))
                if t is None:
                    bad(k, "the automatic tag exists", "%r names %r" % (key, got[0]))
                elif got[0] in declared:
                    dist["captured_by_declared_tag"] += 1     # recorded observation (declared_tag_captures_automatic)
                elif SK.get(t, "title") != title:
                    bad(k, "the automatic tag is the tag of the path's first segment", "%r: tag %r titled %r, first segment gives %r" % (key, got[0], SK.get(t, "title"), title))
                seg = py_first_segment(path or b"")
                if seg in auto_of_seg and auto_of_seg[seg] != got[0]:
                    bad(k, "interactions with the same first segment share the tag", "segment %r: %r and %r" % (seg, auto_of_seg[seg], got[0]))
                auto_of_seg.setdefault(seg, got[0])
        # every Tags directive, wherever it stands (also one that no method takes its tags from)
        def walk_tags(nodes, parent):
            for nd in nodes:
                if nd["kind"] == 21:
                    continue
                if nd["kind"] == 29:
                    dist["tags_directives"] += 1
                    sibs = parent["kids"] if parent is not None else []
                    inherited = parent is not None and (
                        parent["kind"] in HTTP_KINDS or parent["kind"] == 25 or
                        (parent["kind"] == 7 and any((x["kind"] in HTTP_KINDS or x["kind"] == 25) and
                                                     not any(y["kind"] == 29 for y in x["kids"]) for x in sibs)))
                    if not inherited:
                        dist["tags_directives_no_method_inherits"] += 1
                    if C.unhx(nd["ann"]) != b"":
                        bad(k, "a Tags directive has no annotation", "annotation %r" % C.unhx(nd["ann"]))
                    if not ups_of(nd):
                        bad(k, "a Tags directive has parameters", "none")
                    for n in ups_of(nd):
                        if go_coerce(n) not in declared:
                            bad(k, "each tag of a Tags directive must be declared by a TAG directive or the document is rejected",
                                "accepted although no TAG directive declares %r named by a Tags directive%s" % (
                                    go_coerce(n), "" if inherited else " that no method takes its tags from"))
                walk_tags(nd["kids"], nd)

        walk_tags(forest, None)
        names = list(auto_of_seg.values())
        if len(set(names)) != len(names):
            bad(k, "different first segments get different tag names", "%r" % (auto_of_seg,))
    res.notes["catalog_level"] = dist


def judge(res, pr, corr_bad, spec_bad):
    for what, rpl in spec_bad[:5]:
        res.violation(what, rpl)
    if spec_bad:
        return
    if not pr.proof_ok:
        res.violation("proof obligation no longer checks: %s" % pr.proof_err,
                      {"obligation": pr.proof_err, "theorems": pr.theorems}, found_input=False)
    real = [c for c in corr_bad if c is not None]
    if real:
        cmd, n, i, m = real[0]
        res.violation("model and implementation disagree on %s %r: impl=%s model=%s (%d disagreements); "
                      "the implementation satisfied the executable specification on every input tried" % (cmd, n, i, m, len(corr_bad)),
                      {"correspondence": cmd, "input": C.hx(n), "impl": i, "model": m}, found_input=False)
