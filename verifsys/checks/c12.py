"""C12 — allOf inheritance.

Obligations: props/C12.v (heap model coq/model/AllOf.v of core/compile_catalog.go ProcessAllOf ...
inheritPropertiesFromUserType; pure closure coq/spec/AllOfSpec.v).

Evidence produced on every run, on /repo's working tree:
  1. MODEL SEARCH: compare_env (heap model vs spec_tree) evaluated by the extracted model on every
     labelled inheritance graph of the enumeration (all allOf lists over earlier and later types =
     all declaration orders; nested objects, arrays, use sites of all kinds).  Any difference is a
     violation.  allof_correct of props/C12.v covers every accepted project; the verdict line names the
     shape (skeleton=1: the class of allof_correct_skeleton; skeleton2=1 only: a BASE type with a rule below
     its root; neither: a rule inside an object with a rule) and res.notes["shapes_*"] print how many
     environments of each shape the two dynamic stages contained.
  2. UNIT CORRESPONDENCE: the real (*JApiCore).ProcessAllOf on hand-built catalogs vs the model,
     without the schema library in between (diamonds, overrides, cycles, nil ContentJSight: the paths
     a document cannot reach because the library rejects first).
  3. DOCUMENT CORRESPONDENCE: generated .jst projects through the whole implementation vs the
     model (`allof`), in all declaration orders, with use sites in path/query/headers/request/
     response/JSON-RPC schemas.
  4. PROPERTY STATEMENT: spec_inherit re-implemented in Python (allofgen.py_spec, independent of
     the Coq text) and a JSON-only statement (allofgen.json_statement), both evaluated on the
     implementation's JSON; "override / non-object base / undefined base are rejected" evaluated on
     the implementation's verdict.

KNOWN lists the classes of ACCEPTED documents where the unchanged code contradicts the property
(each to be proved as `*_refuted` in props/C12.v and reproduced on the real code); it is empty
since the two classes found in the first round were repaired in /repo: every deviation is a violation.
"""
import itertools
import json
import random

from .. import allofgen as G
from .. import common as C
from .. import proj as P

# Known counterexample classes of the unchanged code: none.  (Until /repo a2c8521 and d4084b3 there
# were two — allOf on an object below an array, allOf in JSON-RPC Params/Result — see the fixed
# entries of known_findings.json.)  A class listed here must name the `*_refuted` theorem of
# props/C12.v, and allofgen.DEVIATIONS must know how the rendering deviates.
KNOWN = []
KNOWN_BY_CLASS = {k["class"]: k for k in KNOWN}

S, O, A = G.S, G.O, G.A


# ---------------------------------------------------------------------------------------
# case generation


def site_allows(kind, t):
    """what the surrounding directives accept, independent of allOf"""
    if kind in ("reqh", "resph", "path") and t[0] != "o":
        return False
    if kind == "path":
        return all(c[0] == "s" for _, c in t[2])
    return True


def permutations_of(types, limit=24):
    n = len(types)
    perms = list(itertools.permutations(range(n)))
    return [[types[i] for i in p] for p in perms[:limit]]


def fault_cases():
    """override (direct, transitive, in a use site), base that is not an object, undefined base,
    diamond, common key of two bases, recursion — each in every declaration order"""
    a = ("@a", O([], ("a", S)))
    b = ("@b", O(["@a"], ("b", S)))
    out = []
    fam = [
        ("override-direct", [a, ("@d", O(["@a"], ("a", S)))], []),
        ("override-transitive", [a, b, ("@d", O(["@b"], ("a", S)))], []),
        ("override-nested", [a, ("@d", O([], ("p", O(["@a"], ("a", S)))))], []),
        ("base-scalar", [("@s", S), ("@d", O(["@s"], ("d", S)))], []),
        ("base-array", [("@s", A(S)), ("@d", O(["@s"], ("d", S)))], []),
        ("base-regex", [("@s", None), ("@d", O(["@s"], ("d", S)))], []),
        ("base-undefined", [a, ("@d", O(["@a", "@nope"], ("d", S)))], []),
        ("base-undefined-only", [("@d", O(["@nope"], ("d", S)))], []),
        ("diamond", [a, b, ("@c", O(["@a"], ("c", S))), ("@d", O(["@b", "@c"], ("d", S)))], []),
        ("base-and-its-base", [a, b, ("@d", O(["@a", "@b"], ("d", S)))], []),
        ("same-base-twice", [a, ("@d", O(["@a", "@a"], ("d", S)))], []),
        ("common-key", [a, ("@a2", O([], ("a", S))), ("@d", O(["@a", "@a2"], ("d", S)))], []),
        ("self", [("@d", O(["@d"], ("d", S)))], []),
        ("cycle2", [("@d", O(["@e"], ("d", S))), ("@e", O(["@d"], ("e", S)))], []),
        ("cycle-nested", [("@d", O([], ("p", O(["@e"])))), ("@e", O(["@d"], ("e", S)))], []),
    ]
    for tag, types, uses in fam:
        for p in permutations_of(types):
            out.append((p, uses, "fault:" + tag))
    # the same faults at every kind of use site
    for k in G.KINDS:
        out.append(([a], [(k, O(["@a"], ("a", S)))], "fault:use-override"))
        out.append(([a, b], [(k, O(["@b"], ("a", S)))], "fault:use-override-transitive"))
        out.append(([a], [(k, O(["@nope"], ("z", S)))], "fault:use-undefined"))
        out.append(([("@s", S)], [(k, O(["@s"], ("z", S)))], "fault:use-base-scalar"))
        out.append(([("@s", None)], [(k, O(["@s"], ("z", S)))], "fault:use-base-regex"))
        out.append(([a, ("@a2", O([], ("a", S)))], [(k, O(["@a", "@a2"], ("z", S)))], "fault:use-common-key"))
    return out


def shaped_graphs(n, max_bases, rich):
    """labelled graphs whose types may carry allOf below the root: in a nested object, in an
    array item, two levels down"""
    names = ["@t%d" % i for i in range(n)]

    def shapes(i, others):
        k = ("k%d" % i, S)
        out = [[], [k]]
        for b in others:
            out.append([("p%d" % i, O([b], ("n%d" % i, S)))])
            if rich:
                out.append([k, ("p%d" % i, O([b], ("n%d" % i, S)))])
                out.append([("l%d" % i, A(O([b], ("m%d" % i, S))))])
                out.append([("q%d" % i, O([], ("r%d" % i, O([b], ("m%d" % i, S)))))])
        if rich and len(others) >= 2:
            out.append([("p%d" % i, O(others[:2]))])
        return out

    per = []
    for i in range(n):
        others = [names[j] for j in range(n) if j != i]
        per.append([O(b, *ps) for b in G.ordered_subsets(others, max_bases) for ps in shapes(i, others)])
    for combo in itertools.product(*per):
        yield [(names[i], combo[i]) for i in range(n)]


def use_candidates(names, kinds):
    cands = []
    for k in kinds:
        for bases in G.ordered_subsets(names, 2):
            if bases:
                cands.append((k, O(bases, ("z", S))))
                cands.append((k, O(bases)))
        for b in names:
            for t in (A(O([b], ("z", S))), O([], ("w", O([b], ("z", S)))), O([], ("w", A(O([b])))),
                      O([b], ("w", O([b], ("z", S))))):
                if site_allows(k, t):
                    cands.append((k, t))
    return [c for c in cands if site_allows(*c)]


BASE_GRAPHS = {
    "chain3": [("@a", O([], ("a", S))), ("@b", O(["@a"], ("b", S))), ("@c", O(["@b"], ("c", S)))],
    "chain4": [("@a", O([], ("a", S), ("a2", S))), ("@b", O(["@a"], ("b", S))), ("@c", O(["@b"], ("c", S))),
               ("@d", O(["@c"], ("d", S)))],
    "two-bases": [("@a", O([], ("a", S))), ("@b", O([], ("b", S), ("b2", S))), ("@d", O(["@b", "@a"], ("d", S)))],
    "shared-base": [("@a", O([], ("a", S))), ("@b", O(["@a"], ("b", S))), ("@c", O(["@a"], ("c", S)))],
    "tree": [("@a", O([], ("a", S))), ("@b", O([], ("b", S))), ("@c", O(["@a", "@b"], ("c", S))),
             ("@e", O([], ("e", S))), ("@d", O(["@e", "@c"], ("d", S)))],
    "empty-diamond": [("@a", O([])), ("@b", O(["@a"], ("b", S))), ("@c", O(["@a"], ("c", S))),
                      ("@d", O(["@b", "@c"], ("d", S)))],
    "nested-base": [("@x", O([], ("x", S))), ("@a", O([], ("p", O(["@x"], ("q", S))), ("a", S))),
                    ("@b", O(["@a"], ("b", S)))],
    "deep": [("@x", O([], ("x", S))), ("@a", O([], ("p", O([], ("q", O(["@x"], ("r", S))))))),
             ("@b", O(["@a"], ("b", S))), ("@c", O(["@b"], ("c", O(["@b"]))))],
}


def deep_base_family(tier, seed):
    """The shapes that were outside the class of allof_correct_skeleton, in quantity: a BASE type @a with a
    rule below its root (on a nested object, on an array item, two levels down, several at once:
    env_skeleton2) or with a rule inside an object that has a rule itself (outside env_skeleton2),
    inherited through one, two and three levels (@b, @c, @d; @d also inherits on a nested object), in
    random declaration orders, alone and with use sites that inherit from the last heir, from @a and
    from the middle of the chain.  Yields (types, uses, tag)."""
    rng = random.Random(seed * 7919 + 12)
    x = ("@x", O([], ("x", S)))
    y = ("@y", O([], ("y", A(S))))
    variants = [
        ("obj", O([], ("p", O(["@x"], ("q", S))), ("a", S))),
        ("item", O([], ("l", A(O(["@x"], ("m", S)), S)), ("a", S))),
        ("deep", O([], ("q", O([], ("r", O(["@y"])))), ("a", S))),
        ("obj+item", O([], ("p", O(["@x"], ("q", S))), ("l", A(O(["@y", "@x"], ("m", S)))), ("a", S))),
        ("item-in-item", O([], ("l", A(O(["@y"], ("m", S)), A(O(["@x"])))))),     # (an annotated item AFTER an array item is not accepted by the schema library's scanner)
        ("rule-in-rule", O(["@y"], ("p", O(["@x"], ("q", S))), ("a", S))),
        ("rule-in-rule-deep", O([], ("p", O(["@x"], ("q", O(["@y"], ("r", S))))), ("a", S))),
        ("rule-in-rule-item", O(["@y"], ("l", A(O(["@x"], ("m", O(["@x"]))))))),
    ]
    heirs = [("@b", O(["@a"], ("b", S))), ("@c", O(["@b"], ("c", S))), ("@d", O(["@c"], ("d", O(["@b"], ("e", S)))))]
    nperm = 6 if tier == "quick" else 40
    for vname, body in variants:
        for levels in (1, 2, 3):
            types = [x, y, ("@a", body)] + heirs[:levels]
            names = [n for n, _ in types]
            top = heirs[levels - 1][0]
            sites = []
            for k in ("query", "req", "resp", "rpcp", "rpcr"):
                for b in (top, "@a", heirs[0][0]):
                    sites += [(k, O([b], ("z", S))), (k, A(O([b]))), (k, O([], ("w", O([b], ("z", S)))))]
            for _ in range(nperm):
                p = types[:]
                rng.shuffle(p)
                yield p, [], "deepbase:%s/%d" % (vname, levels)
                yield p, [rng.choice(sites)], "deepbase-use:%s/%d" % (vname, levels)
                yield p, [rng.choice(sites) for _ in range(rng.randint(2, 3))], "deepbase-use:%s/%d" % (vname, levels)


def shape_of(flags):
    """the class of a project from the flags of `modelrun allofcmp`"""
    if " skeleton=1" in flags:
        return "env_skeleton"
    if " skeleton2=1" in flags:
        return "env_skeleton2 only (a base with a rule below its root)"
    return "outside both (a rule inside an object with a rule)"


def extra_documents():
    J = "JSIGHT 0.3\n\n"
    B = 'TYPE @B\n{\n  "b": 1,\n  @key: 2\n}\n\n'
    D = 'TYPE @D\n{ // {allOf: "@B"}\n  "d": 1\n}\n\n'
    E = 'TYPE @E\n{ // {allOf: "@D"}\n  "e": 1\n}\n\n'
    K = 'TYPE @key\n  "abc"\n\n'
    R = 'GET /x\n  200\n    { // {allOf: "@D"}\n      "r": 1\n    }\n\n'
    out = []
    for perm in itertools.permutations([B, D, E, K, R]):
        out.append(("shortcut-key-chain", (J + "".join(perm)).encode()))
    A0 = 'TYPE @a\n{\n  "a": 1\n}\n\n'
    for body in ('[[\n  { // {allOf: "@a"}\n    "z": 1\n  }\n]]', '[[[\n  { // {allOf: "@a"}\n    "y": 2\n  }\n]]]',
                 '{\n  "rows": [[\n    { // {allOf: "@a"}\n      "z": 1\n    }\n  ]]\n}'):
        ind = "\n".join("    " + l for l in body.split("\n"))
        out.append(("nested-arrays", (J + A0 + "GET /x\n  200\n" + ind + "\n").encode()))
        out.append(("nested-arrays", (J + "TYPE @g\n" + "\n".join("  " + l for l in body.split("\n")) + "\n\n" + A0 + "GET /x\n  200 @g\n").encode()))
        out.append(("nested-arrays", (J + A0 + "URL /r\n  Protocol json-rpc-2.0\n  Method m\n    Params\n" + "\n".join("      " + l for l in body.split("\n")) + "\n").encode()))
    return out


def nested_array_statement(j):
    """every object with an allOf rule, wherever it stands (also below arrays of arrays), has at least the children of its bases"""
    bad = []
    ut = j.get("userTypes", {})

    def walk(c, where):
        if not isinstance(c, dict):
            return
        if c.get("tokenType") == "object":
            for r in c.get("rules", []) or []:
                if r.get("key") == "allOf":
                    names = [x.get("scalarValue") for x in r.get("children", [])] if r.get("tokenType") == "array" else [r.get("scalarValue")]
                    have = [ch.get("key") for ch in c.get("children", [])]
                    for b in names:
                        for ch in (((ut.get(b) or {}).get("schema") or {}).get("content") or {}).get("children", []):
                            if ch.get("key") not in have:
                                bad.append("%s: the property %r of the base %s is missing" % (where, ch.get("key"), b))
        for ch in c.get("children", []) or []:
            walk(ch, where + "/" + (ch.get("key") or "[]"))

    for n, t in ut.items():
        walk((t.get("schema") or {}).get("content"), n)
    for key, it in j.get("interactions", {}).items():
        for nm in ("query", "params", "result"):
            walk(((it.get(nm) or {}).get("schema") or {}).get("content"), key + " " + nm)
        for r in it.get("responses", []) or []:
            walk((((r.get("body") or {}).get("schema")) or {}).get("content"), key + " " + str(r.get("code")))
    return bad


def document_cases(tier, seed):
    rng = random.Random(seed)
    cases = []
    # A. every labelled root-level graph (all declaration orders are among them)
    for n, mo, mb in ([(1, 2, 0), (2, 2, 1), (3, 1, 2)] if tier == "quick" else [(1, 2, 0), (2, 2, 1), (3, 2, 2), (4, 1, 2)]):
        for g in G.graphs(n, mo, mb):
            st, _ = G.py_spec(g, [])
            if st == "ok" or rng.random() < (0.08 if tier == "quick" else 0.02):
                cases.append((g, [], "graph"))
    for g in G.graphs(2, 2, 1, shared=True):
        cases.append((g, [], "graph-shared-keys"))
    for g in G.graphs(3, 1, 2, shared=True):
        if rng.random() < (0.15 if tier == "quick" else 1.0):
            cases.append((g, [], "graph-shared-keys"))
    # B. allOf below the root, arrays
    for n, mb, rich in [(2, 1, True), (3, 1, tier != "quick")]:
        for g in shaped_graphs(n, mb, rich):
            st, _ = G.py_spec(g, [])
            p = 1.0 if n == 2 else (0.5 if tier == "quick" else 1.0)
            if (st == "ok" and rng.random() < p) or rng.random() < 0.01:
                cases.append((g, [], "shaped"))
    # C. the named graphs in every declaration order, alone and with use sites of every kind
    for name, types in BASE_GRAPHS.items():
        perms = permutations_of(types, 24 if tier == "quick" else 120)
        for p in perms:
            cases.append((p, [], "named:" + name))
        names = [n for n, _ in types]
        cands = [c for c in use_candidates(names, G.KINDS) if path_ok(types, c)]
        for c in cands:
            cases.append((rng.choice(perms), [c], "use1:" + name))
        for _ in range(100 if tier == "quick" else 400):
            k = rng.randint(2, 4)
            cases.append((rng.choice(perms), [rng.choice(cands) for _ in range(k)], "useN:" + name))
    # D. faults
    cases += fault_cases()
    # E. bases with rules below their root, rules inside objects with rules: one to three levels of inheritance
    cases += list(deep_base_family(tier, seed))
    return cases


def search_envs(tier, seed=0):
    """the enumeration of the model search (step 1) and of the unit correspondence (step 2)"""
    if tier == "quick":
        plain = [(1, 2, 1), (2, 2, 2), (3, 1, 3)]
        shaped = [(1, 0, True), (2, 1, True), (3, 1, True)]
        shared = [(2, 2, 2)]
    else:
        plain = [(1, 2, 1), (2, 2, 2), (3, 2, 3), (4, 1, 3)]
        shaped = [(1, 0, True), (2, 1, True), (3, 2, True), (4, 1, False)]
        shared = [(2, 2, 2), (3, 2, 2)]
    # third component: also compare with the real ProcessAllOf on a hand-built catalog.  Not for the
    # big shaped families: an inheritance cycle through a NESTED allOf makes the structure cyclic, the
    # model then burns its fuel (exponentially) and the real function overflows the Go stack; the
    # small shaped family has them too, there the model's "fuel" answer keeps them away from the harness.
    for n, mo, mb in plain:
        for g in G.graphs(n, mo, mb):
            yield g, [], True
    for n, mo, mb in shared:
        for g in G.graphs(n, mo, mb, shared=True):
            yield g, [], True
    for n, mb, rich in shaped:
        yield from ((g, [], n <= 3 and mb <= 1) for g in shaped_graphs(n, mb, rich))
    # acyclic by construction: also compared with the real ProcessAllOf (the ones without use sites)
    for t, u, _ in deep_base_family(tier, seed):
        yield t, u, not u


# ---------------------------------------------------------------------------------------


def path_ok(types, use):
    """a Path object must be flat and non-empty after inheritance (checkPathSchema): not about allOf"""
    k, t = use
    if k != "path":
        return True
    try:
        ch = G.spec_children(dict(types), t, [])
    except G.Reject:
        return True
    return bool(ch) and all(sub == "" for _, _, sub in ch)


def path_keys(types, use):
    """the {name} segments a Path object needs: every key it ends up with"""
    k, t = use
    tys = dict(types)
    try:
        return [x[0] for x in G.spec_children(tys, t, [])]
    except G.Reject:
        return [key for key, _ in t[2]]


def make_doc(types, uses):
    return G.to_jst(types, uses, lambda i: path_keys(types, uses[i]))


def blank_path_used(uses, used):
    """pathVariables are rebuilt without usedUserTypes: not observable"""
    parts = used.split(";")
    nt = len(parts) - len(uses)
    for i, (k, _) in enumerate(uses):
        if k == "path":
            parts[nt + i] = "-"
    return ";".join(parts)


def run(res, tier, seed, replay):
    pr = C.prepare("C12", res)
    res.coverage["rule"] = (
        "inheritance environments = (user types in declaration order, use sites): every labelled graph on <= 3 "
        "(thorough: 4) types with every allOf list over earlier AND later types (so every declaration order), "
        "0-2 own properties, allOf at the root / in a nested object / in an array item / two levels down; named "
        "graphs (chains of 3 and 4, two bases, shared base, tree, empty diamond, nested base) in every "
        "permutation of the TYPE directives, with use sites in Path, Query, request/response Headers and Body, "
        "JSON-RPC Params/Result; fault injections (override, non-object base, undefined base, diamond, common "
        "key, recursion) in every order; base types with rules below their root (nested object, array item, two levels "
        "down, rule inside a rule) inherited through 1-3 levels in random declaration orders with and without use "
        "sites; non-trivial = accepted document in which some object inherits")
    res.notes["known_classes"] = KNOWN
    if not (pr.harness_ok and pr.model_ok):
        res.violation("build failed: " + (pr.harness_err or pr.model_err)[-800:],
                      {"obligation": "build of harness/model"}, found_input=False)
        return
    spec_bad, corr_bad, search_bad = [], [], []
    known_hits = {k["class"]: [] for k in KNOWN}

    if replay:
        rp = json.load(open(replay))
        env = rp.get("env")
        if env:
            types = [(n, None if t is None else totuple(t)) for n, t in env["types"]]
            uses = [(k, totuple(t)) for k, t in env["uses"]]
            cases = [(types, uses, "replay")]
            envs = [(types, uses, not uses)]
        else:
            cases, envs = [], []
    else:
        cases = document_cases(tier, seed)
        envs = None

    # 1 + 2: model search and unit correspondence
    n_search = 0
    cls_count = {}
    shape_search = {"all": {}, "accepted": {}}
    unit_stats = {"compared": 0, "model_nonterminating_skipped": 0, "not_attempted": 0}
    chunk = []

    def flush(chunk):
        nonlocal n_search
        if not chunk:
            return
        encs = [G.enc_env(t, u) for t, u, _ in chunk]
        out = C.run_sharded("modelrun", None, ["allofcmp " + e for e in encs], shards=32)
        safe = [i for i, (t, u, unit) in enumerate(chunk) if unit]
        umo = C.run_sharded("modelrun", None, ["allofunit " + encs[i] for i in safe], shards=32) if safe else []
        um = ["fuel"] * len(encs)
        for i, a in zip(safe, umo):
            um[i] = a
        # "fuel": the model does not terminate within its bound — inheritance cycles through nested
        # objects, where the real ProcessAllOf (on a hand-built catalog; a document cannot get there,
        # the schema library rejects the recursion) recurses until the Go stack overflows, which
        # would kill the harness process: those environments are not sent to it.
        live = [i for i, a in enumerate(um) if a != "fuel"]
        try:
            uo = C.run_sharded("harness", "fn", ["allofunit " + encs[i] for i in live], shards=32) if live else []
        except Exception as ex:  # the harness process died: ProcessAllOf did not come back
            uo = ["harness-died"] * len(live)
            if not unit_stats.get("harness_died"):
                unit_stats["harness_died"] = str(ex)[-300:]
                corr_bad.append(("unit-harness-died", chunk[live[0]][0] if live else [], [],
                                 "the harness process died while running ProcessAllOf on hand-built catalogs "
                                 "(stack overflow / non-termination where the model terminates)", "terminates"))
        ui = ["fuel"] * len(encs)
        for i, b in zip(live, uo):
            ui[i] = b
        unit_stats["compared"] += len(live)
        unit_stats["model_nonterminating_skipped"] += len(safe) - len(live)
        unit_stats["not_attempted"] += len(encs) - len(safe)
        n_search += len(chunk)
        for (t, u, _), e, o, a, b in zip(chunk, encs, out, um, ui):
            head = o.split(" ")[0]
            cls_count[o] = cls_count.get(o, 0) + 1
            sh = shape_of(o)
            shape_search["all"][sh] = shape_search["all"].get(sh, 0) + 1
            if head != "rejected":
                shape_search["accepted"][sh] = shape_search["accepted"].get(sh, 0) + 1
            if head == "modelfails" or head.startswith("differs"):
                search_bad.append((t, u, o))
            if head != "rejected" and not u:
                accepted.append(t)
            if a != b and not u and b != "harness-died":
                corr_bad.append(("unit", t, u, b, a))
        res.count(3 * len(chunk))

    accepted = []
    for env in (envs if envs is not None else search_envs(tier, seed)):
        chunk.append(env)
        if len(chunk) >= 200000:
            flush(chunk)
            chunk = []
    flush(chunk)
    # second pass: the accepted graphs with use sites of every kind (one; two on the small graphs):
    # does the rendering of anything depend on which other schemas are processed, and when?
    if envs is None:
        chunk = []
        seen = set()
        for t in list(accepted):
            key = G.enc_env(t, [])
            if key in seen or len(t) > 3:
                continue
            seen.add(key)
            names = [n for n, _ in t]
            cands = use_candidates(names, G.KINDS)
            if tier == "quick":
                cands = cands[::2]
            for c in cands:
                chunk.append((t, [c], False))
            if len(t) <= (1 if tier == "quick" else 2):
                for c1 in cands:
                    for c2 in cands:
                        chunk.append((t, [c1, c2], False))
            if len(chunk) >= 200000:
                flush(chunk)
                chunk = []
        flush(chunk)
    res.notes["unit_correspondence"] = unit_stats
    res.notes["shapes_model_vs_spec"] = {
        "environments": n_search, "by class, all": shape_search["all"], "by class, accepted by the library": shape_search["accepted"],
        "meaning": "class of every environment of the model search / unit correspondence: env_skeleton = the class of "
                   "allof_correct_skeleton; env_skeleton2 only = a BASE type carries a rule below its root; outside both = a "
                   "rule inside an object that has a rule itself; all three are inside allof_correct (every accepted project)"}
    res.notes["model_search"] = {"environments": n_search, "verdicts": cls_count,
                                 "meaning": "compare_env of spec/AllOfSpec.v evaluated by the extracted model; "
                                            "differs or modelfails = violation"}

    # 3 + 4: documents
    docs = [make_doc(t, u) for t, u, _ in cases]
    impl = C.run_sharded("harness", "fn", [P.run_line("-", [("main.jst", d)]) for d in docs], shards=16)
    model = C.run_sharded("modelrun", None, ["allof " + G.enc_env(t, u) for t, u, _ in cases], shards=16)
    shapes = C.run_sharded("modelrun", None, ["allofcmp " + G.enc_env(t, u) for t, u, _ in cases], shards=16)
    shape_docs = {"all": {}, "accepted by the implementation": {}}
    for (t, u, _), sho, io in zip(cases, shapes, impl):
        sh = shape_of(sho)
        shape_docs["all"][sh] = shape_docs["all"].get(sh, 0) + 1
        if P.parse(io)[0] == "ok":
            shape_docs["accepted by the implementation"][sh] = shape_docs["accepted by the implementation"].get(sh, 0) + 1
        if sho.startswith("differs") or sho.startswith("modelfails"):
            search_bad.append((t, u, sho))
    res.notes["shapes_model_vs_implementation"] = {
        "documents": len(cases), "by class": shape_docs,
        "meaning": "class (see shapes_model_vs_spec) of every generated document of the document correspondence"}
    res.count(2 * len(cases))
    res.coverage["traces_validated_against_impl"] = len(cases) + n_search
    dist = {}
    tagdist = {}
    for (types, uses, tag), doc, io, mo in zip(cases, docs, impl, model):
        st, d = P.parse(io)
        sst, sval = G.py_spec(types, uses)
        cl = G.classes(types, uses)
        key = "%s/%s" % (st, sst)
        dist[key] = dist.get(key, 0) + 1
        tagdist[tag.split(":")[0]] = tagdist.get(tag.split(":")[0], 0) + 1
        ctx = (types, uses, tag, doc)
        if st not in ("ok", "err"):
            spec_bad.append((ctx, "the implementation neither accepts nor rejects: " + io[:200], ""))
            continue
        if st == "err":
            msg = C.unhx(d.get("msg", "-")).decode("utf-8", "replace")
            kind = G.classify_error(msg)
            if sst == "ok":
                corr_bad.append(("doc-rejected", types, uses, "err " + msg, mo))
            else:
                # one injected fault: the diagnostic must name it; several faults at once (the graph
                # enumerations): which one the library reports first is its business
                exact = tag.startswith("fault:")
                fine = (kind in sval) if exact else (kind in ("notfound", "notobject", "dup", "recursion"))
                if kind == "notfound" and "notobject" in sval and any(t is None for _, t in types):
                    fine = True     # a regex type is unknown to the library's allOf ("not found" or "must be an object")
                if not fine:
                    corr_bad.append(("doc-error-kind", types, uses, "err %s (%s)" % (kind, msg), "spec: %s" % sorted(sval)))
                if mo != "rej":
                    corr_bad.append(("doc-model-accepts", types, uses, "err " + msg, mo))
            continue
        j = json.loads(C.unhx(d["json"]))
        ir, iused = G.render_json(types, uses, j)
        if sst == "rej":
            spec_bad.append((ctx, "accepted, but the property demands rejection (%s)" % ", ".join(sorted(sval)), ir))
            continue
        if any(t[1] for _, t in types if t is not None) or any(G.has_allof(t) for _, t in uses):
            res.nontrivial(ir)
        mr, _, mused = mo.partition(" used=")
        if mr != ir:
            corr_bad.append(("doc-render", types, uses, ir, mo))
        elif blank_path_used(uses, mused) != blank_path_used(uses, iused):
            corr_bad.append(("doc-usedUserTypes", types, uses, iused, mused))
        complaints = G.json_statement(j)
        if ir != sval or complaints:
            why = ("children differ from spec_inherit: got %s expected %s" % (ir, sval)) if ir != sval else complaints[0]
            # exactly a known deviation?  the rendering must be the property's with some of the
            # document's known classes switched on, nothing else
            explained = None
            kcl = sorted(c for c in cl if c in KNOWN_BY_CLASS)
            for sub in ([c] for c in kcl), [kcl]:
                for cs in sub:
                    if cs and G.py_spec_deviating(types, uses, cs) == ("ok", ir):
                        explained = explained or cs
            if explained:
                for c in explained:
                    known_hits[c].append((len(doc), doc, ir, sval))
            else:
                spec_bad.append((ctx, why, ir))
    # documents outside the generator's tree language: property keys that are user-type shortcuts, arrays directly inside
    # arrays; decided by the JSON-only statement (inherited before own, in rule order, marked, each exactly once)
    xdocs = extra_documents()
    xo = C.run_sharded("harness", "fn", [P.run_line("out=json", [("a.jst", d)]) for _, d in xdocs])
    res.count(len(xdocs))
    for (label, d), o in zip(xdocs, xo):
        st, dd = P.parse(o)
        if st != "ok":
            spec_bad.append((([], [], "extra:" + label, d.decode()), "a valid document is rejected: %s" % C.unhx(dd.get("msg", "-")).decode("latin1")[:160], ""))
            continue
        jx = json.loads(C.unhx(dd["json"]))
        res.nontrivial(("extra", label))
        comp = G.json_statement(jx) + nested_array_statement(jx)
        if comp:
            spec_bad.append((([], [], "extra:" + label, d.decode()), comp[0], ""))
    tagdist["extra"] = len(xdocs)
    res.notes["input_distribution"] = {"documents": len(cases), "impl/spec verdicts": dist, "families": tagdist}
    if cases:
        mid = len(cases) // 2
        res.sample({"env": G.enc_env(cases[mid][0], cases[mid][1]), "impl": impl[mid][:60], "model": model[mid][:200]})
        res.sample({"document": docs[-1][:400]})
    res.coverage["exhaustive"] = True

    for c, hits in known_hits.items():
        if hits:
            k = KNOWN_BY_CLASS[c]
            _, doc, ir, sval = min(hits, key=lambda x: x[0])
            res.known.append("id=%s theorem=%s documents=%d smallest: %r gives %s, the property demands %s" % (
                k["id"], k["theorem"], len(hits), doc, ir, sval))
    judge(res, pr, spec_bad, corr_bad, search_bad)


def totuple(t):
    k, bases, kids = t
    if k == "o":
        return (k, list(bases), [(key, totuple(c)) for key, c in kids])
    return (k, list(bases), [totuple(c) for c in kids])


def env_json(types, uses):
    return {"types": [[n, t] for n, t in types], "uses": [[k, t] for k, t in uses]}


def judge(res, pr, spec_bad, corr_bad, search_bad):
    seen = set()
    for (types, uses, tag, doc), why, ir in sorted(spec_bad, key=lambda x: len(x[0][3])):
        key = why.split(":")[0][:40] + tag.split(":")[0]
        if key in seen:
            continue
        seen.add(key)
        res.violation("allOf: %s  [%s, %d documents in all]  document: %r" % (why, tag, len(spec_bad), doc),
                      {"env": env_json(types, uses), "encoding": G.enc_env(types, uses), "document": doc, "impl": ir,
                       "theorem": "allof_correct / override_rejected / non_object_base_rejected / undefined_base_rejected"})
        if len(seen) >= 5:
            break
    for types, uses, o in search_bad[:3]:
        res.violation("model search: the heap model differs from spec_inherit: %s on %s  document: %r" % (
            o, G.enc_env(types, uses), make_doc(types, uses)),
            {"env": env_json(types, uses), "encoding": G.enc_env(types, uses), "document": make_doc(types, uses),
             "theorem": "allof_correct"})
    if spec_bad or search_bad:
        return
    if not pr.proof_ok:
        res.violation("proof obligation no longer checks: %s" % pr.proof_err,
                      {"obligation": pr.proof_err, "theorems": pr.theorems}, found_input=False)
    if corr_bad:
        kind, types, uses, i, m = min(corr_bad, key=lambda x: len(G.enc_env(x[1], x[2])))
        res.violation("model and implementation disagree (%s) on %s: impl=%s model=%s (%d disagreements); the implementation "
                      "satisfied the executable statement of the property on every document tried" % (
                          kind, G.enc_env(types, uses), i, m, len(corr_bad)),
                      {"correspondence": kind, "env": env_json(types, uses), "encoding": G.enc_env(types, uses),
                       "document": make_doc(types, uses), "impl": i, "model": m}, found_input=False)
