"""C10 - Declaration order is free: permuting declarations only permutes the catalog.

Obligations: props/C10.v (order independence of the name-uniqueness passes, of the macro recursion check and of allOf
inheritance on the models).  Correspondence / exploration: generated API models (verifsys/gendoc) are rendered in the
declared order and in a random permutation of their top-level blocks (also after being cut into macros); the
implementation must give the same verdict and the same catalog entries, in the permuted order."""
import re

from .. import common as C
from .. import genprop as GP

KNOWN_USED = "C10/allof-chain-usedUserTypes-order"


def take(prop, cls):
    return prop == "C10"


def known_rule(cls, what, doc):
    m = re.search(r"\(([^()]*)\)\s*$", cls)
    if m and "changes" in cls and "verdict" not in cls:
        parts = [p.strip() for p in m.group(1).split(";")]
        if parts and all(p.endswith(": usedUserTypes") for p in parts) and doc.count("allOf") >= 2:
            return KNOWN_USED
    return None


def run(res, tier, seed, replay):
    pr = C.prepare("C10", res, need_gens=("tables", "scanner", "typing", "tagname"))
    res.coverage["rule"] = ("generated API models (reference chains between types, enums used inside referenced types, allOf chains, "
                            "tags used before definition, URL blocks, JSON-RPC) x one random permutation of the top-level blocks each, "
                            "plus a permutation of the top level after macro-ization; compared: verdict, the content of every catalog "
                            "entry, and that the order of the entries is the permuted order; non-trivial = every generated model; "
                            "distinct by model")
    if not pr.harness_ok:
        res.violation("build failed: " + pr.harness_err[-800:], {"obligation": "build"}, found_input=False)
        return
    # inheritance graphs with allOf below the root of a base (nested objects, array items), in every declaration order:
    # the entry of every type must not depend on the order (usedUserTypes apart: the recorded finding)
    from . import c12 as M12
    from .. import allofgen as AG
    from .. import proj as P
    import json as _json
    groups = []
    for name, types in M12.BASE_GRAPHS.items():
        perms = M12.permutations_of(types, 24 if tier == "quick" else 120)
        groups.append((name, [AG.to_jst(p, []) for p in perms]))
    flat = [(g, d) for g, ds in groups for d in ds]
    outs = C.run_sharded("harness", "fn", [P.run_line("out=json", [("a.jst", d.encode())]) for _, d in flat])
    res.count(len(flat))
    by = {}
    for (g, d), o in zip(flat, outs):
        by.setdefault(g, []).append((d, o))

    def entries(o):
        st, dd = P.parse(o)
        if st != "ok":
            return st, None
        j = _json.loads(C.unhx(dd["json"]))

        def strip(x):
            if isinstance(x, dict):
                return {k: strip(v) for k, v in x.items() if k not in ("usedUserTypes", "example")}
            if isinstance(x, list):
                return [strip(v) for v in x]
            return x
        return "ok", {k: _json.dumps(strip(v), sort_keys=True) for k, v in j.get("userTypes", {}).items()}

    for g, lst in by.items():
        s0, e0 = entries(lst[0][1])
        for d, o in lst[1:]:
            s1, e1 = entries(o)
            if s1 != s0 or e1 != e0:
                diff = [k for k in (e0 or {}) if (e1 or {}).get(k) != e0.get(k)]
                res.violation("declaration order matters: the inheritance graph '%s' gives %s in one order of its TYPE directives and %s in another%s" % (
                    g, s0, s1, (": the entries of %s differ" % ", ".join(diff[:4])) if diff else ""),
                    {"first": lst[0][0], "second": d, "graph": g})
                return
            res.nontrivial(("graph-order", g, d))
    res.notes["inheritance_graph_orders"] = {g: len(l) for g, l in by.items()}
    last, bad = GP.run(res, "C10", tier, seed, replay, pr, take, known_rule)
    for msg, rp, found in bad:
        res.violation("declaration order matters: " + msg, rp, found_input=found)
    if bad:
        return
    if not pr.proof_ok:
        res.violation("proof obligation no longer checks: %s" % pr.proof_err, {"obligation": pr.proof_err, "theorems": pr.theorems}, found_input=False)
