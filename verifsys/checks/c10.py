"""C10 - Declaration order is free: permuting declarations only permutes the catalog.

Obligations: props/C10.v (order independence of the name-uniqueness passes, of the macro recursion check and of allOf
inheritance on the models).  Correspondence / exploration: generated API models (verifsys/gendoc) are rendered in the
declared order and in a random permutation of their top-level blocks (also after being cut into macros); the
implementation must give the same verdict and the same catalog entries, in the permuted order."""
import re

from .. import common as C
from .. import genprop as GP

KNOWN_USED = "C10/allof-chain-usedUserTypes-order"


def take(prop, cls):
    return prop == "C10"


def known_rule(cls, what, doc):
    m = re.search(r"\(([^()]*)\)\s*$", cls)
    if m and "changes" in cls and "verdict" not in cls:
        parts = [p.strip() for p in m.group(1).split(";")]
        if parts and all(p.endswith(": usedUserTypes") for p in parts) and doc.count("allOf") >= 2:
            return KNOWN_USED
    return None


def run(res, tier, seed, replay):
    pr = C.prepare("C10", res, need_gens=("tables", "scanner", "typing", "tagname"))
    res.coverage["rule"] = ("generated API models (reference chains between types, enums used inside referenced types, allOf chains, "
                            "tags used before definition, URL blocks, JSON-RPC) x one random permutation of the top-level blocks each, "
                            "plus a permutation of the top level after macro-ization; compared: verdict, the content of every catalog "
                            "entry, and that the order of the entries is the permuted order; non-trivial = every generated model; "
                            "distinct by model")
    if not pr.harness_ok:
        res.violation("build failed: " + pr.harness_err[-800:], {"obligation": "build"}, found_input=False)
        return
    last, bad = GP.run(res, "C10", tier, seed, replay, pr, take, known_rule)
    for msg, rp, found in bad:
        res.violation("declaration order matters: " + msg, rp, found_input=found)
    if bad:
        return
    if not pr.proof_ok:
        res.violation("proof obligation no longer checks: %s" % pr.proof_err, {"obligation": pr.proof_err, "theorems": pr.theorems}, found_input=False)
