"""C10 - Declaration order is free: permuting declarations only permutes the catalog.

Obligations: props/C10.v (order independence of the name-uniqueness passes, of the macro recursion check and of allOf
inheritance on the models).  Correspondence / exploration: generated API models (verifsys/gendoc) are rendered in the
declared order and in a random permutation of their top-level blocks (also after being cut into macros); the
implementation must give the same verdict and the same catalog entries, in the permuted order."""
import re

from .. import common as C
from .. import genprop as GP

KNOWN_REGEX = "C10/regex-example-depends-on-order"
KNOWN_USED = "C10/allof-chain-usedUserTypes-order"


def take(prop, cls):
    return prop == "C10"


def known_rule(cls, what, doc):
    m = re.search(r"\(([^()]*)\)\s*$", cls)
    if m and "changes" in cls and "verdict" not in cls:
        parts = [p.strip() for p in m.group(1).split(";")]
        if parts and all(p.endswith(": usedUserTypes") for p in parts) and doc.count("allOf") >= 2:
            return KNOWN_USED
        if parts and all(p.endswith(": example-regex") or p.endswith(": usedUserTypes") for p in parts):
            return KNOWN_REGEX if any(p.endswith(": example-regex") for p in parts) else None
    return None


def run(res, tier, seed, replay):
    pr = C.prepare("C10", res, need_gens=("tables", "scanner", "typing", "tagname"))
    res.coverage["rule"] = ("generated API models (reference chains between types, enums used inside referenced types, allOf chains, "
                            "tags used before definition, URL blocks, JSON-RPC) x one random permutation of the top-level blocks each, "
                            "plus a permutation of the top level after macro-ization; compared: verdict, the content of every catalog "
                            "entry, and that the order of the entries is the permuted order; non-trivial = every generated model; "
                            "distinct by model")
    if not pr.harness_ok:
        res.violation("build failed: " + pr.harness_err[-800:], {"obligation": "build"}, found_input=False)
        return
    # inheritance graphs with allOf below the root of a base (nested objects, array items), in every declaration order:
    # the entry of every type must not depend on the order (usedUserTypes apart: the recorded finding)
    from . import c12 as M12
    from .. import allofgen as AG
    from .. import proj as P
    import json as _json
    groups = []
    for name, types in M12.BASE_GRAPHS.items():
        perms = M12.permutations_of(types, 24 if tier == "quick" else 120)
        groups.append((name, [AG.to_jst(p, []) for p in perms]))
    flat = [(g, d) for g, ds in groups for d in ds]
    outs = C.run_sharded("harness", "fn", [P.run_line("out=json", [("a.jst", d.encode())]) for _, d in flat])
    res.count(len(flat))
    by = {}
    for (g, d), o in zip(flat, outs):
        by.setdefault(g, []).append((d, o))

    def entries(o):
        st, dd = P.parse(o)
        if st != "ok":
            return st, None
        j = _json.loads(C.unhx(dd["json"]))

        def strip(x):
            if isinstance(x, dict):
                return {k: strip(v) for k, v in x.items() if k not in ("usedUserTypes", "example")}
            if isinstance(x, list):
                return [strip(v) for v in x]
            return x
        return "ok", {k: _json.dumps(strip(v), sort_keys=True) for k, v in j.get("userTypes", {}).items()}

    for g, lst in by.items():
        s0, e0 = entries(lst[0][1])
        for d, o in lst[1:]:
            s1, e1 = entries(o)
            if s1 != s0 or e1 != e0:
                diff = [k for k in (e0 or {}) if (e1 or {}).get(k) != e0.get(k)]
                res.violation("declaration order matters: the inheritance graph '%s' gives %s in one order of its TYPE directives and %s in another%s" % (
                    g, s0, s1, (": the entries of %s differ" % ", ".join(diff[:4])) if diff else ""),
                    {"first": lst[0][0], "second": d, "graph": g})
                return
            res.nontrivial(("graph-order", g, d))
    res.notes["inheritance_graph_orders"] = {g: len(l) for g, l in by.items()}
    # reference graphs: random DAGs of types that refer to one another through properties, array items, unions and plain
    # aliases (a type reached twice through different members, aliases of aliases), used by method blocks as bodies and as
    # Headers; every block - TYPE and method alike - in random orders: one verdict, one catalog
    import random as _random
    rng = _random.Random(seed + 10)
    ref_groups = []
    for gi in range(200 if tier == "quick" else 1500):
        nt = rng.randint(4, 7)
        kinds, texts, is_obj = [None] * nt, [None] * nt, [None] * nt
        allrefs = None
        if gi % 2:
            # a tree (every leaf is used once, by its parent) plus one or two extra references to NON-leaf types from other
            # branches: an inner type is reached twice, its leaves are not
            nt = rng.randint(5, 8)
            kinds, texts, is_obj = [None] * nt, [None] * nt, [None] * nt
            allrefs = [[] for _ in range(nt)]
            par = {}
            for i in range(1, nt):
                par[i] = rng.randrange(max(0, i - 3), i)
                allrefs[par[i]].append(i)
            inner = [b for b in range(1, nt) if allrefs[b]]
            for _ in range(rng.randint(1, 2)):
                if inner:
                    b = rng.choice(inner)
                    cands = [a for a in range(b) if a != par[b] and b not in allrefs[a]]
                    if cands:
                        allrefs[rng.choice(cands)].append(b)
        for i in reversed(range(nt)):
            later_ = list(range(i + 1, nt))
            refs = rng.sample(later_, min(len(later_), rng.randint(0, 3))) if allrefs is None else sorted(allrefs[i], key=lambda _x: rng.random())
            if not refs:
                if rng.random() < 0.3:
                    texts[i], is_obj[i] = "TYPE @t%d\n  \"s%d\"\n" % (i, i), False
                else:
                    texts[i], is_obj[i] = "TYPE @t%d\n  {\n    \"k%d\": %d\n  }\n" % (i, i, i), True
            elif len(refs) == 1 and rng.random() < (0.35 if allrefs is None else 0.1):
                texts[i], is_obj[i] = "TYPE @t%d\n  @t%d\n" % (i, refs[0]), is_obj[refs[0]]
            else:
                props = []
                for j in refs:
                    form = rng.randint(0, 3)
                    props.append({0: '"p%d": @t%d', 1: '"p%d": [@t%d]', 2: '"p%d": @t%d | @t%d' % (j, j, refs[0]) if True else "", 3: '"p%d": @t%d // {optional: true}'}[form]
                                 % ((j, j) if form != 2 else ()))
                # the comma goes before the rule annotation of a property
                lines_ = []
                for pi, pr_ in enumerate(props):
                    comma = "," if pi < len(props) - 1 else ""
                    lines_.append(pr_.replace(" // ", comma + " // ") if " // " in pr_ else pr_ + comma)
                texts[i], is_obj[i] = "TYPE @t%d\n  {\n    %s\n  }\n" % (i, "\n    ".join(lines_)), True
        blocks = list(texts)
        objs = [i for i in range(nt) if is_obj[i]]
        for u in range(rng.randint(1, 3)):
            b = rng.randrange(nt)
            blk = "%s /u%d\n" % (rng.choice(["GET", "POST", "PUT"]), u)
            if objs and rng.random() < 0.4:
                blk += "  Query\n    @t%d\n" % rng.choice(objs)
            if objs and rng.random() < 0.7:
                blk += "  200\n    Headers\n      @t%d\n    Body @t%d\n" % (rng.choice(objs), b)
            else:
                blk += "  200 %s\n" % rng.choice(["@t%d" % b, "[@t%d]" % b])
            blocks.append(blk)
        orders = [list(blocks), list(reversed(blocks))]
        for _ in range(10 if tier == "quick" else 22):
            o = list(blocks)
            rng.shuffle(o)
            orders.append(o)
        ref_groups.append(["JSIGHT 0.3\n" + "".join(o) for o in orders])
    flat2 = [(gi, d) for gi, ds in enumerate(ref_groups) for d in ds]
    outs2 = C.run_sharded("harness", "fn", [P.run_line("out=json", [("a.jst", d.encode())]) for _, d in flat2])
    res.count(len(flat2))

    def canon(o):
        st, dd = P.parse(o)
        if st != "ok":
            return st + " " + C.unhx(dd.get("msg", "-")).decode("latin1")[:60], None
        j = _json.loads(C.unhx(dd["json"]))

        def strip(x):
            if isinstance(x, dict):
                return {k: strip(v) for k, v in x.items() if k != "example"}
            if isinstance(x, list):
                return [strip(v) for v in x]
            return x
        return "ok", _json.dumps(strip(j), sort_keys=True)
    first, n_acc = {}, 0
    for (gi, d), o in zip(flat2, outs2):
        c = canon(o)
        if gi not in first:
            first[gi] = (d, c)
            n_acc += c[0] == "ok"
            continue
        d0, c0 = first[gi]
        if c != c0:
            res.violation("declaration order matters: a graph of types that refer to one another, used as bodies, headers and queries, gives %s in one "
                          "order of its blocks and %s in another%s" % (c0[0], c[0], " (the catalogs differ)" if c[0] == c0[0] == "ok" else ""),
                          {"first": d0, "second": d, "graph": "reference-graph %d" % gi})
            return
        res.nontrivial(("ref-graph-order", d))
    res.notes["reference_graph_orders"] = {"graphs": len(ref_groups), "orders_each": len(ref_groups[0]), "accepted_graphs": n_acc}
    last, bad = GP.run(res, "C10", tier, seed, replay, pr, take, known_rule)
    for msg, rp, found in bad:
        res.violation("declaration order matters: " + msg, rp, found_input=found)
    if bad:
        return
    if not pr.proof_ok:
        res.violation("proof obligation no longer checks: %s" % pr.proof_err, {"obligation": pr.proof_err, "theorems": pr.theorems}, found_input=False)
