"""C08 — INCLUDE: textual inclusion, cycle-free, confined to the project directory."""
import posixpath

from .. import common as C


def name_safe(s: bytes) -> bool:
    """independent executable statement of the confinement clause"""
    if not s or s[:1] == b"/" or b"\\" in s:
        return False
    if s in (b".", b".."):
        return True
    return all(c not in (b".", b"..") for c in s.split(b"/"))


def confined(dirp: bytes, joined: bytes) -> bool:
    rel = posixpath.relpath(joined, dirp)
    return not (rel == b".." or rel.startswith(b"../"))


INCLUDERS = [b"/p/q/main.jst", b"p/main.jst", b"main.jst", b"./x/../y/main.jst", b"/main.jst", b"a//b/./m.jst"]


def run(res, tier, seed, replay):
    pr = C.prepare("C08", res, need_gens=("includename",))
    res.coverage["rule"] = ("include names: every byte string over {'.','/','\\\\','a'} up to the length bound "
                            "(exhaustive); non-trivial = accepted by the implementation or containing a '.'; "
                            "paths: accepted names x includer paths")
    if not (pr.harness_ok and pr.model_ok):
        res.violation("build failed: " + (pr.harness_err or pr.model_err)[-800:],
                      {"obligation": "build of harness/model"}, found_input=False)
        return
    maxlen = 7 if tier == "quick" else 9
    names = list(C.all_strings(b"./\\a", maxlen))
    if replay:
        import json
        names = [C.unhx(json.load(open(replay)).get("name", "-"))]
    lines = ["includename " + C.hx(n) for n in names]
    impl = C.run_sharded("harness", "fn", lines)
    model = C.run_sharded("modelrun", None, lines)
    res.count(len(lines))
    res.coverage["exhaustive"] = True
    res.coverage["traces_validated_against_impl"] = len(lines)
    corr_bad = []
    spec_bad = []
    accepted = []
    dist = {"ok": 0, "err": 0, "panic": 0}
    for n, i, m in zip(names, impl, model):
        dist[i] = dist.get(i, 0) + 1
        if i != m:
            corr_bad.append((n, i, m))
        if i == "ok":
            accepted.append(n)
            res.nontrivial(n)
            if not name_safe(n):
                spec_bad.append(n)
        elif b"." in n:
            res.nontrivial(n)
        if i == "panic" and n != b"":
            spec_bad.append(n)
    res.sample({"name": names[37].decode("latin1"), "impl": impl[37], "model": model[37]})
    res.sample({"name": accepted[len(accepted) // 2].decode("latin1"), "impl": "ok"})
    res.notes["input_distribution"] = {"names": len(names), "max_len": maxlen, "impl_verdicts": dist}

    # paths: model of filepath.Dir/Join vs the real functions, and confinement of the real result
    plines = []
    meta = []
    for f in INCLUDERS:
        plines.append("dir " + C.hx(f))
        meta.append(("dir", f, None))
    pnames = [n for n in accepted if len(n) <= (5 if tier == "quick" else 7)]
    for f in INCLUDERS:
        d = posixpath.dirname(f) or b"."
        for n in pnames:
            plines.append("join2 %s %s" % (C.hx(posixpath.normpath(d) if d else b"."), C.hx(n)))
            meta.append(("join", f, n))
    pimpl = C.run_sharded("harness", "fn", plines)
    pmodel = C.run_sharded("modelrun", None, plines)
    res.count(len(plines))
    res.coverage["traces_validated_against_impl"] += len(plines)
    for (kind, f, n), i, m in zip(meta, pimpl, pmodel):
        if i != m:
            corr_bad.append((f + b" " + (n or b""), i, m))
        if kind == "join" and n not in (b".", b".."):
            d = posixpath.normpath(posixpath.dirname(f) or b".")
            if not confined(d, C.unhx(i)):
                spec_bad.append(n)
    res.sample({"includer": meta[-1][1].decode(), "name": meta[-1][2].decode("latin1"), "joined": C.unhx(pimpl[-1]).decode("latin1")})

    judge(res, pr, corr_bad, spec_bad)


def judge(res, pr, corr_bad, spec_bad):
    for n in spec_bad[:5]:
        res.violation("include name %r is accepted (or panics) but is not confined" % n,
                      {"name": C.hx(n), "expected": "rejected", "theorem": "include_name_safe / join_confined"})
    if spec_bad:
        return
    if not pr.proof_ok:
        res.violation("proof obligation no longer checks: %s" % pr.proof_err,
                      {"obligation": pr.proof_err, "theorems": pr.theorems}, found_input=False)
    if corr_bad:
        n, i, m = corr_bad[0]
        res.violation("model and implementation disagree on %r: impl=%s model=%s (%d disagreements); "
                      "the implementation satisfied the executable specification on every input tried" % (n, i, m, len(corr_bad)),
                      {"correspondence": "includename/paths", "input": C.hx(n), "impl": i, "model": m}, found_input=False)
