"""C08 — INCLUDE: textual inclusion, cycle-free, confined to the project directory."""
import posixpath

from .. import common as C


def name_safe(s: bytes) -> bool:
    """independent executable statement of the confinement clause"""
    if not s or s[:1] == b"/" or b"\\" in s:
        return False
    if s in (b".", b".."):
        return True
    return all(c not in (b".", b"..") for c in s.split(b"/"))


def confined(dirp: bytes, joined: bytes) -> bool:
    rel = posixpath.relpath(joined, dirp)
    return not (rel == b".." or rel.startswith(b"../"))


INCLUDERS = [b"/p/q/main.jst", b"p/main.jst", b"main.jst", b"./x/../y/main.jst", b"/main.jst", b"a//b/./m.jst"]


def run(res, tier, seed, replay):
    pr = C.prepare("C08", res, need_gens=("includename",))
    res.coverage["rule"] = ("include names: every byte string over {'.','/','\\\\','a'} up to the length bound "
                            "(exhaustive); non-trivial = accepted by the implementation or containing a '.'; "
                            "paths: accepted names x includer paths")
    if not (pr.harness_ok and pr.model_ok):
        res.violation("build failed: " + (pr.harness_err or pr.model_err)[-800:],
                      {"obligation": "build of harness/model"}, found_input=False)
        return
    maxlen = 7 if tier == "quick" else 9
    names = list(C.all_strings(b"./\\a", maxlen))
    if replay:
        import json
        names = [C.unhx(json.load(open(replay)).get("name", "-"))]
    lines = ["includename " + C.hx(n) for n in names]
    impl = C.run_sharded("harness", "fn", lines)
    model = C.run_sharded("modelrun", None, lines)
    res.count(len(lines))
    res.coverage["exhaustive"] = True
    res.coverage["traces_validated_against_impl"] = len(lines)
    corr_bad = []
    spec_bad = []
    accepted = []
    dist = {"ok": 0, "err": 0, "panic": 0}
    for n, i, m in zip(names, impl, model):
        dist[i] = dist.get(i, 0) + 1
        if i != m:
            corr_bad.append((n, i, m))
        if i == "ok":
            accepted.append(n)
            res.nontrivial(n)
            if not name_safe(n):
                spec_bad.append(n)
        elif b"." in n:
            res.nontrivial(n)
        if i == "panic" and n != b"":
            spec_bad.append(n)
    res.sample({"name": names[37].decode("latin1"), "impl": impl[37], "model": model[37]})
    res.sample({"name": accepted[len(accepted) // 2].decode("latin1"), "impl": "ok"})
    res.notes["input_distribution"] = {"names": len(names), "max_len": maxlen, "impl_verdicts": dist}

    # paths: model of filepath.Dir/Join vs the real functions, and confinement of the real result
    plines = []
    meta = []
    for f in INCLUDERS:
        plines.append("dir " + C.hx(f))
        meta.append(("dir", f, None))
    pnames = [n for n in accepted if len(n) <= (5 if tier == "quick" else 7)]
    for f in INCLUDERS:
        d = posixpath.dirname(f) or b"."
        for n in pnames:
            plines.append("join2 %s %s" % (C.hx(posixpath.normpath(d) if d else b"."), C.hx(n)))
            meta.append(("join", f, n))
    pimpl = C.run_sharded("harness", "fn", plines)
    pmodel = C.run_sharded("modelrun", None, plines)
    res.count(len(plines))
    res.coverage["traces_validated_against_impl"] += len(plines)
    for (kind, f, n), i, m in zip(meta, pimpl, pmodel):
        if i != m:
            corr_bad.append((f + b" " + (n or b""), i, m))
        if kind == "join" and n not in (b".", b".."):
            d = posixpath.normpath(posixpath.dirname(f) or b".")
            if not confined(d, C.unhx(i)):
                spec_bad.append(n)
    res.sample({"includer": meta[-1][1].decode(), "name": meta[-1][2].decode("latin1"), "joined": C.unhx(pimpl[-1]).decode("latin1")})

    judge(res, pr, corr_bad, spec_bad)


def judge(res, pr, corr_bad, spec_bad):
    for n in spec_bad[:5]:
        res.violation("include name %r is accepted (or panics) but is not confined" % n,
                      {"name": C.hx(n), "expected": "rejected", "theorem": "include_name_safe / join_confined"})
    if spec_bad:
        return
    if not pr.proof_ok:
        res.violation("proof obligation no longer checks: %s" % pr.proof_err,
                      {"obligation": pr.proof_err, "theorems": pr.theorems}, found_input=False)
    if corr_bad:
        n, i, m = corr_bad[0]
        res.violation("model and implementation disagree on %r: impl=%s model=%s (%d disagreements); "
                      "the implementation satisfied the executable specification on every input tried" % (n, i, m, len(corr_bad)),
                      {"correspondence": "includename/paths", "input": C.hx(n), "impl": i, "model": m}, found_input=False)


# ======================================================================================
# project-level stages: INCLUDE as textual inclusion, rejections, model correspondence
import random as _random
import re as _re

from .. import corecheck as K
from .. import proj as P
from .. import scancheck as S


def run_guarded(tool, sub, line, timeout=30, mem=3 << 30):
    """one input line in a process of its own, bounded in time and in address space: for inputs on which a
    defective implementation does not terminate.  Returns (output line, None) or (None, what happened)."""
    import os
    import resource
    import subprocess

    def limit():
        resource.setrlimit(resource.RLIMIT_AS, (mem, mem))

    cmd = [os.path.join(C.TOOLS, tool)] + ([sub] if sub else [])
    try:
        p = subprocess.run(cmd, input=line + "\n", stdout=subprocess.PIPE, stderr=subprocess.PIPE, text=True,
                           timeout=timeout, preexec_fn=limit)
    except subprocess.TimeoutExpired:
        return None, "no answer within %d s" % timeout
    if p.returncode != 0:
        err = [x for x in p.stderr.split("\n") if x.strip()]
        return None, "process died (exit %d) within a %d MiB address space: %s" % (p.returncode, mem >> 20, " / ".join(err[:2])[:200])
    out = p.stdout.split("\n")
    return (out[0], None) if out and out[0] else (None, "no output")


NESTY = [7, 8, 9, "P8", 15, 14, 13, 17, 4, 18, 16, 29, 1, 2, 3, 5, 6, 19, 20, 28, 25, 24, 26]


def cut_project(rng, items, max_cuts=3):
    """move runs of items into included files (possibly nested); returns (files, spliced_text)"""
    texts = [K.render_items([it]).decode() for it in items]
    # uniq names need global numbering: render all at once instead
    whole = K.render_items(items).decode()
    # split the whole text back into per-item chunks (each item starts at a line that begins with its keyword)
    chunks = []
    lines = whole.split("\n")[:-1]
    cur = []
    starts = []
    i = 0
    for it in items:
        n = len(K.render_items([it]).decode().split("\n")) - 1
        chunks.append("\n".join(lines[i:i + n]) + "\n")
        i += n
    files = {}
    counter = [0]

    def build(seq, depth, dirprefix):
        """seq: list of chunk strings -> text with some runs replaced by INCLUDE"""
        if len(seq) < 2 or depth > 2:
            return "".join(seq)
        ncuts = rng.randint(0, max_cuts)
        out = list(seq)
        for _ in range(ncuts):
            if len(out) < 2:
                break
            lo = 1 if (depth == 0 and out and out[0].startswith("JSIGHT")) else 0   # JSIGHT stays in the root file
            if len(out) - lo < 1:
                break
            a = rng.randrange(lo, len(out))
            b = rng.randrange(a + 1, len(out) + 1)
            run = out[a:b]
            counter[0] += 1
            # an INCLUDE line keeps its meaning only in the directory it was written for
            sub = "" if (rng.random() < 0.6 or any(c.startswith("INCLUDE") for c in run)) else "d%d/" % counter[0]
            # the same WRITTEN name is reused in different directories (it must resolve relative to the includer)
            base = None
            for cand in ("part.jst", "x.jst", "common.jst", "f%d.jst" % counter[0]):
                if (dirprefix + sub + cand) not in files:
                    base = cand
                    break
            name = sub + base
            files[dirprefix + name] = None     # reserve
            files[dirprefix + name] = build(run, depth + 1, dirprefix + sub)
            out[a:b] = ["INCLUDE %s\n" % name]
        return "".join(out)

    root = build(chunks, 0, "")
    proj = [("main.jst", root)] + sorted(files.items())
    return proj, whole


def stage_projects(res, pr, tier, seed):
    rng = _random.Random(seed + 8)
    quick = tier == "quick"
    corr_bad, spec_bad = [], []
    # ---- A: random directive sequences cut into files
    seqs = []
    for _ in range(1500 if quick else 20000):
        n = rng.randint(2, 9)
        seqs.append([0] + [rng.choice(NESTY) for _ in range(n)])
    projects, wholes = [], []
    for s in seqs:
        pj, whole = cut_project(rng, s)
        projects.append(pj)
        wholes.append([("main.jst", whole)])
    ni, nm, mism = K.compare(projects, "stage=scan")
    ns, _, _ = K.compare(wholes, "stage=scan")
    res.count(2 * len(projects))
    res.coverage["traces_validated_against_impl"] += len(projects)
    nfiles = {}
    for k, (pj, a, b) in enumerate(zip(projects, ni, ns)):
        nfiles[len(pj)] = nfiles.get(len(pj), 0) + 1
        if len(pj) > 1:
            res.nontrivial(tuple(pj))
        if a[0] != b[0]:
            spec_bad.append((pj, "verdict differs from the spliced single file: %s vs %s" % (a[:6], b[:6])))
        elif a[0] == "ok":
            if K.shape(K.parse_forest(a[1]), pj) != K.shape(K.parse_forest(b[1]), wholes[k]):
                spec_bad.append((pj, "directive forest differs from the spliced single file"))
        elif a[0] == "err" and a[-1] != b[-1]:
            spec_bad.append((pj, "error class differs from the spliced single file: %s vs %s" % (a[-1], b[-1])))
    for k in mism:
        corr_bad.append((projects[k], ni[k][:6] if ni[k][0] == "err" else ("ok",), nm[k][:6] if nm[k][0] == "err" else ("ok",)))
    # ---- B: what must be rejected
    J = "JSIGHT 0.3\n"
    rej = [
        ([("main.jst", J + "INCLUDE main.jst\n")], "includerecursion|jsightininclude"),
        ([("main.jst", J + "INCLUDE b.jst\n"), ("b.jst", "INCLUDE main.jst\n")], "includerecursion|jsightininclude"),
        ([("main.jst", "INCLUDE main.jst\n")], "includerecursion"),
        ([("main.jst", "TYPE @a\n{}\nINCLUDE b.jst\n"), ("b.jst", "INCLUDE main.jst\n")], "includerecursion"),
        ([("main.jst", J + "INCLUDE b.jst\n"), ("b.jst", "INCLUDE c.jst\n"), ("c.jst", "INCLUDE b.jst\n")], "includerecursion"),
        ([("main.jst", J + "INCLUDE a.jst\n"), ("a.jst", "INCLUDE a.jst\n")], "includerecursion"),
        ([("main.jst", J + "INCLUDE d/a.jst\n"), ("d/a.jst", "TAG @x\nINCLUDE b.jst\n"), ("d/b.jst", "INCLUDE e/c.jst\n"),
          ("d/e/c.jst", "INCLUDE c.jst\n")], "includerecursion"),
        ([("main.jst", J + "INCLUDE a.jst\nINCLUDE a.jst\n"), ("a.jst", "INCLUDE b.jst\nINCLUDE b.jst\n"), ("b.jst", "INCLUDE c.jst\n"),
          ("c.jst", "INCLUDE a.jst\n")], "includerecursion"),
        ([("main.jst", J + "INCLUDE nope.jst\n")], "includenotexist"),
        ([("main.jst", J + "INCLUDE d\n"), ("d/x.jst", "")], "includeisdir"),
        ([("main.jst", J + "INCLUDE .\n")], "includeisdir"),
        ([("main.jst", J + "INCLUDE ..\n")], "includeisdir"),
        ([("main.jst", J + "INCLUDE b.jst\n"), ("b.jst", "JSIGHT 0.3\n")], "jsightininclude"),
        # a JSIGHT directive in an included file AFTER that file's own (nested) INCLUDE has been read and left
        ([("main.jst", "INCLUDE a.jst\n"), ("a.jst", "INCLUDE b.jst\nJSIGHT 0.3\n"), ("b.jst", "# nothing here\n")], "jsightininclude"),
        ([("main.jst", "INCLUDE a.jst\n"), ("a.jst", "INCLUDE b.jst\nJSIGHT 0.3\n"), ("b.jst", "")], "jsightininclude"),
        ([("main.jst", J + "INCLUDE a.jst\n"), ("a.jst", "INCLUDE b.jst\nJSIGHT 0.3\n"), ("b.jst", "TYPE @t\n{}\n")], "jsightininclude"),
        ([("main.jst", J + "INCLUDE d/a.jst\n"), ("d/a.jst", "TYPE @u\n{}\nINCLUDE b.jst\nINCLUDE b2.jst\nJSIGHT 0.3\n"), ("d/b.jst", ""), ("d/b2.jst", "INCLUDE c.jst\n"), ("d/c.jst", "")],
         "jsightininclude"),
        # a file of that name exists - next to the MAIN file, in a sibling directory, one level up - but not next to the
        # including file: it is missing, and nothing outside the including file's directory tree is looked at
        ([("main.jst", J + "INCLUDE api/cats.jst\n"), ("api/cats.jst", "GET /cats\n  INCLUDE responses.jst\n"), ("responses.jst", "200 any\n")], "includenotexist"),
        ([("main.jst", J + "INCLUDE api/cats.jst\n"), ("api/cats.jst", "GET /cats\n  INCLUDE responses.jst\n"), ("other/responses.jst", "200 any\n")], "includenotexist"),
        ([("main.jst", J + "INCLUDE a/b/c.jst\n"), ("a/b/c.jst", "GET /cats\n  INCLUDE r.jst\n"), ("a/r.jst", "200 any\n"), ("r.jst", "200 any\n")], "includenotexist"),
        ([("sub/main.jst", J + "GET /cats\n  INCLUDE r.jst\n"), ("r.jst", "200 any\n")], "includenotexist"),
        ([("main.jst", J + "URL /a\n(\n  INCLUDE x.jst\n)\n"), ("x.jst", "GET\n  200 any\n")], "notallclosed"),
        ([("main.jst", J + "INCLUDE x.jst\n  GET\n    200 any\n)\n"), ("x.jst", "URL /a\n(\n")], "notallclosed"),
        ([("main.jst", J + "INCLUDE\n")], "includenoparam"),
        ([("main.jst", J + "INCLUDE /etc/passwd\n")], "includebadname"),
        ([("main.jst", J + "INCLUDE ../x.jst\n")], "includebadname"),
        ([("main.jst", J + "INCLUDE a/../x.jst\n")], "includebadname"),
        ([("main.jst", J + "INCLUDE a\\\\x.jst\n")], "includebadname"),
        ([("main.jst", J + "INCLUDE ./x.jst\n"), ("x.jst", "")], "includebadname"),
        ([("sub/main.jst", J + "INCLUDE ../x.jst\n"), ("x.jst", "TYPE @a\n{}\n")], "includebadname"),
        # the name may be written in quotes: the same rules apply to what is inside them
        ([("main.jst", J + 'INCLUDE "../x.jst"\n'), ("x.jst", "")], "includebadname"),
        ([("main.jst", J + 'INCLUDE "/etc/passwd"\n')], "includebadname"),
        ([("main.jst", J + 'INCLUDE "a/./x.jst"\n')], "includebadname"),
        ([("main.jst", J + 'INCLUDE ""\n')], "includebadname|includenoparam"),
        ([("main.jst", J + 'INCLUDE "nope.jst"\n')], "includenotexist"),
        ([("main.jst", J + 'INCLUDE "d"\n'), ("d/x.jst", "")], "includeisdir"),
        ([("main.jst", J + 'INCLUDE "b.jst"\n'), ("b.jst", 'INCLUDE "main.jst"\n')], "includerecursion|jsightininclude"),
    ]
    # an include cycle that is not cut never ends (and eats the memory of the machine): every project
    # that contains one first runs alone, in a process bounded in time and address space
    unbounded = False
    for pj, want in rej:
        if "includerecursion" not in want:
            continue
        out, why = run_guarded("harness", "fn", P.run_line("stage=scan", pj))
        res.count(1)
        if out is None:
            unbounded = True
            spec_bad.append((pj, "an include cycle must be rejected as %s; the implementation gave no verdict: %s" % (want, why)))
            break    # every further cycle costs the time it takes to exhaust the address space
    if unbounded:
        return corr_bad, spec_bad
    ri, rm, rmis = K.compare([p for p, _ in rej], "stage=scan")
    res.count(len(rej))
    for (pj, want), a in zip(rej, ri):
        if a[0] != "err" or a[-1] not in want.split("|"):
            spec_bad.append((pj, "must be rejected as %s, got %s" % (want, a[:6])))
        elif a[-1] == "includerecursion":
            # include_depth_bounded: the chain is cut before it is longer than the number of file names
            depth = len([x for x in a[4].split(";") if x])
            if depth > len(pj):
                spec_bad.append((pj, "include chain of depth %d in a project of %d files" % (depth, len(pj))))
    for k in rmis:
        corr_bad.append((rej[k][0], ri[k][:6], rm[k][:6]))
    # ---- C: full pipeline on fixtures cut at top-level directive boundaries
    files = S.fixture_files()
    top_re = _re.compile(r"^(URL|GET|POST|PUT|PATCH|DELETE|TYPE|ENUM|SERVER|TAG|INFO) ?", _re.M)
    cand = []
    for f in files:
        if "/err" in f or "include" in f.lower():
            continue
        t = open(f, "rb").read().decode("latin1")
        if "\r" in t or "INCLUDE" in t or "MACRO" in t or "\n(" in t or "Description" in t or "###" in t:
            continue
        starts = [m.start() for m in top_re.finditer(t)]
        if len(starts) >= 3:
            cand.append((f, t, starts))
    rng.shuffle(cand)
    cand = cand[: (60 if quick else 400)]
    cut_projects, originals = [], []
    for f, t, starts in cand:
        a = rng.randrange(0, len(starts) - 1)
        b = rng.randrange(a + 1, len(starts))
        beg, end = starts[a], starts[b]
        cut_projects.append([("main.jst", t[:beg] + "INCLUDE inc/part.jst\n" + t[end:]), ("inc/part.jst", t[beg:end])])
        originals.append([("main.jst", t)])
    if cut_projects:
        oc = C.run_sharded("harness", "fn", [P.run_line("out=sha", p) for p in cut_projects])
        oo = C.run_sharded("harness", "fn", [P.run_line("out=sha", p) for p in originals])
        res.count(2 * len(cut_projects))
        for pj, x, y in zip(cut_projects, oc, oo):
            sx, dx = P.parse(x)
            sy, dy = P.parse(y)
            if sx != sy or (sx == "ok" and dx.get("sha") != dy.get("sha")):
                # a fixture whose col-0 keyword is not a top-level directive boundary is outside the claim
                spec_bad.append((pj, "full pipeline: cut fixture gives %s %s, the original %s %s" % (sx, dx.get("sha", C.unhx(dx.get("msg", "-"))[:60]), sy, dy.get("sha", ""))))
            elif sx == "ok":
                res.nontrivial(("fixture", pj[0][1][:200]))
    # ---- D: several included files of ONE shape (bodies at the same byte offsets, different text), full pipeline against
    # the spliced single file: whatever is remembered about a body must be remembered per file
    twins, twin_wholes = [], []
    slots = [("POST /p%d\n", "  INCLUDE parts/f%d.jst\n  200 any\n", "Request\n  {\n    \"k%d\": %d\n  }\n"),
             ("GET /p%d\n", "  INCLUDE parts/f%d.jst\n  200 any\n", "Query q\n  {\n    \"k%d\": %d\n  }\n"),
             ("GET /p%d\n", "  200\n    INCLUDE parts/f%d.jst\n", "Headers\n  {\n    \"k%d\": %d\n  }\nBody any\n"),
             ("GET /p%d\n", "  200\n    INCLUDE parts/f%d.jst\n", "Body\n  {\n    \"k%d\": %d\n  }\n"),
             ("URL /p%d\n  Protocol json-rpc-2.0\n  Method m\n", "    INCLUDE parts/f%d.jst\n", "Params\n  {\n    \"k%d\": %d\n  }\nResult\n  [%d]\n"),
             ("", "INCLUDE parts/f%d.jst\n", "TYPE @t%d\n  {\n    \"k\": %d\n  }\n"),
             ("", "INCLUDE parts/f%d.jst\n", "ENUM @e%d\n  [%d]\n"),
             # descriptions at the same byte offsets of different files
             ("GET /p%d\n", "  INCLUDE parts/f%d.jst\n", "Description\n  text of number %d\n200 any\n"),
             ("TAG @t%d\n", "  INCLUDE parts/f%d.jst\n", "Description\n  about tag %d\n"),
             ("URL /r%d\n  Protocol json-rpc-2.0\n  Method m\n", "    INCLUDE parts/f%d.jst\n", "Description\n  method %d\nParams\n  {}\n")]
    for head, incl, part in slots:
        for n in (2, 3):
            main, whole, files = J, J, []
            for i in range(n):
                h = (head % i) if "%d" in head else head
                content = part % ((i, i, i)[: part.count("%d")])
                main += h + (incl % i)
                ind = incl[: len(incl) - len(incl.lstrip(" "))]
                whole += h + "".join(ind + ln + "\n" for ln in content.rstrip("\n").split("\n")) + incl.split("\n", 1)[1]
                files.append(("parts/f%d.jst" % i, content))
            twins.append([("main.jst", main)] + files)
            twin_wholes.append([("main.jst", whole)])
    ot = C.run_sharded("harness", "fn", [P.run_line("out=json", p) for p in twins])
    ow = C.run_sharded("harness", "fn", [P.run_line("out=json", p) for p in twin_wholes])
    res.count(2 * len(twins))
    for pj, x, y in zip(twins, ot, ow):
        sx, dx = P.parse(x)
        sy, dy = P.parse(y)
        if sy != "ok":
            continue
        if sx != "ok" or dx.get("json") != dy.get("json"):
            spec_bad.append((pj, "full pipeline: the project with %d included files of one shape gives %s, the spliced single file another catalog" % (len(pj) - 1, sx)))
        else:
            res.nontrivial(("twins", pj[0][1]))
    # ---- E: the same directory parsed again and again in ONE process with other contents under the same file names (a
    # server, a watcher): every result must be the result of that project parsed in a directory of its own
    seq = list(twins)
    _random.Random(seed + 88).shuffle(seq)
    seq = seq + [p for p in reversed(seq)]
    fresh = dict(zip([repr(p) for p in twins], ot))
    oe = C.run_lines("harness", "fn", [P.run_line("out=json,reuse", p) for p in seq])
    res.count(len(seq))
    for pj, x in zip(seq, oe):
        sx, dx = P.parse(x)
        sy, dy = P.parse(fresh[repr(pj)])
        if sx != sy or (sx == "ok" and dx.get("json") != dy.get("json")) or (sx == "err" and dx.get("msg") != dy.get("msg")):
            spec_bad.append((pj, "the project gives %s when its directory was parsed before with other contents in the same process, and %s in a "
                                 "directory of its own: an included file is not read from the file system" % (sx, sy)))
            break
    # ---- F0: a chain of included files whose names differ only in letter case (different files), each with its own INCLUDE;
    # an included file longer than 1 MiB with a directive at its very end
    case_chain = [("main.jst", J + "INCLUDE Types.jst\n"), ("Types.jst", "TYPE @a\n  {}\nINCLUDE types.jst\n"), ("types.jst", "TYPE @b\n  {}\nINCLUDE TYPES.jst\n"),
                  ("TYPES.jst", "TYPE @c\n  {}\nINCLUDE more.jst\n"), ("more.jst", "GET /x\n  200 @a\n")]
    case_whole = [("main.jst", J + "TYPE @a\n  {}\nTYPE @b\n  {}\nTYPE @c\n  {}\nGET /x\n  200 @a\n")]
    pad = "".join("# padding line %06d ........................................................................\n" % i for i in range(13000))
    big_chain = [("main.jst", J + "GET /x\n  200 @late\nINCLUDE big.jst\n"), ("big.jst", "TYPE @early\n  {}\n" + pad + "TYPE @late\n  {}\n")]
    big_whole = [("main.jst", J + "GET /x\n  200 @late\nTYPE @early\n  {}\n" + pad + "TYPE @late\n  {}\n")]
    for cut_, whole_, what_ in ((case_chain, case_whole, "files whose names differ only in letter case"), (big_chain, big_whole, "an included file longer than 1 MiB")):
        oc_ = C.run_lines("harness", "fn", [P.run_line("out=json", cut_), P.run_line("out=json", whole_)])
        res.count(2)
        (s1_, d1_), (s2_, d2_) = P.parse(oc_[0]), P.parse(oc_[1])
        if s2_ == "ok" and (s1_ != "ok" or d1_.get("json") != d2_.get("json")):
            spec_bad.append((cut_ if len(str(cut_)) < 5000 else cut_[:1], "full pipeline: the project cut into %s gives %s, the one-file document is accepted%s" % (
                what_, s1_ + (" " + C.unhx(d1_.get("msg", "-")).decode("latin1")[:80] if s1_ == "err" else ""), " with another catalog" if s1_ == "ok" else "")))
        elif s2_ == "ok":
            res.nontrivial(("case-or-size", what_))
    # ---- F: the main file opened under another spelling of its path (./main.jst, dir//main.jst): the same project
    spelled = [p for p in twins if sum(1 for ln in p[0][1].split("\n") if ln.strip().startswith("INCLUDE")) >= 2][:12]
    for sp in ("dot", "slashes", "dotdot"):
        osp = C.run_sharded("harness", "fn", [P.run_line("out=json,spell=" + sp, p) for p in spelled])
        res.count(len(spelled))
        for pj, x in zip(spelled, osp):
            sx, dx = P.parse(x)
            sy, dy = P.parse(fresh[repr(pj)])
            if sx != sy or (sx == "ok" and dx.get("json") != dy.get("json")):
                spec_bad.append((pj, "the project gives %s when its main file is opened as %s and %s under the plain path" % (
                    sx + (" " + C.unhx(dx.get("msg", "-")).decode("latin1")[:60] if sx == "err" else ""),
                    {"dot": "<dir>/./main.jst", "slashes": "<dir>//main.jst", "dotdot": "<dir>/x/../main.jst"}[sp], sy)))
                break
    res.notes["project_stage"] = {"main_file_spellings": 3 * len(spelled), "reused_directory_sequence": len(seq), "cut_sequences": len(projects), "files_per_project": nfiles, "rejection_cases": len(rej),
                                  "fixture_cuts": len(cut_projects), "same_shape_include_families": len(twins)}
    res.sample({"project": [(n, c[:120]) for n, c in projects[len(projects) // 3]]})
    return corr_bad, spec_bad


_old_run = run


def run(res, tier, seed, replay):  # noqa: F811
    _old_run(res, tier, seed, replay)
    if res.violations or replay:
        return
    pr = C.Prep()
    pr.proof_ok = True
    corr_bad, spec_bad = stage_projects(res, pr, tier, seed)
    for pj, why in spec_bad[:5]:
        res.violation("INCLUDE is not textual inclusion / rejection missing: %s" % why,
                      {"project": [(C.hx(n), C.hx(c)) for n, c in pj], "why": why})
    if spec_bad:
        return
    if corr_bad:
        pj, a, b = corr_bad[0]
        res.violation("core model and implementation disagree on a multi-file project (%d disagreements): impl=%r model=%r; the "
                      "implementation satisfied the executable statements on every project tried" % (len(corr_bad), a, b),
                      {"correspondence": "project scan with INCLUDE", "project": [(C.hx(n), C.hx(c)) for n, c in pj]}, found_input=False)
