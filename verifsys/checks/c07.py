"""C07 — Macros are textual substitution; recursion among them is refused.

Documents with macros are generated as ITEM sequences (one directive per item, '(' and ')'),
so that the same items can be rendered twice: with the PASTE directives, and with every PASTE
replaced by the items of the macro body it names (MACRO definitions deleted).  What the body of
a macro IS is read from the implementation's own scan forest (the children of the MACRO node).

 (i)   core model (coq/model/Core.v, `expand`) vs implementation: directive forest at stage=expand
 (ii)  metamorphic, on the implementation only: document vs inlined document
         - stage=expand forests equal up to source coordinates
         - full pipeline: accepted  =>  inlined accepted with the same JSON
         - pre-order of the expanded forest = the inlined item sequence (independent statement)
         - an additional macro that nothing pastes does not change the JSON
 (iii) paste graphs with cycles of length 1..5 are rejected with the recursion diagnostic; each in
       its own process, so that a stack overflow or a hang is observed
 (iv)  a second macro with the same name / a PASTE of an undefined macro are rejected
"""
import concurrent.futures as cf
import json
import os
import random
import re
import subprocess
import time

from .. import common as C
from .. import corecheck as K
from .. import proj as P

# known counterexample classes: none.  (The order of "userEnums" once differed between a document and its inlined
# version - enums brought by a PASTE were registered during the expansion; fixed in the repository: enum rules are now
# collected after the expansion, over the expanded forest.)  Document and inlined document must give byte-identical JSON.
KNOWN = []


def order_differences(a, b, path=""):
    """paths of JSON objects whose members are equal but differently ordered; None if the values differ"""
    if type(a) is not type(b):
        return None
    if isinstance(a, dict):
        if set(a) != set(b):
            return None
        out = [path] if list(a) != list(b) else []
        for k in a:
            d = order_differences(a[k], b[k], path + "/" + k)
            if d is None:
                return None
            out += d
        return out
    if isinstance(a, list):
        if len(a) != len(b):
            return None
        out = []
        for i, (x, y) in enumerate(zip(a, b)):
            d = order_differences(x, y, path + "/%d" % i)
            if d is None:
                return None
            out += d
        return out
    return [] if a == b else None

ROOT_ONLY_TERMINATOR = 28   # TAG: top level only and not admitted inside MACRO: ends an implicit macro body

# ---------------------------------------------------------------------------------------
# items


def D(kind, uid):
    return ("d", kind, uid)


def line_of(it):
    t = it[0]
    if t == "(" or t == ")":
        return t
    if t == "paste":
        return "PASTE @" + it[1]
    if t == "macro":
        return "MACRO @" + it[1]
    if t == "raw":
        return it[1]
    kind, uid = it[1], it[2]
    if t == "p":
        return K.PATH_METHODS[kind] + str(uid)
    line = K.KIND_LINES[kind]
    if len(it) > 3 and it[3] == "bare":
        line = line.split(" ")[0]
    if kind == 15:
        line = line.replace("200", str(200 + uid % 97))      # distinct response codes
    return (line.replace("@t", "@t%d" % uid).replace("@e", "@e%d" % uid).replace("@s", "@s%d" % uid)
            .replace("/u", "/u%d" % uid).replace("@g", "@g%d" % uid if kind == 28 and uid else "@g"))


def item_kind(it):
    t = it[0]
    if t in ("d", "p"):
        return it[1]
    if t == "paste":
        return 22
    if t == "macro":
        return 21
    return None


def render(items):
    """-> (document bytes, {byte offset of the keyword: item index}, [1-based line of item i])"""
    out = []
    off = 0
    where = {}
    lines = []
    ln = 1
    for i, it in enumerate(items):
        s = line_of(it) + "\n"
        if it[0] not in ("(", ")"):
            where[off] = i
        lines.append(ln)
        out.append(s)
        off += len(s)
        ln += s.count("\n")
    return "".join(out).encode(), where, lines


# ---------------------------------------------------------------------------------------
# forests as printed by the harness / the model runner

HEAD = re.compile(r"\((\d+) kw=(\S*) f=(\S*) kb=(\d+) ke=(\d+) np=(\S*) up=(\S*) ann=(\S*) body=(\S*) x=(\d) tr=(\S*) \[")


def parse_forest(s):
    pos = 0

    def node():
        nonlocal pos
        m = HEAD.match(s, pos)
        if not m:
            raise ValueError("bad forest at %d: %r" % (pos, s[pos:pos + 60]))
        pos = m.end()
        np = {}
        if m.group(6):
            for kv in m.group(6).split(","):
                k, _, v = kv.partition(":")
                np[C.unhx(k).decode("latin1")] = C.unhx(v).decode("latin1")
        n = {"kind": int(m.group(1)), "kb": int(m.group(4)), "np": np, "x": int(m.group(10)), "kids": []}
        while s[pos] == "(":
            n["kids"].append(node())
        if s[pos:pos + 2] != "])":
            raise ValueError("bad forest close at %d" % pos)
        pos += 2
        return n

    out = []
    while pos < len(s):
        out.append(node())
    return out


def strip_coords(tree):
    """forest text without source coordinates (keyword and body positions)"""
    t = re.sub(r" kb=\d+ ke=\d+", "", tree)
    return re.sub(r" body=[0-9a-f]+:\d+:\d+", " body=+", t)


def preorder(forest):
    out = []

    def walk(ns):
        for n in ns:
            out.append(n)
            walk(n["kids"])

    walk(forest)
    return out


# ---------------------------------------------------------------------------------------
# the textual reading, independent of the code under test except for "what is the body of a macro"


class Macros:
    """top-level MACRO definitions of a scanned document: name -> items of the body"""

    def __init__(self, items, where, forest):
        self.items = items
        self.defs = []        # (name, item index of MACRO, [start, end) of body items, end of definition)
        for n in forest:
            if n["kind"] != 21:
                continue
            idx = where[n["kb"]]
            desc = [where[d["kb"]] for d in preorder(n["kids"])]
            start = idx + 1
            explicit = start < len(items) and items[start][0] == "("
            if explicit:
                start += 1
            end = (max(desc) + 1) if desc else start
            bal = 0
            for it in items[start:end]:
                bal += 1 if it[0] == "(" else -1 if it[0] == ")" else 0
            while end < len(items) and items[end][0] in ("(", ")"):
                if items[end][0] == "(":
                    bal += 1
                else:
                    if bal == 0:
                        break
                    bal -= 1
                end += 1
            stop = end + 1 if explicit and end < len(items) and items[end][0] == ")" else end
            name = n["np"].get("Name", "")
            self.defs.append((name[1:] if name.startswith("@") else name, idx, (start, end), stop, n))
        self.body = {}
        for name, idx, (a, b), stop, n in self.defs:
            self.body.setdefault(name, items[a:b])

    def names(self):
        return [d[0] for d in self.defs]

    def rest(self):
        """the document without the MACRO definitions"""
        out = []
        i = 0
        cut = {d[1]: d[3] for d in self.defs}
        while i < len(self.items):
            if i in cut:
                i = cut[i]
                continue
            out.append(self.items[i])
            i += 1
        return out

    def pastes_of(self, seq):
        return [it[1] for it in seq if it[0] == "paste"]

    def graph(self):
        return {name: self.pastes_of(self.body[name]) for name in self.body}

    def has_cycle(self):
        """depth-first search, three colours"""
        g = self.graph()
        colour = {}

        def visit(n):
            colour[n] = 1
            for s in g.get(n, []):
                if s not in g:
                    continue
                if colour.get(s) == 1:
                    return True
                if s not in colour and visit(s):
                    return True
            colour[n] = 2
            return False

        return any(visit(n) for n in g if n not in colour)

    def reachable(self):
        """macro names named by a PASTE reached from the non-macro part (defined or not)"""
        seen = []
        todo = self.pastes_of(self.rest())
        while todo:
            n = todo.pop(0)
            if n in seen:
                continue
            seen.append(n)
            todo += self.pastes_of(self.body.get(n, []))
        return seen

    def inline(self, seq=None, depth=0):
        if seq is None:
            seq = self.rest()
        out = []
        for it in seq:
            if it[0] == "paste" and it[1] in self.body:
                if depth > 16:
                    raise RecursionError("paste depth")
                out += self.inline(self.body[it[1]], depth + 1)
            else:
                out.append(it)
        return out


# ---------------------------------------------------------------------------------------
# generators

TEMPL = {
    # token: kind number | <kind>b (200 / Request without a schema, so that Headers/Body may follow) | P<kind> (method with a
    # path) | ( | ) | P:<role> (PASTE of a macro of that role)
    "resp": ["13", "17", "17 13", "P:resp", "17 P:body", "P:hdr 13", "P:hdr P:body"],
    "hdr": ["17", "P:hdr"],
    "body": ["13", "P:body"],
    # (the last three: a PASTE directly after a parenthesised directive that was attached higher than where it was met;
    #  its body fits the deeper context only, so the document and its inlined form must BOTH be rejected)
    "meth": ["15", "14 15", "4 15", "15b ( 17 13 )", "14b ( P:resp ) 15", "15b P:resp", "P:meth", "18 15", "14 15 P:meth",
             "15 14b ( 13 ) P:hdr", "15 14b ( 13 ) P:body", "15 14b ( 13 ) 15b P:hdr",
             "15b ( P:resp ) 14", "P:meth 15", "14b P:resp 15b P:resp", "16 15", "14b 17 15b 13"],
    "url": ["8 15", "9 14 15", "8 ( 15 ) 9 15", "8 P:meth", "P:url", "8 15 P:url", "P8 15", "8 P:meth 9 P:meth", "8 15 9 ( 15 ) P:resp",
            "8 15 9 ( 15 ) P:meth",
            "10 ( P:meth )", "P:url 11 15", "8 15 P9 15", "29 8 15"],
    "top": ["7 8 15", "19", "20", "7 P:url", "P:top", "1 2 3", "5 6", "7 ( 8 15 )", "P8 15", "7 8 P:meth 9 15", "19 P:top",
            "7 P:url 19", "P10 P:meth", "20 7 8 15", "7 8 15 P8 P:meth", "5 P:server", "1 P:info"],
    "info": ["2", "3", "2 3", "4", "P:info", "2 P:info"],
    "server": ["6", "P:server"],
}
MAIN = ["1 P:info", "5 P:server", "7 P:url 9 15", "7 8 P:meth 4", "7 8 14b P:resp", "7 8 15b P:resp 9 15", "P:top 19", "P8 P:meth",
        "7 ( P:url )", "7 ( 8 ( P:meth ) )", "P:top", "7 8 15b ( P:resp ) 14", "7 P:url", "P:top 7 8 15", "7 8 P:meth P:meth",
        "1 2 P:info", "7 P:url P:url", "P9 15b P:resp", "7 8 14b ( P:resp ) 15b ( P:resp )", "19", "20", "28",
        "7 10 P:meth 12 P:meth", "7 8 15b P:hdr 13"]


class Gen:
    def __init__(self, rng):
        self.rng = rng
        self.uid = 0
        self.macros = []       # (name, role, items, explicit)
        self.by_role = {}

    def fresh(self):
        self.uid += 1
        return self.uid

    def expand_templ(self, templ, depth, maxdepth):
        out = []
        for tok in templ.split():
            if tok in ("(", ")"):
                out.append((tok,))
            elif tok.startswith("P:"):
                out.append(("paste", self.macro_for(tok[2:], depth + 1, maxdepth), self.fresh()))
            elif tok.startswith("P"):
                out.append(("p", int(tok[1:]), self.fresh()))
            elif tok.endswith("b"):
                out.append(("d", int(tok[:-1]), self.fresh(), "bare"))
            else:
                out.append(D(int(tok), self.fresh()))
        return out

    def macro_for(self, role, depth, maxdepth):
        have = self.by_role.get(role, [])
        # reuse (so that one body is pasted several times) or define a new one
        usable = [n for (n, d) in have if d >= depth]
        if usable and self.rng.random() < 0.45:
            return self.rng.choice(usable)
        name = "m%d" % (len(self.macros) + 1)
        templs = TEMPL[role]
        if depth >= maxdepth:
            templs = [t for t in templs if "P:" not in t]
        self.macros.append(None)
        slot = len(self.macros) - 1
        self.by_role.setdefault(role, []).append((name, depth))
        items = self.expand_templ(self.rng.choice(templs), depth, maxdepth)
        self.macros[slot] = (name, role, items, self.rng.random() < 0.7)
        return name

    def definition(self, m, last_in_block):
        name, role, items, explicit = m
        out = [("macro", name, self.fresh())]
        if explicit:
            return out + [("(",)] + items + [(")",)]
        out += items
        if last_in_block:
            out.append(D(ROOT_ONLY_TERMINATOR, self.fresh()))   # TAG ends the implicit body
        return out

    def document(self, maxdepth=4):
        main = []
        for _ in range(self.rng.randint(1, 4)):
            main += self.expand_templ(self.rng.choice(MAIN), 0, maxdepth)
        if self.rng.random() < 0.25:       # a macro that nothing pastes
            self.macro_for(self.rng.choice(list(TEMPL)), 1, maxdepth)
            self.by_role = {}
        ms = list(self.macros)
        self.rng.shuffle(ms)
        cut = self.rng.choice([0, len(ms), self.rng.randint(0, len(ms))])
        before, after = ms[:cut], ms[cut:]
        items = [D(0, self.fresh())]
        if any(it[0] == "d" and it[1] == 29 for m in ms for it in m[2]):
            items.append(D(28, 0))          # TAG @g, for the Tags directives
        for i, m in enumerate(before):
            items += self.definition(m, i == len(before) - 1)
        items += main
        for i, m in enumerate(after):
            items += self.definition(m, False)
        return items


NESTY = [7, 8, 9, "P8", 15, 14, 13, 17, 4, 18, 16, 29, 22, 1, 2, 5, 6, 19, 20, 28, "(", ")", 22, 22]


def random_items(rng):
    """unstructured: arbitrary directive sequences with macro definitions and pastes anywhere"""
    uid = [0]

    def fresh():
        uid[0] += 1
        return uid[0]

    names = ["m%d" % i for i in range(1, rng.randint(2, 5))]

    def seq(n, allowed):
        out = []
        depth = 0
        for _ in range(n):
            k = rng.choice(NESTY)
            if k == "(":
                if out and out[-1][0] in ("d", "p") and rng.random() < 0.7:
                    out.append(("(",))
                    depth += 1
            elif k == ")":
                if depth:
                    out.append((")",))
                    depth -= 1
            elif k == 22:
                out.append(("paste", rng.choice(allowed) if rng.random() < 0.93 else "nope", fresh()))
            elif isinstance(k, str):
                out.append(("p", int(k[1:]), fresh()))
            else:
                out.append(D(k, fresh()))
        out += [(")",)] * depth
        return out

    items = [D(0, fresh())]
    defs = []
    for i, n in enumerate(names):
        later = names[i + 1:] or names
        allowed = later if rng.random() < 0.85 else names      # sometimes a cycle
        body = seq(rng.randint(1, 5), allowed)
        if rng.random() < 0.75:
            defs.append([("macro", n, fresh()), ("(",)] + body + [(")",)])
        else:
            defs.append([("macro", n, fresh())] + body)
    main = seq(rng.randint(2, 9), names)
    if rng.random() < 0.5:
        for d in defs:
            items += d
        items.append(D(ROOT_ONLY_TERMINATOR, fresh()))
        items += main
    else:
        items += main
        for d in defs:
            items += d
    return items


# P = the PASTE that continues the cycle, Q = a PASTE of the harmless macro @ok (a cycle may be closed by a later PASTE of a sibling list)
CYCLE_BODIES = ["15 P", "Q P", "8 ( 15 Q P )", "P", "Q 14 ( 17 P )", "7 8 14 P", "14 ( 17 P )", "P 15", "4 P 15", "8 ( 15 P )", "Q Q P Q"]


def cycle_documents(rng, quick):
    """paste graphs with a cycle of length 1..5: (items, cycle length, description)"""
    out = []
    uid = [0]

    def fresh():
        uid[0] += 1
        return uid[0]

    def body(templ, target):
        o = []
        for tok in templ.split():
            if tok in ("(", ")"):
                o.append((tok,))
            elif tok == "P":
                o.append(("paste", target, fresh()))
            elif tok == "Q":
                o.append(("paste", "ok", fresh()))
            else:
                o.append(D(int(tok), fresh()))
        return o

    for n in range(1, 6):
        for variant in range(len(CYCLE_BODIES) if not quick else 5):
            for used in (True, False):
                for tail in (False, True):
                    names = ["c%d" % i for i in range(n)]
                    defs = []
                    for i in range(n):
                        templ = CYCLE_BODIES[(variant + i) % len(CYCLE_BODIES)]
                        defs.append([("macro", names[i], fresh()), ("(",)] + body(templ, names[(i + 1) % n]) + [(")",)])
                    entry = names[rng.randrange(n)]
                    if tail:      # the cycle is entered through a macro that is not on it
                        defs.append([("macro", "t0", fresh()), ("(",)] + body("15 P", entry) + [(")",)])
                        entry = "t0"
                    defs.append([("macro", "ok", fresh()), ("(",), D(15, fresh()), (")",)])
                    rng.shuffle(defs)
                    main = [D(7, fresh()), D(8, fresh()), ("paste", entry if used else "ok", fresh())]
                    items = [D(0, fresh())]
                    if rng.random() < 0.5:
                        for d in defs:
                            items += d
                        items += main
                    else:
                        items += main
                        for d in defs:
                            items += d
                    out.append((items, n, "cycle of %d, %s, %s" % (n, "pasted" if used else "never pasted",
                                                                 "entered through another macro" if tail else "entered directly")))
    return out


# ---------------------------------------------------------------------------------------
# running the implementation so that a dying process is an observation, not a crash of the check


def run_isolated(line, timeout):
    args = line.split(" ")[1:]
    t0 = time.time()
    try:
        p = subprocess.run([os.path.join(C.TOOLS, "harness"), "run1"] + args, stdout=subprocess.PIPE, stderr=subprocess.PIPE,
                           text=True, timeout=timeout)
    except subprocess.TimeoutExpired:
        return "timeout", time.time() - t0
    if p.returncode != 0:
        err = p.stderr or ""
        head = err[:200]
        if "stack overflow" in err or "goroutine stack exceeds" in err:
            head = "fatal error: stack overflow " + head
        return "crash " + C.hx(head[:300]), time.time() - t0
    return p.stdout.strip().split("\n")[-1], time.time() - t0


def run_impl(lines, timeout=300):
    """batches in separate processes; a batch that dies is re-run line by line in isolation"""
    outs = [None] * len(lines)
    B = 250
    batches = [(i, lines[i:i + B]) for i in range(0, len(lines), B)]

    def do_batch(arg):
        i0, ls = arg
        try:
            p = subprocess.run([os.path.join(C.TOOLS, "harness"), "fn"], input="\n".join(ls) + "\n", stdout=subprocess.PIPE,
                               stderr=subprocess.PIPE, text=True, timeout=timeout)
            o = p.stdout.split("\n")
            if p.returncode == 0 and len(o) >= len(ls):
                return i0, o[:len(ls)], None
        except subprocess.TimeoutExpired:
            pass
        return i0, None, ls

    with cf.ThreadPoolExecutor(max_workers=16) as ex:
        failed_batches = []
        for i0, o, failed in ex.map(do_batch, batches):
            if o is not None:
                outs[i0:i0 + len(o)] = o
            else:
                failed_batches.append((i0, failed))
    for i0, failed in failed_batches:
        with cf.ThreadPoolExecutor(max_workers=4) as ex:
            rs = list(ex.map(lambda l: run_isolated(l, 30)[0], failed))
        for j, r in enumerate(rs):
            outs[i0 + j] = r
    return outs


def status(out):
    return out.split(" ", 1)[0]


def err_class(out):
    st, d = P.parse(out)
    if st != "err":
        return None
    return K.msg_class(C.unhx(d["msg"]).decode("latin1"))


def err_line(out):
    st, d = P.parse(out)
    return int(d["line"]) if st == "err" else None


def txt(items):
    return render(items)[0].decode("latin1")


# ---------------------------------------------------------------------------------------


def run(res, tier, seed, replay):
    pr = C.prepare("C07", res, need_gens=("tables", "scanner", "typing"))
    rng = random.Random(seed)
    quick = tier == "quick"
    res.coverage["rule"] = (
        "documents are item sequences (directive kinds with unique names, '(' ')', MACRO/PASTE) rendered with and without "
        "macros: structured (macro bodies by role: response/method/URL/top level/INFO/SERVER parts, explicit parentheses, macros "
        "pasting macros to depth 4, one body pasted several times, definitions before and after use, implicit and parenthesised "
        "bodies, a following sibling after each PASTE) and unstructured (random sequences); compared: model vs implementation "
        "forest at stage=expand; implementation on the document vs on the inlined document (expanded forest up to coordinates, "
        "full-pipeline JSON); cycles of length 1..5 in separate processes; duplicates and undefined names; non-trivial = a PASTE "
        "is expanded (accepted, or rejected inside/after an expansion) or the recursion/duplicate/not-found diagnostic; distinct by document")
    if not (pr.harness_ok and pr.model_ok):
        res.violation("build failed: " + (pr.harness_err or pr.model_err)[-800:], {"obligation": "build"}, found_input=False)
        return
    nbad = [0]

    def bad(what, items, extra=None, found_input=True):
        nbad[0] += 1
        if nbad[0] > 12:
            return
        rp = {"items": [list(it) for it in items], "doc": C.hx(render(items)[0])}
        rp.update(extra or {})
        res.violation(what, rp, found_input=found_input)

    # ---- (iii) cycles: each document in its own process --------------------------------------------
    if replay:
        r = json.load(open(replay))
        cyc = []
        docs_items = [[tuple(it) for it in r["items"]]]
    else:
        cyc = cycle_documents(rng, quick)
        docs_items = None
    cyc_lines = [P.run_line("stage=expand", [("a.jst", render(it)[0])]) for it, n, what in cyc]
    with cf.ThreadPoolExecutor(max_workers=6) as ex:
        cyc_out = list(ex.map(lambda l: run_isolated(l, 25 if quick else 60), cyc_lines))
    res.count(len(cyc))
    cyc_dist = {}
    for (items, n, what), (o, dt) in zip(cyc, cyc_out):
        st = status(o)
        cls = err_class(o) if st == "err" else st
        cyc_dist[cls] = cyc_dist.get(cls, 0) + 1
        if st == "err" and cls == "recursion":
            res.nontrivial(("cycle", txt(items)))
            if dt > 5:
                bad("a macro cycle is rejected, but only after %.1fs (%s)" % (dt, what), items, {"outcome": o[:200], "wall_s": dt})
            continue
        detail = C.unhx(o.split(" ")[1]).decode("latin1")[:160] if st == "crash" and " " in o else o[:160]
        bad("macros paste one another in a cycle (%s) but the document is not rejected with the recursion diagnostic: "
            "outcome %s %s" % (what, st, detail), items, {"outcome": o[:300], "cycle_length": n, "wall_s": round(dt, 2)})
    res.notes["cycles"] = {"documents": len(cyc), "outcomes": cyc_dist}
    if nbad[0]:
        return       # a recursion check that misses cycles makes every batch below die

    # ---- documents ----------------------------------------------------------------------------------
    if docs_items is None:
        docs_items = []
        for _ in range(1400 if quick else 30000):
            docs_items.append(Gen(rng).document(maxdepth=rng.choice([1, 2, 3, 4, 4])))
        for _ in range(1400 if quick else 30000):
            docs_items.append(random_items(rng))
    rendered = [render(it) for it in docs_items]
    docs = [r[0] for r in rendered]
    projects = [[("a.jst", d)] for d in docs]

    # (i) model vs implementation at stage=expand
    lines_e = [P.run_line("stage=expand", pj) for pj in projects]
    impl_e = run_impl(lines_e)
    model_e = C.run_sharded("modelrun", None, lines_e)
    lines_s = [P.run_line("stage=scan", pj) for pj in projects]
    impl_s = run_impl(lines_s)
    res.count(len(docs))
    res.coverage["traces_validated_against_impl"] += len(docs)
    mism = []
    for k, (i, m) in enumerate(zip(impl_e, model_e)):
        a, b = K.norm_impl(i), K.norm_model(m)
        if a != b and not (a[0] == "err" and a[-1] == "scan" and b[0] == "err" and b[-1] == "scan" and a[1:5] == b[1:5]):
            mism.append((k, a, b))

    # independent statement of the clauses on the implementation's outputs
    accepted = []      # (k, Macros, inlined items)
    converse_expand = []
    wellformed = []    # (k, inlined items): no duplicate, no cycle, no undefined name - whatever the expansion says
    dist = {}
    for k, (items, (doc, where, lines), oe, os_) in enumerate(zip(docs_items, rendered, impl_e, impl_s)):
        st = status(oe)
        if st not in ("ok", "err"):
            bad("implementation outcome %s on a document with macros" % oe[:160], items, {"outcome": oe[:300]})
            continue
        if status(os_) != "ok":
            dist["rejected by the scan"] = dist.get("rejected by the scan", 0) + 1
            continue
        try:
            forest = parse_forest(P.parse(os_)[1].get("tree", ""))
            mac = Macros(items, where, forest)
        except Exception as e:  # noqa
            bad("cannot read the implementation's scan forest: %s" % e, items, found_input=False)
            continue
        cls = err_class(oe)
        names = mac.names()
        dup = [n for i, n in enumerate(names) if n in names[:i]]
        empty = [d for d in mac.defs if not d[4]["kids"]]
        if dup or empty:
            # collectMacro walks the definitions in order: the first offending one is reported
            first = None
            for i, d in enumerate(mac.defs):
                if not d[4]["kids"]:
                    first = ("emptymacro", lines[d[1]])
                    break
                if d[0] in names[:i]:
                    first = ("dupname", lines[d[1]])
                    break
            if st != "err" or (cls, err_line(oe)) != first:
                bad("a %s is not rejected where it stands: expected %r, got %s %s line %s" % (
                    "second macro with the same name" if first[0] == "dupname" else "macro without a body", first, st, cls, err_line(oe)),
                    items, {"outcome": oe[:300]})
            else:
                res.nontrivial(("dup", doc))
            dist[first[0]] = dist.get(first[0], 0) + 1
            continue
        if mac.has_cycle():
            dist["cycle"] = dist.get("cycle", 0) + 1
            if st != "err" or cls != "recursion":
                bad("the paste graph has a cycle but the outcome is %s %s" % (st, cls), items, {"outcome": oe[:300]})
            else:
                res.nontrivial(("cycle", doc))
            continue
        if cls == "recursion":
            bad("recursion is reported but the paste graph %r has no cycle" % mac.graph(), items, {"outcome": oe[:300]})
            continue
        undefined = [n for n in mac.reachable() if n not in mac.body]
        if undefined:
            dist["undefined paste"] = dist.get("undefined paste", 0) + 1
            if st != "err":
                bad("a PASTE of the undefined macro @%s is reached but the document is accepted" % undefined[0], items,
                    {"outcome": oe[:300]})
            elif cls == "macronotfound":
                res.nontrivial(("undef", doc))
            continue
        if cls == "macronotfound":
            bad("'macro not found' is reported but every PASTE that is reached names a defined macro", items, {"outcome": oe[:300]})
            continue
        try:
            inl = mac.inline()
        except RecursionError:
            bad("no cycle was found although the pastes nest deeper than 16 levels", items)
            continue
        wellformed.append((k, inl))
        if st == "err":
            dist["rejected in the expansion: " + cls] = dist.get("rejected in the expansion: " + cls, 0) + 1
            if mac.reachable():
                res.nontrivial(("experr", doc))
            continue
        dist["expanded"] = dist.get("expanded", 0) + 1
        if mac.reachable():
            res.nontrivial(("ok", doc))
        # the expanded forest, read in document order, is the inlined item sequence
        exp_forest = parse_forest(P.parse(oe)[1].get("tree", ""))
        got = [n["kind"] for n in preorder(exp_forest)]
        want = [item_kind(it) for it in inl if item_kind(it) is not None]
        if got != want:
            bad("the expansion is not the document with every PASTE replaced by the body of its macro: directive kinds in order "
                "%r, expected %r" % (got, want), items, {"inlined": C.hx(render(inl)[0])})
            continue
        if any(k2 in (21, 22) for k2 in got):
            bad("a MACRO or PASTE directive survives the expansion", items)
            continue
        accepted.append((k, mac, inl))

    # a document without MACRO and PASTE is its own expansion (here: every inlined document that the scan accepts,
    # also those whose version with macros is rejected while it is expanded)
    rejected = [(k, inl) for (k, inl) in wellformed if status(impl_e[k]) != "ok"]
    l_rs = [P.run_line("stage=scan", [("a.jst", render(inl)[0])]) for (_, inl) in rejected]
    l_re = [P.run_line("stage=expand", [("a.jst", render(inl)[0])]) for (_, inl) in rejected]
    o_r = run_impl(l_rs + l_re)
    res.count(2 * len(rejected))
    own = {"inlined document rejected by the scan too": 0, "inlined document scanned and expanded": 0}
    for (k, inl), ors, ore in zip(rejected, o_r[:len(rejected)], o_r[len(rejected):]):
        if status(ors) != "ok":
            own["inlined document rejected by the scan too"] += 1
            continue
        if status(ore) != "ok" or P.parse(ors)[1].get("tree") != P.parse(ore)[1].get("tree"):
            bad("a document without MACRO and PASTE is changed by the expansion: the scan accepts it, the expansion gives %s" % (
                "another forest" if status(ore) == "ok" else "%s at line %s" % (err_class(ore), err_line(ore))),
                inl, {"scanned": ors[:800], "expanded": ore[:800], "from_document_with_macros": C.hx(docs[k])})
            continue
        own["inlined document scanned and expanded"] += 1
        # the version with macros was rejected in the expansion, the inlined one is not: not a clause of the property
        # (it speaks of accepted documents with macros), but worth a note
        converse_expand.append((docs_items[k], impl_e[k]))
    res.notes["rejected_in_expansion"] = own

    # (ii) metamorphic: document vs inlined document, on the implementation
    inl_docs = [render(inl)[0] for (_, _, inl) in accepted]
    unused = b"MACRO @unused\n(\n  GET\n    200 any\n)\n"
    l_inl_e = [P.run_line("stage=expand", [("a.jst", d)]) for d in inl_docs]
    l_inl_s = [P.run_line("stage=scan", [("a.jst", d)]) for d in inl_docs]
    l_doc_f = [P.run_line("out=sha", projects[k]) for (k, _, _) in accepted]
    l_inl_f = [P.run_line("out=sha", [("a.jst", d)]) for d in inl_docs]
    l_un_f = [P.run_line("out=sha", [("a.jst", docs[k] + unused)]) for (k, _, _) in accepted]
    o_all = run_impl(l_inl_e + l_doc_f + l_inl_f + l_un_f + l_inl_s)
    n = len(accepted)
    o_inl_e, o_doc_f, o_inl_f, o_un_f, o_inl_s = o_all[:n], o_all[n:2 * n], o_all[2 * n:3 * n], o_all[3 * n:4 * n], o_all[4 * n:]
    res.count(5 * n)
    full = {"both accepted": 0, "both rejected": 0, "only the inlined document accepted": 0}
    converse = []
    differing = []
    for (k, mac, inl), oie, odf, oif, ouf, ois in zip(accepted, o_inl_e, o_doc_f, o_inl_f, o_un_f, o_inl_s):
        items = docs_items[k]
        extra = {"inlined": C.hx(render(inl)[0]), "inlined_text": txt(inl)[:600]}
        # a document without macros is its own expansion
        if status(ois) == "ok" and (status(oie) != "ok" or P.parse(ois)[1].get("tree") != P.parse(oie)[1].get("tree")):
            bad("a document without MACRO and PASTE is changed by the expansion: scanned %s, expanded %s" % (
                P.parse(ois)[1].get("tree", "")[:0] + "forest", ("forest differs" if status(oie) == "ok" else "%s line %s" % (err_class(oie), err_line(oie)))),
                inl, {"scanned": ois[:800], "expanded": oie[:800], "from_document_with_macros": C.hx(docs[k])})
            continue
        if status(oie) != "ok":
            bad("the document is expanded, the same document with every PASTE replaced by the macro body is rejected at the same "
                "stage: %s line %s" % (err_class(oie), err_line(oie)), items, extra)
            continue
        a = strip_coords(P.parse(impl_e[k])[1].get("tree", ""))
        b = strip_coords(P.parse(oie)[1].get("tree", ""))
        if a != b:
            bad("pasting and inlining give different directive forests", items, dict(extra, pasted=a[:600], inlined_forest=b[:600]))
            continue
        sd, si, su = status(odf), status(oif), status(ouf)
        if any(s not in ("ok", "err") for s in (sd, si, su)):
            bad("full pipeline outcome %s / %s / %s" % (odf[:80], oif[:80], ouf[:80]), items, extra)
            continue
        if sd == "ok":
            if si != "ok":
                bad("the document with macros is accepted, the inlined document is rejected: %s line %s" % (
                    C.unhx(P.parse(oif)[1]["msg"]).decode("latin1")[:160], err_line(oif)), items, extra)
                continue
            if P.parse(odf)[1]["sha"] != P.parse(oif)[1]["sha"] or P.parse(odf)[1]["shaindent"] != P.parse(oif)[1]["shaindent"]:
                differing.append((k, mac, inl))
                continue
            if su != "ok" or P.parse(ouf)[1]["sha"] != P.parse(odf)[1]["sha"]:
                bad("a macro that nothing pastes changes the result: %s" % ouf[:120], items, extra)
                continue
            full["both accepted"] += 1
            if mac.reachable():
                res.nontrivial(("json", docs[k]))
        elif si == "ok":
            full["only the inlined document accepted"] += 1
            converse.append((items, odf))
        else:
            full["both rejected"] += 1
    # different catalogs: look at the JSON texts
    if differing:
        oj = run_impl([P.run_line("-", projects[k]) for (k, _, _) in differing] +
                      [P.run_line("-", [("a.jst", render(inl)[0])]) for (_, _, inl) in differing])
        for j, (k, mac, inl) in enumerate(differing):
            items = docs_items[k]
            ja = C.unhx(P.parse(oj[j])[1]["json"]).decode("utf-8", "replace")
            jb = C.unhx(P.parse(oj[len(differing) + j])[1]["json"]).decode("utf-8", "replace")
            extra = {"inlined": C.hx(render(inl)[0]), "inlined_text": txt(inl)[:600], "json_with_macros": ja[:1500], "json_inlined": jb[:1500]}
            try:
                od = order_differences(json.loads(ja), json.loads(jb))
            except ValueError:
                od = None
            bad("the document with macros and the inlined document are both accepted with different catalogs%s" % (
                "" if od is None else " (equal as JSON values; member order differs under %r)" % sorted(set(od))), items, extra)
    res.notes["full_pipeline"] = full
    if converse_expand:
        res.notes["rejected_in_expansion_with_macros_expanded_inlined"] = [
            {"doc": txt(it)[:400], "outcome": str(K.norm_impl(o)[1:])[:120]} for it, o in converse_expand[:5]]
    if converse:
        # not a clause of the property (it speaks of ACCEPTED documents with macros); recorded for the reader
        res.notes["rejected_with_macros_accepted_inlined"] = [
            {"doc": txt(it)[:400], "diagnostic": C.unhx(P.parse(o)[1]["msg"]).decode("latin1")[:120]} for it, o in converse[:5]]

    # (ii') ONE macro pasted at two places: every pasted copy is a directive of its own - whatever a check compares (names, path
    # parameters, singleton slots), two pastes count as two directives, exactly as when the body is written twice
    twice = []
    contents = [('Path\n{I}  {\n{I}    "id": 1\n{I}  }', True), ('Path\n{I}  {\n{I}    "id": "x" // {type: "string"}\n{I}  }', True),
                ("Query\n{I}  {\n{I}    \"q\": 1\n{I}  }", False), ("Description\n{I}  some text", False), ("404 any", False),
                ("Request any", False), ("Headers\n{I}  {\n{I}    \"h\": \"v\"\n{I}  }", False)]
    hostpairs = [(("GET /cats/{id}", "DELETE /cats/{id}"), 1), (("URL /cats/{id}", "URL /cats/{id}/toys"), 1), (("GET /cats/{id}", "PUT /dogs/{id}"), 1),
                 (("URL /cats/{id}", "POST /cats/{id}/toys"), 1), (("GET /a", "GET /b"), 1)]
    for content, _ in contents:
        for (h1, h2), _ in hostpairs:
            for nested in (False, True):
                def host(h, body, paste):
                    kids = ("  PASTE @p\n" if paste else "".join("  " + l + "\n" for l in body.replace("{I}", "").split("\n")))
                    if h.startswith("URL"):
                        return h + "\n" + kids + "  GET\n    200 any\n"
                    return h + "\n" + kids + "  200 any\n"
                body_lines = content
                mac = "MACRO @p\n(\n" + "".join("  " + l + "\n" for l in content.replace("{I}", "").split("\n")) + ")\n"
                if nested:
                    mac = mac.replace("MACRO @p", "MACRO @q") + "MACRO @p\n(\n  PASTE @q\n)\n"
                head = "JSIGHT 0.3\nTAG @g\n"
                with_macros = head + mac + host(h1, content, True) + host(h2, content, True)
                inlined = head + host(h1, content, False) + host(h2, content, False)
                twice.append((with_macros.encode(), inlined.encode()))
    # a macro that holds a whole method (with its own Path / Query / Description) or a whole URL block, pasted under two hosts
    def _ind(t, n):
        return "".join(" " * n + l + "\n" for l in t.split("\n"))
    meth = "GET\n  Path\n    {\n      \"id\": 1\n    }\n  Description\n    one item\n  200 any"
    meth2 = "POST\n  Query\n    {\n      \"q\": 1\n    }\n  Request any\n  200 any"
    for body, hosts_ in ((meth, ("URL /cats/{id}", "URL /dogs/{id}")), (meth2, ("URL /cats", "URL /dogs")), (meth + "\n" + meth2, ("URL /cats/{id}", "URL /dogs/{id}")),
                         (meth, ("URL /shops/{shopId}/items/{id}", "URL /dogs/{id}"))):
        wm = "JSIGHT 0.3\nMACRO @g\n(\n" + _ind(body, 2) + ")\n" + "".join(h + "\n  PASTE @g\n" for h in hosts_)
        inl = "JSIGHT 0.3\n" + "".join(h + "\n" + _ind(body, 2) for h in hosts_)
        twice.append((wm.encode(), inl.encode()))
        wm2 = "JSIGHT 0.3\nMACRO @g\n(\n" + _ind(body, 2) + ")\nMACRO @h\n(\n  PASTE @g\n)\n" + "".join(h + "\n  PASTE @h\n" for h in hosts_)
        twice.append((wm2.encode(), inl.encode()))
    # a URL directive in a macro pasted twice; a root-level directive inside a macro pasted below a method
    twice.append((b"JSIGHT 0.3\nMACRO @u\n(\n  URL /pets\n)\nPASTE @u\n  GET\n    200 any\nPASTE @u\n  POST\n    200 any\n",
                  b"JSIGHT 0.3\nURL /pets\n  GET\n    200 any\nURL /pets\n  POST\n    200 any\n"))
    twice.append((b"JSIGHT 0.3\nMACRO @e\n(\n  TYPE @error\n    {}\n  404 @error\n)\nGET /pets\n  200 any\n  PASTE @e\n",
                  b"JSIGHT 0.3\nGET /pets\n  200 any\n  TYPE @error\n    {}\n  404 @error\n"))
    twice.append((b"JSIGHT 0.3\nMACRO @e\n(\n  Query\n    {}\n  Body any\n)\nPOST /pets\n  Request\n    Headers\n      {}\n    PASTE @e\n  200 any\n",
                  b"JSIGHT 0.3\nPOST /pets\n  Request\n    Headers\n      {}\n    Query\n      {}\n    Body any\n  200 any\n"))
    # what a PASTE brings into a URL block is checked like what is written there (HTTP and JSON-RPC may not mix)
    twice.append((b"JSIGHT 0.3\nMACRO @http\n(\n  GET\n    200 any\n)\nURL /api/rpc\n  Protocol json-rpc-2.0\n  Method ping\n    Params\n      {}\n  PASTE @http\n",
                  b"JSIGHT 0.3\nURL /api/rpc\n  Protocol json-rpc-2.0\n  Method ping\n    Params\n      {}\n  GET\n    200 any\n"))
    twice.append((b"JSIGHT 0.3\nMACRO @rpc\n(\n  Protocol json-rpc-2.0\n  Method ping\n)\nURL /api\n  GET\n    200 any\n  PASTE @rpc\n",
                  b"JSIGHT 0.3\nURL /api\n  GET\n    200 any\n  Protocol json-rpc-2.0\n  Method ping\n"))
    twice.append((b"JSIGHT 0.3\nMACRO @q\n(\n  Query\n    {}\n  Headers\n    {}\n)\nGET /a\n  200 any\n  PASTE @q\n",
                  b"JSIGHT 0.3\nGET /a\n  200 any\n  Query\n    {}\n  Headers\n    {}\n"))
    o_tw = run_impl([P.run_line("out=sha", [("a.jst", d)]) for pair in twice for d in pair])
    res.count(len(o_tw))
    tw_dist = {"both accepted": 0, "both rejected": 0}
    for i, (wm, inl) in enumerate(twice):
        a, b = o_tw[2 * i], o_tw[2 * i + 1]
        sa, sb = status(a), status(b)
        if sa == sb == "ok" and P.parse(a)[1].get("sha") == P.parse(b)[1].get("sha"):
            tw_dist["both accepted"] += 1
            res.nontrivial(("pasted-twice", wm))
        elif sa == sb == "err":
            # (the property speaks of ACCEPTED documents with macros; two rejections need not name the same stage)
            tw_dist["both rejected"] += 1
            res.nontrivial(("pasted-twice", wm))
        else:
            res.violation("one macro pasted at two places does not mean what its body written twice means: with macros %s, written in place %s" % (
                "accepted" if sa == "ok" else "%s (%s)" % (sa, err_class(a)), ("accepted" + (" with another catalog" if sa == "ok" else "")) if sb == "ok" else "%s (%s)" % (sb, err_class(b))),
                {"doc": C.hx(wm), "inlined": C.hx(inl), "text": wm.decode()[:700]})
            return
    res.notes["pasted_twice"] = dict(tw_dist, pairs=len(twice))

    # (iv) duplicates and undefined names, derived from accepted documents
    derived = []
    for (k, mac, inl) in accepted[: (300 if quick else 5000)]:
        items = docs_items[k]
        if not mac.defs:
            continue
        name, idx, (a, b2), stop, node = rng.choice(mac.defs)
        # a second definition of the same name, after the first
        pos = rng.choice([stop, len(items)])
        dup_items = items[:pos] + [("macro", name, 0), ("(",), D(15, 900001), (")",)] + items[pos:]
        # only when the insertion point is at top level (not inside an open parenthesis)
        bal = sum(1 if it[0] == "(" else -1 if it[0] == ")" else 0 for it in items[:pos])
        if bal == 0:
            derived.append(("dup", dup_items, render(dup_items)[2][pos]))
        pastes = [i for i, it in enumerate(items) if it[0] == "paste" and it[1] in mac.reachable()
                  and not any(d[1] < i < d[3] for d in mac.defs)]
        if pastes:
            i = rng.choice(pastes)
            und = list(items)
            und[i] = ("paste", "nope", items[i][2])
            derived.append(("undef", und, render(und)[2][i]))
    d_out = run_impl([P.run_line("stage=expand", [("a.jst", render(it)[0])]) for (_, it, _) in derived])
    res.count(len(derived))
    dd = {"dup": 0, "undef": 0}
    for (what, items, line), o in zip(derived, d_out):
        cls = err_class(o)
        dd[what] += 1
        if what == "dup":
            # the insertion may end an implicit macro body early: then something else may be wrong first, but never 'ok'
            if status(o) != "err":
                bad("a second macro with the same name is accepted", items, {"outcome": o[:300]})
            elif cls == "dupname" and err_line(o) == line:
                res.nontrivial(("dup", txt(items)))
            elif cls == "dupname":
                bad("the duplicate name is reported at line %s, the second definition stands at line %d" % (err_line(o), line), items)
        else:
            if status(o) != "err" or cls != "macronotfound" or err_line(o) != line:
                bad("a PASTE of an undefined macro at line %d, everything before it expands: expected 'macro not found' there, got %s %s line %s"
                    % (line, status(o), cls, err_line(o)), items, {"outcome": o[:300]})
            else:
                res.nontrivial(("undef", txt(items)))
    res.notes["derived"] = dd
    res.notes["input_distribution"] = {"documents": len(docs), "structured": len(docs) // 2, "outcomes": dist,
                                       "expanded_and_compared_with_inlined": len(accepted)}
    for k in (3, len(docs) // 2 + 3):
        if k < len(docs):
            res.sample({"doc": docs[k].decode("latin1")[:300], "impl": impl_e[k][:80]})
    if accepted:
        k, mac, inl = accepted[len(accepted) // 2]
        res.sample({"doc": docs[k].decode("latin1")[:400], "inlined": txt(inl)[:400]})

    if nbad[0]:
        return
    if mism:
        k, a, b = mism[0]
        res.violation("core model and implementation disagree at the expand stage (%d disagreements): impl=%r model=%r; no violated "
                      "clause of the property was found in the implementation's outputs" % (
                          len(mism), a[:6] if a[0] == "err" else a[1][:300], b[:6] if b[0] == "err" else b[1][:300]),
                      {"correspondence": "directive forest (expand)", "items": [list(it) for it in docs_items[k]], "doc": C.hx(docs[k])},
                      found_input=False)
        return
    if not pr.proof_ok:
        res.violation("proof obligation no longer checks: %s" % pr.proof_err,
                      {"obligation": pr.proof_err, "theorems": pr.theorems}, found_input=False)
