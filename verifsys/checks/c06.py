"""C06 — Context resolution: each directive lands under the nearest admitting parent."""
import json
import random

from .. import common as C
from .. import corecheck as K
from .. import proj as P

KINDS = [0, 1, 2, 3, 4, 5, 6, 7, 8, 9, 12, 13, 14, 15, 16, 17, 18, 19, 20, 21, 22, 24, 25, 26, 27, 28, 29]


def parse_tree(s):
    """'(k kw=.. ... [children])...' -> list of (kind, explicit, children)"""
    pos = 0

    def node():
        nonlocal pos
        assert s[pos] == "("
        j = s.index(" ", pos)
        kind = int(s[pos + 1:j])
        k = s.index(" [", pos)
        head = s[pos:k]
        explicit = " x=1 " in head + " "
        pos = k + 2
        kids = []
        while s[pos] == "(":
            kids.append(node())
        assert s[pos:pos + 2] == "])"
        pos += 2
        return (kind, explicit, kids)

    out = []
    while pos < len(s):
        out.append(node())
    return out


# independent statement of the property on ONE resolved forest: pre-order = source order is checked
# by the tree comparison; here: every edge is admitted by the table (read through the implementation's
# own accessor is not possible from Python, so the table is re-stated here from the language reference)
ALLOWED = {
    7: {8, 9, 10, 11, 12, 16, 22, 24, 25, 29},
    8: {4, 14, 15, 16, 18, 22, 29}, 9: {4, 14, 15, 16, 18, 22, 29}, 10: {4, 14, 15, 16, 18, 22, 29},
    11: {4, 14, 15, 16, 18, 22, 29}, 12: {4, 14, 15, 16, 18, 22, 29},
    15: {13, 17, 22}, 14: {13, 17, 22}, 1: {2, 3, 4, 22}, 5: {6, 22}, 25: {4, 26, 27, 29}, 28: {4},
    21: {1, 2, 3, 4, 5, 6, 7, 8, 9, 10, 11, 12, 13, 14, 15, 16, 17, 18, 19, 20, 22},
}
ROOT = {0, 1, 5, 7, 8, 9, 10, 11, 12, 19, 20, 21, 22, 28}


def edges_ok(forest):
    bad = []

    def walk(parent, nodes):
        for (k, x, kids) in nodes:
            if parent is None:
                if k not in ROOT:
                    bad.append("kind %d stands at top level" % k)
            elif k not in ALLOWED.get(parent, set()):
                bad.append("kind %d is a child of kind %d which does not admit it" % (k, parent))
            walk(k, kids)

    walk(None, forest)
    return bad


def run(res, tier, seed, replay):
    pr = C.prepare("C06", res, need_gens=("tables", "scanner", "typing"))
    rng = random.Random(seed)
    quick = tier == "quick"
    res.coverage["rule"] = ("sequences of directive kinds (27 kinds that the scan stage keeps, path-bearing methods, '(' and ')') "
                            "rendered with unique names: exhaustive to the length bound, random beyond; compared: the directive "
                            "forest after scanning and after paste expansion (kind, parent, order, explicit flag, coordinates), or "
                            "the error (file, index, line, class); non-trivial = forest nests >= 2 levels or the input is rejected "
                            "for context; distinct by item sequence")
    if not (pr.harness_ok and pr.model_ok):
        res.violation("build failed: " + (pr.harness_err or pr.model_err)[-800:], {"obligation": "build"}, found_input=False)
        return
    alphabet = KINDS + ["P8", "P9", "(", ")"]
    seqs = []
    if replay:
        seqs = [json.load(open(replay))["items"]]
    else:
        seqs += list(K.all_item_seqs(alphabet, 2))
        triples = list(K.all_item_seqs(alphabet, 3))[len(alphabet) + len(alphabet) ** 2:]
        seqs += triples if not quick else rng.sample(triples, 6000)
        # longer sequences biased to things that nest
        nesty = [7, 8, 9, "P8", 15, 14, 13, 17, 4, 18, 16, 29, 21, 22, 1, 2, 5, 6, 25, 24, 26, 28, "(", ")", "(", ")"]
        for _ in range(3000 if quick else 60000):
            n = rng.randint(4, 14 if quick else 40)
            seqs.append([0] + [rng.choice(nesty if rng.random() < 0.8 else alphabet) for _ in range(n)])
        for _ in range(3000 if quick else 60000):
            seqs.append(K.gen_nested_items(rng, budget=rng.randint(4, 16 if quick else 40)))
    if not replay:
        # a directive that has a body opens a parenthesis which is closed at once (or after one child), then every kind: where
        # the next directive goes after such a ')' (the body may be written inside the parentheses: the variants below)
        prefixes = [[0, "P8"], [0, "P8", 15], [0, "P8", 14], [0, 7], [0, 7, 8], [0], [0, 7, 24, 25], [0, 7, 8, 15]]
        for pre in (prefixes if not quick else prefixes[:5]):
            for b in K.BODY_INSIDE:
                for k2 in KINDS + ["P9"]:
                    seqs.append(pre + [b, "(", ")", k2])
                    if not quick or k2 in (13, 17, 22, 15, 16, 29):
                        seqs.append(pre + [b, "(", 17, ")", k2])
    docs = [K.render_items(s) for s in seqs]
    # the same sequences with the body of a directive written INSIDE the parentheses it opens (`200` / `(` / `{}` / `)`):
    # the same items, so the same forest and the same verdict by the rule
    if not replay:
        extra = [(s, K.render_items(s, body_inside=True)) for s in seqs]
        extra = [(s, d) for (s, d), d0 in zip(extra, docs) if d != d0]
        seqs = seqs + [s for s, _ in extra]
        docs = docs + [d for _, d in extra]
        res.notes["body_inside_parentheses_variants"] = len(extra)
    elif json.load(open(replay)).get("doc"):
        docs = [C.unhx(json.load(open(replay))["doc"])]
    n_bad = 0
    scan_shapes = {}
    for stage in ("scan", "expand"):
        projects = [[("a.jst", d)] for d in docs]
        ni, nm, mism = K.compare(projects, "stage=" + stage)
        res.count(len(docs))
        res.coverage["traces_validated_against_impl"] += len(docs)
        spec_bad = []
        dist = {"ok": 0, "err": 0}
        for k_, (s, a) in enumerate(zip(seqs, ni)):
            dist[a[0]] = dist.get(a[0], 0) + 1
            if a[0] == "ok":
                try:
                    forest = parse_tree(a[1])
                except Exception as e:  # noqa
                    spec_bad.append((k_, s, "unparsable tree: %s" % e))
                    continue
                deep = any(k2 for (_, _, k1) in forest for (_, _, k2) in k1)
                if deep:
                    res.nontrivial(("ok", stage, tuple(map(str, s))))
                eb = edges_ok(forest) if stage == "scan" else []
                if eb:
                    spec_bad.append((k_, s, eb[0]))
                full = K.parse_forest(a[1])
                if stage == "scan":
                    # the property, clause by clause, from an independent resolver
                    sp = K.spec_resolve(s)
                    if sp[0] != "ok":
                        spec_bad.append((k_, s, "accepted, but the context rule rejects it (%s)" % sp[1]))
                    elif K.forest_parents(full) != sp[1]:
                        spec_bad.append((k_, s, "a directive is not under the nearest admitting parent: parents %r, the rule gives %r" % (K.forest_parents(full), sp[1])))
                    scan_shapes[k_] = K.shape(full, [("a.jst", docs[k_])])
                elif 21 not in s and 22 not in s:
                    # no MACRO / PASTE: the second resolution must reproduce the first
                    if scan_shapes.get(k_) != K.shape(full, [("a.jst", docs[k_])]):
                        spec_bad.append((k_, s, "the forest after the expansion stage differs from the scanned forest although the document has no macro"))
            elif a[0] == "err" and a[-1] in ("incorrectcontext", "incorrectcontextpath", "noexplicit", "notallclosed"):
                res.nontrivial(("err", stage, tuple(map(str, s))))
                if stage == "scan":
                    sp = K.spec_resolve(s)
                    if sp[0] == "ok":
                        spec_bad.append((k_, s, "rejected for %s, but every directive has a place and the parentheses balance" % a[-1]))
            elif a[0] not in ("ok", "err"):
                spec_bad.append((k_, s, "implementation outcome %s" % a[0]))
        res.notes["input_distribution_" + stage] = {"sequences": len(seqs), "verdicts": dist,
                                                    "max_len": max(len(s) for s in seqs)}
        for kx, s, why in spec_bad[:3]:
            n_bad += 1
            dd = docs[kx]
            res.violation("context resolution (%s stage): %s on items %r" % (stage, why, s),
                          {"items": s, "doc": C.hx(dd), "stage": stage})
        if spec_bad:
            continue
        if mism:
            k = mism[0]
            n_bad += 1
            res.violation("core model and implementation disagree at the %s stage on items %r (%d disagreements): impl=%r model=%r; "
                          "no violated clause of the property was found in the implementation's forests" % (stage, seqs[k], len(mism), ni[k][:6] if ni[k][0] == "err" else ni[k][1][:300], nm[k][:6] if nm[k][0] == "err" else nm[k][1][:300]),
                          {"correspondence": "directive forest (%s)" % stage, "items": seqs[k], "doc": C.hx(docs[k])}, found_input=False)
    res.sample({"items": [str(x) for x in seqs[len(seqs) // 2]], "doc": docs[len(seqs) // 2].decode()[:200]})
    if n_bad:
        return
    if not pr.proof_ok:
        res.violation("proof obligation no longer checks: %s" % pr.proof_err,
                      {"obligation": pr.proof_err, "theorems": pr.theorems}, found_input=False)
