"""C06 — Context resolution: each directive lands under the nearest admitting parent."""
import json
import random

from .. import common as C
from .. import corecheck as K
from .. import proj as P

KINDS = [0, 1, 2, 3, 4, 5, 6, 7, 8, 9, 12, 13, 14, 15, 16, 17, 18, 19, 20, 21, 22, 24, 25, 26, 27, 28, 29]


def parse_tree(s):
    """'(k kw=.. ... [children])...' -> list of (kind, explicit, children)"""
    pos = 0

    def node():
        nonlocal pos
        assert s[pos] == "("
        j = s.index(" ", pos)
        kind = int(s[pos + 1:j])
        k = s.index(" [", pos)
        head = s[pos:k]
        explicit = " x=1 " in head + " "
        pos = k + 2
        kids = []
        while s[pos] == "(":
            kids.append(node())
        assert s[pos:pos + 2] == "])"
        pos += 2
        return (kind, explicit, kids)

    out = []
    while pos < len(s):
        out.append(node())
    return out


# independent statement of the property on ONE resolved forest: pre-order = source order is checked
# by the tree comparison; here: every edge is admitted by the table (read through the implementation's
# own accessor is not possible from Python, so the table is re-stated here from the language reference)
ALLOWED = {
    7: {8, 9, 10, 11, 12, 16, 22, 24, 25, 29},
    8: {4, 14, 15, 16, 18, 22, 29}, 9: {4, 14, 15, 16, 18, 22, 29}, 10: {4, 14, 15, 16, 18, 22, 29},
    11: {4, 14, 15, 16, 18, 22, 29}, 12: {4, 14, 15, 16, 18, 22, 29},
    15: {13, 17, 22}, 14: {13, 17, 22}, 1: {2, 3, 4, 22}, 5: {6, 22}, 25: {4, 26, 27, 29}, 28: {4},
    21: {1, 2, 3, 4, 5, 6, 7, 8, 9, 10, 11, 12, 13, 14, 15, 16, 17, 18, 19, 20, 22},
}
ROOT = {0, 1, 5, 7, 8, 9, 10, 11, 12, 19, 20, 21, 22, 28}


def edges_ok(forest):
    bad = []

    def walk(parent, nodes):
        for (k, x, kids) in nodes:
            if parent is None:
                if k not in ROOT:
                    bad.append("kind %d stands at top level" % k)
            elif k not in ALLOWED.get(parent, set()):
                bad.append("kind %d is a child of kind %d which does not admit it" % (k, parent))
            walk(k, kids)

    walk(None, forest)
    return bad


def stage_macro_position(res, quick):
    """The expanded document is the directive sequence without the MACRO definitions: where a definition stands is
    immaterial to where the directives around it land.  Each document is expanded with its definition written
    between two directives and with the same definition moved to the front; the two forests (definition removed)
    and the two verdicts must agree, and model and implementation must agree on both."""
    macro_bodies = [["GET", "  200 any"], ["200 any"], ["Tags @g1"], ["GET /q", "  200 any"], ["Headers", "  {}"]]
    prefixes = [["URL /a"], ["URL /a", "  GET", "    200 any"], ["URL /a", "  POST", "    200 any"], ["GET /p", "  200 any"],
                ["URL /a", "(", ")"], ["URL /a", "(", "  POST", "    200 any", ")"], ["TAG @g1", "URL /a"],
                ["URL /r", "  Protocol json-rpc-2.0", "  Method foo", "    Params", "      {}"]]
    # what follows the definition is something the FIRST resolution (scan stage, definition still in place) puts at the top
    # level: a method without a path or a PASTE; the second resolution (definitions removed) decides where it lands
    tails = [["PASTE @m"], ["GET", "  PASTE @m"], ["GET", "  200 any"], ["POST", "  200 any", "PASTE @m"], ["PUT", "  Tags @g1", "  200 any"],
             ["DELETE", "(", "  200 any", ")", "PASTE @m"], []]
    pairs = []
    for pre in prefixes:
        for body in macro_bodies:
            for tail in tails:
                for paren in (True,):   # a bare definition does not end before a directive its body admits
                    if paren:
                        mdef = ["MACRO @m", "("] + ["  " + l for l in body] + [")"]
                    else:
                        mdef = ["MACRO @m"] + ["  " + l for l in body]
                    head = ["JSIGHT 0.3", "TAG @g1"] if "TAG @g1" not in pre else ["JSIGHT 0.3"]
                    mid = "\n".join(head + pre + mdef + tail) + "\n"
                    front = "\n".join(head + mdef + pre + tail) + "\n"
                    pairs.append((mid.encode(), front.encode()))
    if quick:
        pairs = pairs[::2] + pairs[1::6]
    docs = [d for pr_ in pairs for d in pr_]
    ni, nm, mism = K.compare([[("a.jst", d)] for d in docs], "stage=expand")
    res.count(len(docs))
    res.coverage["traces_validated_against_impl"] += len(docs)
    bad = []

    def strip_macros(forest):
        return [d for d in forest if d["kind"] != 21]

    agree = 0
    for k in range(0, len(docs), 2):
        a, b = ni[k], ni[k + 1]
        # only pairs in which the implicit MACRO of the `mid` spelling does not swallow the tail are comparable: the
        # parenthesised definition ends at its ')', the bare one at the first less indented line (all tails are)
        if a[0] != b[0]:
            bad.append((k, "the verdict depends on where the MACRO definition stands: %s in the middle, %s in front" % (a[0], b[0])))
        elif a[0] == "ok":
            fa, fb = strip_macros(K.parse_forest(a[1])), strip_macros(K.parse_forest(b[1]))
            sa = K.shape(fa, [("a.jst", docs[k])])
            sb = K.shape(fb, [("a.jst", docs[k + 1])])
            if sa != sb:
                bad.append((k, "the expanded forest depends on where the MACRO definition stands"))
            else:
                agree += 1
                res.nontrivial(("macro-position", k))
    res.notes["macro_position_pairs"] = {"pairs": len(docs) // 2, "accepted_and_equal": agree}
    out = []
    for k, why in bad[:3]:
        out.append(("context resolution (expansion stage): %s" % why,
                    {"doc": C.hx(docs[k]), "doc_macro_in_front": C.hx(docs[k + 1]), "stage": "expand", "family": "macro-position"}, True))
    if not bad and mism:
        k = mism[0]
        out.append(("core model and implementation disagree at the expand stage on a document with a MACRO definition between "
                    "directives (%d disagreements): impl=%r model=%r" % (len(mism), ni[k][:6], nm[k][:6]),
                    {"correspondence": "directive forest (expand), macro-position family", "doc": C.hx(docs[k])}, False))
    return out


def stage_empty_path(res, quick):
    """A method written with an empty quoted path (`GET ""`) has no path: it must land where the bare `GET` lands,
    with the same verdict.  Every context prefix, every method kind, followed by every kind."""
    methods = ["GET", "POST", "PUT", "PATCH", "DELETE"]
    prefixes = [["URL /a"], ["URL /a", "("], ["URL /a", "  GET", "    200 any"], [], ["URL /a", "  Query", "    {}"],
                ["GET /p", "  200 any"], ["URL /a", "(", "  GET", "    200 any"]]
    followers = [[], ["  200 any"], ["  200 any", "GET"], ["  200 any", "POST", "  200 any"], ["  Tags @g1"], ["  200 any", "Tags @g1"]]
    pairs = []
    for pre in prefixes:
        for m in (methods if not quick else methods[:3]):
            for fo in followers:
                closing = [")"] if "(" in pre else []
                ind = "  " if pre and pre[0].startswith("URL") and "(" not in pre else ""
                a = ["JSIGHT 0.3", "TAG @g1"] + pre + [ind + m + ' ""'] + [ind + l for l in fo] + closing
                b = ["JSIGHT 0.3", "TAG @g1"] + pre + [ind + m] + [ind + l for l in fo] + closing
                pairs.append((("\n".join(a) + "\n").encode(), ("\n".join(b) + "\n").encode()))
    docs = [d for pr_ in pairs for d in pr_]
    out = []
    for stage in ("scan", "expand"):
        ni, nm, mism = K.compare([[("a.jst", d)] for d in docs], "stage=" + stage)
        res.count(len(docs))
        res.coverage["traces_validated_against_impl"] += len(docs)
        bad = []
        for k in range(0, len(docs), 2):
            a, b = ni[k], ni[k + 1]
            if a[0] != b[0]:
                bad.append((k, "a method with an empty quoted path is %s where the bare method is %s" % (a[0], b[0])))
            elif a[0] == "ok":
                if K.forest_parents(K.parse_forest(a[1])) != K.forest_parents(K.parse_forest(b[1])):
                    bad.append((k, "a method with an empty quoted path lands elsewhere than the bare method"))
                else:
                    res.nontrivial(("empty-path", stage, k))
        for k, why in bad[:2]:
            out.append(("context resolution (%s stage): %s" % (stage, why),
                        {"doc": C.hx(docs[k]), "doc_bare": C.hx(docs[k + 1]), "stage": stage, "family": "empty-path"}, True))
        if not bad and mism:
            k = mism[0]
            out.append(("core model and implementation disagree at the %s stage on a method with an empty quoted path: impl=%r "
                        "model=%r" % (stage, ni[k][:6], nm[k][:6]),
                        {"correspondence": "directive forest (%s), empty-path family" % stage, "doc": C.hx(docs[k])}, False))
    res.notes["empty_path_pairs"] = len(docs) // 2
    return out


def run(res, tier, seed, replay):
    pr = C.prepare("C06", res, need_gens=("tables", "scanner", "typing"))
    rng = random.Random(seed)
    quick = tier == "quick"
    res.coverage["rule"] = ("sequences of directive kinds (27 kinds that the scan stage keeps, path-bearing methods, '(' and ')') "
                            "rendered with unique names: exhaustive to the length bound, random beyond; compared: the directive "
                            "forest after scanning and after paste expansion (kind, parent, order, explicit flag, coordinates), or "
                            "the error (file, index, line, class); non-trivial = forest nests >= 2 levels or the input is rejected "
                            "for context; distinct by item sequence")
    if not (pr.harness_ok and pr.model_ok):
        res.violation("build failed: " + (pr.harness_err or pr.model_err)[-800:], {"obligation": "build"}, found_input=False)
        return
    alphabet = KINDS + ["P8", "P9", "(", ")"]
    seqs = []
    if replay:
        seqs = [json.load(open(replay))["items"]]
    else:
        seqs += list(K.all_item_seqs(alphabet, 2))
        triples = list(K.all_item_seqs(alphabet, 3))[len(alphabet) + len(alphabet) ** 2:]
        seqs += triples if not quick else rng.sample(triples, 6000)
        # longer sequences biased to things that nest
        nesty = [7, 8, 9, "P8", 15, 14, 13, 17, 4, 18, 16, 29, 21, 22, 1, 2, 5, 6, 25, 24, 26, 28, "(", ")", "(", ")"]
        for _ in range(3000 if quick else 60000):
            n = rng.randint(4, 14 if quick else 40)
            seqs.append([0] + [rng.choice(nesty if rng.random() < 0.8 else alphabet) for _ in range(n)])
        for _ in range(3000 if quick else 60000):
            seqs.append(K.gen_nested_items(rng, budget=rng.randint(4, 16 if quick else 40)))
    if not replay:
        # a directive that has a body opens a parenthesis which is closed at once (or after one child), then every kind: where
        # the next directive goes after such a ')' (the body may be written inside the parentheses: the variants below)
        prefixes = [[0, "P8"], [0, "P8", 15], [0, "P8", 14], [0, 7], [0, 7, 8], [0], [0, 7, 24, 25], [0, 7, 8, 15]]
        for pre in (prefixes if not quick else prefixes[:5]):
            for b in K.BODY_INSIDE:
                for k2 in KINDS + ["P9"]:
                    seqs.append(pre + [b, "(", ")", k2])
                    if not quick or k2 in (13, 17, 22, 15, 16, 29):
                        seqs.append(pre + [b, "(", 17, ")", k2])
        # a parenthesised directive that has an EARLIER sibling, then every kind: after the ')' the context is the parent of
        # the parenthesised directive, not the subtree of the sibling before it (both stages; without macros the second
        # resolution must reproduce the first)
        sib_pre = [[0, 7, 8], [0, 7, 8, 15], [0, 7, 24, 25], [0, 7, 24, 25, 26], [0, "P8", 15]]
        for pre in sib_pre:
            for m in (9, 10, 25, 15, 14, 16, 18):
                for inner in ([15], [], [17], [26]):
                    for k2 in KINDS + ["P9"]:
                        if quick and k2 not in (29, 13, 15, 16, 17, 18, 22, 8, 9, 25, 26, 4, "P9"):
                            continue
                        seqs.append(pre + [m, "("] + inner + [")", k2])
    docs = [K.render_items(s) for s in seqs]
    # the same sequences with the body of a directive written INSIDE the parentheses it opens (`200` / `(` / `{}` / `)`):
    # the same items, so the same forest and the same verdict by the rule
    if not replay:
        extra = [(s, K.render_items(s, body_inside=True)) for s in seqs]
        extra = [(s, d) for (s, d), d0 in zip(extra, docs) if d != d0]
        seqs = seqs + [s for s, _ in extra]
        docs = docs + [d for _, d in extra]
        res.notes["body_inside_parentheses_variants"] = len(extra)
    elif json.load(open(replay)).get("doc"):
        docs = [C.unhx(json.load(open(replay))["doc"])]
    n_bad = 0
    scan_shapes = {}
    for stage in ("scan", "expand"):
        projects = [[("a.jst", d)] for d in docs]
        ni, nm, mism = K.compare(projects, "stage=" + stage)
        res.count(len(docs))
        res.coverage["traces_validated_against_impl"] += len(docs)
        spec_bad = []
        dist = {"ok": 0, "err": 0}
        for k_, (s, a) in enumerate(zip(seqs, ni)):
            dist[a[0]] = dist.get(a[0], 0) + 1
            if a[0] == "ok":
                try:
                    forest = parse_tree(a[1])
                except Exception as e:  # noqa
                    spec_bad.append((k_, s, "unparsable tree: %s" % e))
                    continue
                deep = any(k2 for (_, _, k1) in forest for (_, _, k2) in k1)
                if deep:
                    res.nontrivial(("ok", stage, tuple(map(str, s))))
                eb = edges_ok(forest) if stage == "scan" else []
                if eb:
                    spec_bad.append((k_, s, eb[0]))
                full = K.parse_forest(a[1])
                if stage == "scan":
                    # the property, clause by clause, from an independent resolver
                    sp = K.spec_resolve(s)
                    if sp[0] != "ok":
                        spec_bad.append((k_, s, "accepted, but the context rule rejects it (%s)" % sp[1]))
                    elif K.forest_parents(full) != sp[1]:
                        spec_bad.append((k_, s, "a directive is not under the nearest admitting parent: parents %r, the rule gives %r" % (K.forest_parents(full), sp[1])))
                    scan_shapes[k_] = K.shape(full, [("a.jst", docs[k_])])
                elif 21 not in s and 22 not in s:
                    # no MACRO / PASTE: the second resolution must reproduce the first
                    if scan_shapes.get(k_) != K.shape(full, [("a.jst", docs[k_])]):
                        spec_bad.append((k_, s, "the forest after the expansion stage differs from the scanned forest although the document has no macro"))
            elif a[0] == "err" and a[-1] in ("incorrectcontext", "incorrectcontextpath", "noexplicit", "notallclosed"):
                res.nontrivial(("err", stage, tuple(map(str, s))))
                if stage == "scan":
                    sp = K.spec_resolve(s)
                    if sp[0] == "ok":
                        spec_bad.append((k_, s, "rejected for %s, but every directive has a place and the parentheses balance" % a[-1]))
            elif a[0] not in ("ok", "err"):
                spec_bad.append((k_, s, "implementation outcome %s" % a[0]))
        res.notes["input_distribution_" + stage] = {"sequences": len(seqs), "verdicts": dist,
                                                    "max_len": max(len(s) for s in seqs)}
        for kx, s, why in spec_bad[:3]:
            n_bad += 1
            dd = docs[kx]
            res.violation("context resolution (%s stage): %s on items %r" % (stage, why, s),
                          {"items": s, "doc": C.hx(dd), "stage": stage})
        if spec_bad:
            continue
        if mism:
            k = mism[0]
            n_bad += 1
            res.violation("core model and implementation disagree at the %s stage on items %r (%d disagreements): impl=%r model=%r; "
                          "no violated clause of the property was found in the implementation's forests" % (stage, seqs[k], len(mism), ni[k][:6] if ni[k][0] == "err" else ni[k][1][:300], nm[k][:6] if nm[k][0] == "err" else nm[k][1][:300]),
                          {"correspondence": "directive forest (%s)" % stage, "items": seqs[k], "doc": C.hx(docs[k])}, found_input=False)
    res.sample({"items": [str(x) for x in seqs[len(seqs) // 2]], "doc": docs[len(seqs) // 2].decode()[:200]})
    if not replay:
        for what, rp_, found in stage_macro_position(res, quick) + stage_empty_path(res, quick):
            n_bad += 1
            res.violation(what, rp_, found_input=found)
    if n_bad:
        return
    if not pr.proof_ok:
        res.violation("proof obligation no longer checks: %s" % pr.proof_err,
                      {"obligation": pr.proof_err, "theorems": pr.theorems}, found_input=False)
