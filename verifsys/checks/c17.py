"""C17 — Parameters round-trip: what is written, quoted or bare, is what the catalog has.

Proof side: coq/props/C17.v over the hand model coq/model/Params.v.
Dynamic side (this file): a list of STAGES; every stage
  * runs the extracted model and the implementation on the same inputs (correspondence), and
  * evaluates an independent Python statement of the property on the IMPLEMENTATION's answers.
More stages (e.g. end-to-end through the whole parser) are appended to STAGES; a stage is a
function stage(ctx) that extends ctx.spec_bad / ctx.corr_bad and calls ctx.res.count(...).
"""
import itertools
import json
import re

from .. import common as C

# --------------------------------------------------------------------------------------------
# independent executable statement of the property (no code shared with the model)

BSL, DQ = b"\\", b'"'


def quote(s: bytes) -> bytes:
    """the value written in double quotes with '"' and '\\' escaped by a backslash"""
    out = bytearray(b'"')
    for c in s:
        if c in (0x22, 0x5C):
            out.append(0x5C)
        out.append(c)
    out.append(0x22)
    return bytes(out)


# a quoted lexeme the property admits: '"', then bytes that are not CR LF NUL '"' '\' or one of
# the two escapes, then the closing '"' as the last byte
ACCEPTED_RE = re.compile(rb'"(?:[^"\\\r\n\x00]|\\["\\])*"', re.S)
BODY_RE = re.compile(rb'"(?:[^"\\\r\n\x00]|\\["\\])*', re.S)


def spec_scan(t: bytes) -> str:
    """what the property demands of the scanner on a text that starts with the opening quote:
    the lexeme up to the closing quote, or a rejection AT the line end / end of file of an
    unterminated quote, or AT the byte that follows a backslash and is neither '\\' nor '"'"""
    m = BODY_RE.match(t)
    e = m.end()
    nxt = t[e:e + 1]
    if nxt == DQ:
        return "accept %d" % (e + 1)
    if nxt == BSL:
        return "reject %d" % (e + 1)      # the byte after the backslash (len(t) = end of file)
    return "reject %d" % e                # CR, LF, NUL or end of file inside the quotes


def is_bare(s: bytes) -> bool:
    return len(s) > 0 and s[:1] != DQ and not any(c in b" \t\r\n#\x00" for c in s)


KINDS = ["JSIGHT", "INFO", "Title", "Version", "Description", "SERVER", "BaseUrl", "URL", "GET", "POST",
         "PUT", "PATCH", "DELETE", "Body", "Request", "HTTP-response-code", "Path", "Headers", "Query",
         "TYPE", "ENUM", "MACRO", "PASTE", "INCLUDE", "Protocol", "Method", "Params", "Result", "TAG", "Tags"]

# directive kinds whose parameter must be read back exactly, with the name it is stored under
EXACT_KEY = {0: b"Version", 2: b"Title", 3: b"Version", 6: b"Path", 7: b"Path", 8: b"Path", 9: b"Path",
             10: b"Path", 11: b"Path", 12: b"Path", 24: b"ProtocolName", 25: b"MethodName"}
QUERY = 18


def spec_exact(k: int, s: bytes) -> str:
    """expected answer of appendparam k quote(s) for the kinds of the property text"""
    if k == QUERY:
        key = b"Format" if s in (b"htmlFormEncoded", b"noFormat") else b"QueryExample"
    else:
        key = EXACT_KEY[k]
    return "named %s %s" % (C.hx(key), C.hx(s))


ALPHABET = bytes([0x5C, 0x22, 0x23, 0x2F, 0x2A, 0x20, 0x09, 0x40, 0x5B, 0x61, 0xC3, 0xA9])
SCAN_ALPHABET = bytes([0x5C, 0x22, 0x61, 0x0A, 0x0D, 0x09, 0x23, 0x20, 0xC3, 0x00])

VALUES = [
    b"", b"jsight", b"regex", b"any", b"empty", b"jsight ", b"Regex", b"anyx", b"unknown",
    b"@a", b"@cat", b"@Cat-1_x", b"@", b"@@", b"@a b", b"@a.b", b"@a/b", b"@\xc3\xa9", b"a", b"cat",
    b"[@a]", b"[@cat]", b"[@]", b"[]", b"[@a", b"@a]", b"[[@a]]", b"[@a b]", b"[ @a]", b"[@a-_9Z]", b"[a]",
    b'"@a"', b'"[@a]"', b'"quoted @a"', b'"@a" ', b'""', b'"', b'"a', b'a"', b'"a\\"', b'"a\\\\"', b'"\\"',
    b'"a\\\\b"', b'"a\\"b"', b'"a\\nb"', b'"a\tb"', b'"\xc3\xa9"', b'"\xff\xfe"', b'"jsight"', b'"regex"',
    b'"any"', b'"empty"', b'"htmlFormEncoded"', b'"noFormat"',
    b"/", b"/cats", b"/cats/{id}", b"/a\\b", b"/a\"b", b"/caf\xc3\xa9", b"/a//b/", b"{id}", b"/a?b=c",
    b"htmlFormEncoded", b"noFormat", b"htmlformencoded", b"noFormat ", b"a=1&b=2", b"?a=1",
    b"200", b"404", b"0.3", b"1.0.0", b"My API", b"http://x.example/", b"https://a.b/c?d=e#f",
    b"foo", b"get_cats", b"json-rpc-2.0", b"\\", b"\\\\", b'\\"', b"a\\", b"#", b"a#b", b"//", b"/*", b"\t",
]


class Ctx:
    def __init__(self, res, pr, tier, replay):
        self.res, self.pr, self.tier = res, pr, tier
        self.replay = json.load(open(replay)) if replay else None
        self.spec_bad = []   # (stage, input bytes, what, expected, got, theorem)
        self.corr_bad = []   # (stage, line, impl, model)
        self.dist = {}

    def both(self, lines):
        if not lines:
            return [], []
        impl = C.run_sharded("harness", "fn", lines)
        model = C.run_sharded("modelrun", None, lines)
        self.res.count(len(lines))
        self.res.coverage["traces_validated_against_impl"] += len(lines)
        return impl, model

    def corr(self, stage, lines, impl, model):
        for ln, i, m in zip(lines, impl, model):
            if i != m:
                self.corr_bad.append((stage, ln, i, m))

    def bad(self, stage, inp, what, expected, got, theorem):
        self.spec_bad.append((stage, inp, what, expected, got, theorem))

    def replay_inputs(self, stage):
        """inputs of a replay file that belong to this stage, else None"""
        if self.replay is None:
            return None
        if self.replay.get("stage") != stage:
            return []
        return [C.unhx(self.replay.get("input", "-"))]


def chunked(it, n):
    it = iter(it)
    while True:
        block = list(itertools.islice(it, n))
        if not block:
            return
        yield block


# --------------------------------------------------------------------------------------------
# stage 1: unescapeParameter on every string over ALPHABET, raw and quoted


def stage_unescape(ctx):
    maxlen = 5 if ctx.tier == "quick" else 6
    strings = ctx.replay_inputs("unescape")
    if strings is None:
        strings = C.all_strings(ALPHABET, maxlen)
    n_raw = n_changed = n_acc = n_bare = 0
    sampled = False
    for block in chunked(strings, 300000):
        qs = [quote(s) for s in block]
        lines = ["unescape " + C.hx(s) for s in block] + ["unescape " + C.hx(q) for q in qs]
        impl, model = ctx.both(lines)
        ctx.corr("unescape", lines, impl, model)
        nb = len(block)
        for idx, s in enumerate(block):
            raw_out = C.unhx(impl[idx])
            q_out = C.unhx(impl[nb + idx])
            n_raw += 1
            # the property: what is written quoted is read back exactly
            if q_out != s:
                ctx.bad("unescape", qs[idx], "value %r written as %r is read back as %r" % (s, qs[idx], q_out),
                        C.hx(s), C.hx(q_out), "unescape_quote")
            # a string that does not start with a quote is taken as written
            if s[:1] != DQ and raw_out != s:
                ctx.bad("unescape", s, "unquoted parameter %r is read as %r" % (s, raw_out),
                        C.hx(s), C.hx(raw_out), "bare_eq_quoted")
            if is_bare(s):
                n_bare += 1
            # an accepted quoted lexeme is the canonical quoting of what is read back
            if ACCEPTED_RE.fullmatch(s):
                n_acc += 1
                if quote(raw_out) != s:
                    ctx.bad("unescape", s, "accepted lexeme %r is read back as %r whose quoting is %r" % (s, raw_out, quote(raw_out)),
                            C.hx(s), C.hx(quote(raw_out)), "accepted_is_quote")
            if raw_out != s:
                n_changed += 1
                ctx.res.nontrivial(("u", s))
            if q_out != qs[idx][1:-1]:
                ctx.res.nontrivial(("q", s))
        if not sampled and nb > 2000:
            sampled = True
            picks = [i for i in range(2000, nb, 997) if BSL in block[i] and DQ in block[i]][:2] + [nb - 7]
            for idx in picks:
                ctx.res.sample({"stage": "unescape", "value": block[idx].decode("latin1"), "quoted": qs[idx].decode("latin1"),
                                "impl(quoted)": C.unhx(impl[nb + idx]).decode("latin1"), "model(quoted)": C.unhx(model[nb + idx]).decode("latin1"),
                                "impl(raw)": C.unhx(impl[idx]).decode("latin1")})
    ctx.dist["unescape"] = {"strings": n_raw, "max_len": maxlen, "alphabet": ALPHABET.decode("latin1"),
                            "each_raw_and_quoted": True, "raw_changed_by_unescape": n_changed,
                            "raw_that_are_accepted_quoted_lexemes": n_acc, "raw_that_are_bare": n_bare}


# --------------------------------------------------------------------------------------------
# stage 2: AppendParameter, 30 kinds x representative values; exact kinds x enumerated strings


def stage_appendparam(ctx):
    vals = ctx.replay_inputs("appendparam")
    if vals is None:
        vals = list(VALUES)
    lines, meta = [], []
    for k in range(len(KINDS)):
        for v in vals:
            lines.append("appendparam %d %s" % (k, C.hx(v)))
            meta.append((k, v, "raw"))
            lines.append("appendparam %d %s" % (k, C.hx(quote(v))))
            meta.append((k, v, "quoted"))
    impl, model = ctx.both(lines)
    ctx.corr("appendparam", lines, impl, model)
    verdicts = {}
    for j in range(0, len(lines), 2):
        k, v, _ = meta[j]
        raw, quoted = impl[j], impl[j + 1]
        verdicts[raw.split(" ")[0]] = verdicts.get(raw.split(" ")[0], 0) + 1
        if raw != "err":
            ctx.res.nontrivial((k, v))
        if v[:1] != DQ and raw != quoted:
            ctx.bad("appendparam", v, "%s %r means %s unquoted but %s quoted" % (KINDS[k], v, raw, quoted),
                    raw, quoted, "bare_eq_quoted")
        if k in EXACT_KEY or k == QUERY:
            if quoted != spec_exact(k, v):
                ctx.bad("appendparam", quote(v), "%s %r is stored as %s" % (KINDS[k], quote(v), quoted),
                        spec_exact(k, v), quoted, "unescape_quote")
    ctx.res.sample({"stage": "appendparam", "kind": KINDS[13], "value": "[@cat]", "impl": impl[lines.index("appendparam 13 " + C.hx(b"[@cat]"))] if ctx.replay is None else "-"})
    # the kinds named by the property text: every string, written quoted, is stored exactly
    n_exact = 0
    if ctx.replay is None:
        maxlen = 3 if ctx.tier == "quick" else 4
        strs = list(C.all_strings(ALPHABET, maxlen))
        lines2, meta2 = [], []
        for k in sorted(list(EXACT_KEY) + [QUERY]):
            for s in strs:
                lines2.append("appendparam %d %s" % (k, C.hx(quote(s))))
                meta2.append((k, s))
        impl2, model2 = ctx.both(lines2)
        ctx.corr("appendparam", lines2, impl2, model2)
        for (k, s), i in zip(meta2, impl2):
            if i != spec_exact(k, s):
                ctx.bad("appendparam", quote(s), "%s %r is stored as %s" % (KINDS[k], quote(s), i),
                        spec_exact(k, s), i, "unescape_quote")
        n_exact = len(lines2)
        ctx.res.sample({"stage": "appendparam", "kind": KINDS[meta2[-5][0]], "written": quote(meta2[-5][1]).decode("latin1"), "impl": impl2[-5]})
    ctx.dist["appendparam"] = {"kinds": len(KINDS), "values": len(vals), "each_raw_and_quoted": True,
                               "impl_verdicts_raw": verdicts, "exact_kinds_x_strings": n_exact}


# --------------------------------------------------------------------------------------------
# stage 3: the real scanner on `Title "<s>` for every s over SCAN_ALPHABET (public scanner API)


def stage_scanquoted(ctx):
    maxlen = 5 if ctx.tier == "quick" else 6
    texts = ctx.replay_inputs("scanquoted")
    if texts is None:
        texts = (DQ + s for s in C.all_strings(SCAN_ALPHABET, maxlen))
    n = 0
    verdicts = {"accept": 0, "reject": 0}
    sampled = False
    for block in chunked(texts, 400000):
        lines = ["scanquoted " + C.hx(t) for t in block]
        impl, model = ctx.both(lines)
        ctx.corr("scanquoted", lines, impl, model)
        for t, i in zip(block, impl):
            n += 1
            w = i.split(" ")[0]
            verdicts[w] = verdicts.get(w, 0) + 1
            exp = spec_scan(t)
            if i != exp:
                ctx.bad("scanquoted", t, "the scanner on %r: %s, the property demands %s" % (t, i, exp), exp, i,
                        "reject_positions / quote_accepted")
            if BSL in t or t.count(DQ) > 1:
                ctx.res.nontrivial(("s", t))
        if not sampled and len(block) > 50000:
            sampled = True
            for idx in (len(block) // 3, len(block) - 11):
                ctx.res.sample({"stage": "scanquoted", "text": block[idx].decode("latin1"), "impl": impl[idx], "model": model[idx]})
    ctx.dist["scanquoted"] = {"texts": n, "max_len_after_quote": maxlen, "alphabet": SCAN_ALPHABET.decode("latin1"),
                              "impl_verdicts": verdicts}


# --------------------------------------------------------------------------------------------
# stage 4: end to end - a value that needs no quotes means the same with and without them, whatever blanks separate it


E2E_SLOTS = [
    # (template with {P} = the parameter list, [values])
    (b"JSIGHT 0.3\nINFO\n  Title{P}\n  Version 1\n", [[b"Pets"], [b"a-b.c"]]),
    (b"JSIGHT 0.3\nINFO\n  Title T\n  Version{P}\n", [[b"1.0"], [b"v2"]]),
    (b"JSIGHT 0.3\nSERVER @s\n  BaseUrl{P}\n", [[b"https://x.y/z"]]),
    (b"JSIGHT 0.3\nSERVER{P}\n  BaseUrl \"https://x.y\"\n", [[b"@prod"]]),
    (b"JSIGHT 0.3\nGET{P}\n  200 any\n", [[b"/cats"], [b"/cats/{id}"], [b"/"]]),
    (b"JSIGHT 0.3\nURL{P}\n  GET\n    200 any\n", [[b"/cats"]]),
    (b"JSIGHT 0.3\nGET /c\n  Query{P}\n    {}\n  200 any\n", [[b"page=1"], [b"page=1", b"noFormat"], [b"a=1&b=2", b"htmlFormEncoded"]]),
    (b"JSIGHT 0.3\nTYPE @t\n  {}\nGET /c\n  200{P}\n", [[b"@t"], [b"any"], [b"[@t]"]]),
    (b"JSIGHT 0.3\nTYPE @t\n  {}\nGET /c\n  200{P}\n  404 any\nGET /d\n  200 any\n", [[b"@t"], [b"any"], [b"[@t]"], [b"empty"]]),
    (b"JSIGHT 0.3\nTYPE @t\n  {}\nGET /c\n  200\n    Body{P}\n  404 any\n", [[b"@t"], [b"[@t]"], [b"any"]]),
    (b"JSIGHT 0.3\nTYPE @t\n  {}\nPOST /c\n  Request{P}\n  200 any\n", [[b"@t"], [b"empty"], [b"[@t]"]]),
    (b"JSIGHT 0.3\nTYPE{P}\n  {}\n", [[b"@t"]]),
    (b"JSIGHT 0.3\nTYPE{P}\n  /a/\n", [[b"@t", b"regex"]]),
    (b"JSIGHT 0.3\nTAG{P}\nGET /c\n  Tags @t\n  200 any\n", [[b"@t"]]),
    (b"JSIGHT 0.3\nTAG @a\nTAG @b\nGET /c\n  Tags{P}\n  200 any\n", [[b"@a"], [b"@a", b"@b"]]),
    (b"JSIGHT 0.3\nURL /r\n  Protocol{P}\n  Method m\n", [[b"json-rpc-2.0"]]),
    (b"JSIGHT 0.3\nURL /r\n  Protocol json-rpc-2.0\n  Method{P}\n", [[b"foo"], [b"a.b"]]),
    (b"JSIGHT 0.3\nMACRO{P}\n(\n  200 any\n)\nGET /c\n  PASTE @m\n", [[b"@m"]]),
    (b"JSIGHT 0.3\nMACRO @m\n(\n  200 any\n)\nGET /c\n  PASTE{P}\n", [[b"@m"]]),
]
E2E_SEPS = [b" ", b"\t", b"  ", b" \t", b"\t "]
E2E_TAILS = [b"", b" ", b"\t", b"\t# c", b" # c", b"\t\t", b" \t ", b"#c", b"# c d", b"#"]


def stage_e2e(ctx):
    if ctx.replay is not None and ctx.replay.get("stage") != "e2e":
        return
    from .. import proj as P
    cases = []
    for tpl, value_lists in E2E_SLOTS:
        for vals in value_lists:
            canon = tpl.replace(b"{P}", b"".join(b" " + DQ + v + DQ for v in vals))
            for sep in E2E_SEPS:
                for tail in E2E_TAILS:
                    for quoted in (False, True):
                        if quoted and sep == b" " and tail == b"":
                            continue
                        ps = b"".join(sep + ((DQ + v + DQ) if quoted else v) for v in vals) + tail
                        cases.append((canon, tpl.replace(b"{P}", ps), quoted))
    docs = sorted({c for c, _, _ in cases} | {d for _, d, _ in cases})
    outs = dict(zip(docs, C.run_sharded("harness", "fn", [P.run_line("out=sha", [("a.jst", d)]) for d in docs])))
    ctx.res.count(len(docs))
    n_ok = 0
    for canon, d, quoted in cases:
        a, b = outs[canon], outs[d]
        sa, da = P.parse(a)
        sb, db = P.parse(b)
        if sa != "ok":
            ctx.bad("e2e", canon, "the canonical spelling %r is rejected: %s" % (canon, a[:120]), "ok", a[:120], "unescape_quote (end to end)")
            continue
        n_ok += 1
        ctx.res.nontrivial(("e2e", d))
        if sb != "ok" or da.get("sha") != db.get("sha"):
            ctx.spec_bad.append(("e2e", d, "the %s spelling %r does not mean what the canonical quoted spelling %r means: %s" % (
                "quoted" if quoted else "bare", d, canon, (b[:100] if sb != "ok" else "accepted with a different catalog")),
                "same catalog", b[:120], "unescape_quote (end to end)"))
    ctx.dist["e2e"] = {"documents": len(docs), "pairs": len(cases), "canonical_accepted": n_ok, "separators": [x.decode() for x in E2E_SEPS],
                       "tails": [x.decode() for x in E2E_TAILS]}


E2E_BYTE_SLOTS = [b"JSIGHT 0.3\nINFO\n  Title {V}\n", b"JSIGHT 0.3\nINFO\n  Title \"t\"\n  Version {V}\n", b"JSIGHT 0.3\nGET /p{V}\n  200 any\n",
                  b"JSIGHT 0.3\nURL /r\n  Protocol json-rpc-2.0\n  Method {V}\n", b"JSIGHT 0.3\nSERVER @s\n  BaseUrl {V}\n",
                  b"JSIGHT 0.3\nGET /c\n  Query {V}\n    {}\n  200 any\n"]
E2E_LETTERS = [b"\xc3\xa0", b"\xc3\x85", b"\xd0\xa0", b"\xd1\x85", b"\xe8\x80\x85", b"\xc2\xa0", b"\xc2\x85", b"\xe2\x80\xa8", b"\xe3\x80\x80",
               b"\xe2\x80\x83", b"\xef\xbb\xbf", b"\xf0\x9f\x90\x88"]


def stage_e2e_bytes(ctx):
    """a value that needs no quotes means the same with or without them, for EVERY byte a bare value can hold: `a<b>z`
    for each single byte b (but the blanks, line ends, NUL, '"', '\\' and '#', which end or change a bare value) and for
    letters whose UTF-8 form holds the bytes 0x85 / 0xA0 / 0x80 (Unicode blanks when taken for code points), at the
    start, in the middle and at the end of the value, in every free-text slot"""
    if ctx.replay is not None and ctx.replay.get("stage") != "e2e-bytes":
        return
    from .. import proj as P
    excluded = {0x00, 0x09, 0x0A, 0x0D, 0x20, 0x22, 0x23, 0x5C}
    mids = [bytes([b]) for b in range(1, 256) if b not in excluded] + E2E_LETTERS
    cases = []
    for tpl in E2E_BYTE_SLOTS:
        for m in mids:
            for v in (b"a" + m + b"z", m + b"z", b"a" + m):
                if tpl.startswith(b"JSIGHT 0.3\nGET /p") :
                    pass
                bare = tpl.replace(b"{V}", v)
                quoted = tpl.replace(b"{V}", DQ + v + DQ) if b"/p{V}" not in tpl else tpl.replace(b"/p{V}", DQ + b"/p" + v + DQ)
                cases.append((bare, quoted, v))
    docs = sorted({c for c, _, _ in cases} | {d for _, d, _ in cases})
    outs = dict(zip(docs, C.run_sharded("harness", "fn", [P.run_line("out=sha", [("a.jst", d)]) for d in docs])))
    ctx.res.count(len(docs))
    n_ok = n_rej = 0
    for bare, quoted, v in cases:
        sa, da = P.parse(outs[bare])
        sb, db = P.parse(outs[quoted])
        if sb == "ok":
            n_ok += 1
            ctx.res.nontrivial(("e2e-bytes", bare))
        else:
            n_rej += 1
        if sa != sb or (sa == "ok" and da.get("sha") != db.get("sha")):
            ctx.spec_bad.append(("e2e-bytes", bare, "the value %r means one thing bare and another in quotes: bare %s, quoted %s" % (
                v, outs[bare][:90] if sa != "ok" else "accepted", outs[quoted][:90] if sb != "ok" else ("accepted" + (" with a different catalog" if sa == "ok" else ""))),
                "same catalog", outs[bare][:120], "unescape_quote (end to end)"))
    ctx.dist["e2e-bytes"] = {"documents": len(docs), "pairs": len(cases), "accepted": n_ok, "rejected_in_both_spellings": n_rej, "slots": len(E2E_BYTE_SLOTS),
                             "values": "a<b>z, <b>z, a<b> for every byte b outside {NUL, TAB, LF, CR, space, '\"', '#', '\\'} and %d multi-byte letters" % len(E2E_LETTERS)}


def stage_e2e_value(ctx):
    """what is written in quotes is what the CATALOG has (not only what the directive holds): title, version, base URL, query
    example, JSON-RPC method name and path with blanks at either end, doubled blanks inside, no-break spaces"""
    if ctx.replay is not None and ctx.replay.get("stage") != "e2e-value":
        return
    import json as _json
    from .. import proj as P
    vals = [b" Pets", b"Pets ", b"\tPets", b"Pets\t", b" Pets \t", b"a  b", b"  a  ", b"\xc2\xa0Pets\xc2\xa0", b"Pets\xe3\x80\x80", b"x", b" x", b"# not a comment ", b" // x ",
            b"noformat", b"NOFORMAT", b"NoFormat", b"htmlformencoded", b"HTMLFORMENCODED", b"Any", b"REGEX", b"Empty"]
    slots = [(b"JSIGHT 0.3\nINFO\n  Title {V}\n", lambda j: j.get("info", {}).get("title")),
             (b"JSIGHT 0.3\nINFO\n  Title \"t\"\n  Version {V}\n", lambda j: j.get("info", {}).get("version")),
             (b"JSIGHT 0.3\nSERVER @s\n  BaseUrl {V}\n", lambda j: j.get("servers", {}).get("@s", {}).get("baseUrl")),
             (b"JSIGHT 0.3\nGET /c\n  Query {V}\n    {}\n  200 any\n", lambda j: j.get("interactions", {}).get("http GET /c", {}).get("query", {}).get("example")),
             (b"JSIGHT 0.3\nURL /r\n  Protocol json-rpc-2.0\n  Method {V}\n", lambda j: next((i.get("method") for i in j.get("interactions", {}).values()), None)),
             (b"JSIGHT 0.3\nGET {V}\n  200 any\n", lambda j: next((i.get("path") for i in j.get("interactions", {}).values()), None))]
    cases = []
    for si, (tpl, get) in enumerate(slots):
        for v in vals:
            vv = (b"/p" + v) if si == 5 else v
            cases.append((tpl.replace(b"{V}", DQ + vv + DQ), vv, get))
    outs = C.run_sharded("harness", "fn", [P.run_line("out=json", [("a.jst", d)]) for d, _, _ in cases])
    ctx.res.count(len(cases))
    n_ok = 0
    for (d, v, get), o in zip(cases, outs):
        st, dd = P.parse(o)
        if st != "ok":
            if v.strip(b" \t") != b"":
                ctx.spec_bad.append(("e2e-value", d, "the quoted value %r is refused: %s" % (v, o[:100]), "accepted", o[:120], "unescape_quote (end to end)"))
            continue
        got = get(_json.loads(C.unhx(dd["json"])))
        n_ok += 1
        ctx.res.nontrivial(("e2e-value", d))
        if got != v.decode("utf-8"):
            ctx.spec_bad.append(("e2e-value", d, "the value written %r is %r in the catalog" % (v, got), v.decode("utf-8"), repr(got), "unescape_quote (end to end)"))
    ctx.dist["e2e-value"] = {"documents": len(cases), "accepted": n_ok, "values": len(vals), "slots": len(slots)}


def stage_included_tail(ctx):
    """an unterminated quote (and a backslash before another character) is rejected AT THAT BYTE also when the line is the last
    one of an INCLUDED file, with blanks or CR LF after the open value: the same index as in a file of its own"""
    if ctx.replay is not None and ctx.replay.get("stage") != "included-tail":
        return
    from .. import proj as P
    tails = [b'Title "abc', b'Title "abc  ', b'Title "abc\t', b'Title "abc\r\n', b'Title "abc  \r\n', b'Title "abc \n', b'Title "a\\x"  \n', b'Title "abc\n\n  ',
             b'GET "/a  \r\n', b'SERVER "@s \n']
    cases = []
    for t in tails:
        head = b"INFO\n  " if t.startswith(b"Title") else b""
        cases.append((t, [("a.jst", b"JSIGHT 0.3\nINCLUDE inc.jst\n"), ("inc.jst", head + t)], [("a.jst", head + t)]))
    outs = C.run_lines("harness", "fn", [P.run_line("out=sha", p) for _, a, b in cases for p in (a, b)])
    ctx.res.count(len(outs))
    n = 0
    for i, (t, a, b) in enumerate(cases):
        (sa, da), (sb, db) = P.parse(outs[2 * i]), P.parse(outs[2 * i + 1])
        ia = (sa, da.get("idx"), da.get("msg")) if sa == "err" else (sa,)
        ib = (sb, db.get("idx"), db.get("msg")) if sb == "err" else (sb,)
        if sb == "err" and C.unhx(db.get("file", "-")) == b"a.jst" and (sa != "err" or C.unhx(da.get("file", "-")) != b"inc.jst" or ia != ib):
            ctx.spec_bad.append(("included-tail", t, "the text %r as the end of an included file is diagnosed as %s, as a file of its own as %s" % (
                t, (sa, da.get("idx"), C.unhx(da.get("msg", "-"))[:50]), (sb, db.get("idx"), C.unhx(db.get("msg", "-"))[:50])), "same index", outs[2 * i][:120], "unescape_quote (end to end)"))
        else:
            n += 1
            ctx.res.nontrivial(("included-tail", t))
    ctx.dist["included-tail"] = {"texts": len(tails), "agreeing": n}


STAGES = [stage_unescape, stage_appendparam, stage_scanquoted, stage_e2e, stage_e2e_bytes, stage_e2e_value, stage_included_tail]


def run(res, tier, seed, replay):
    pr = C.prepare("C17", res, need_gens=("tables",))
    res.coverage["rule"] = ("unescape: every byte string over {\\ \" # / * space tab @ [ a 0xC3 0xA9} up to the length bound "
                            "(exhaustive), each raw and in its quoted spelling; appendparam: all 30 directive kinds x a fixed "
                            "list of values (raw and quoted) plus the exact-value kinds x every string up to a smaller bound; "
                            "scanquoted: the real scanner on an opening quote followed by every string over "
                            "{\\ \" a LF CR TAB # space 0xC3 NUL} up to the bound; non-trivial = unescape changes the input / "
                            "the parameter is accepted / the text has an escape or a second quote")
    if not (pr.harness_ok and pr.model_ok):
        res.violation("build failed: " + (pr.harness_err or pr.model_err)[-800:],
                      {"obligation": "build of harness/model"}, found_input=False)
        return
    ctx = Ctx(res, pr, tier, replay)
    res.coverage["exhaustive"] = True
    for stage in STAGES:
        stage(ctx)
    res.notes["input_distribution"] = ctx.dist
    judge(res, pr, ctx.corr_bad, ctx.spec_bad)


def judge(res, pr, corr_bad, spec_bad):
    seen = set()
    shown = 0
    for stage, inp, what, expected, got, theorem in spec_bad:
        if (stage, theorem) in seen and shown >= 5:
            continue
        seen.add((stage, theorem))
        shown += 1
        rpd = {"stage": stage, "input": C.hx(inp), "expected": expected, "got": got, "theorem": theorem}
        res.violation(what, rpd)
        if shown >= 8:
            break
    if spec_bad:
        res.notes["spec_failures"] = len(spec_bad)
        return
    if not pr.proof_ok:
        res.violation("proof obligation no longer checks: %s" % pr.proof_err,
                      {"obligation": pr.proof_err, "theorems": pr.theorems}, found_input=False)
    if corr_bad:
        stage, ln, i, m = corr_bad[0]
        res.violation("model and implementation disagree on `%s`: impl=%s model=%s (%d disagreements); "
                      "the implementation satisfied the executable specification on every input tried" % (ln, i, m, len(corr_bad)),
                      {"correspondence": stage, "stage": stage, "line": ln, "input": ln.split(" ")[-1], "impl": i, "model": m},
                      found_input=False)
