"""C15 — the text normalisers: core/description.go `description`, catalog/annotation.go `Annotation`.

Obligations: props/C15.v (14 theorems about the hand model coq/model/Description.v).
Correspondence: the extracted model and the implementation are run on the same byte strings
(exhaustive over a small alphabet) and must print the same line.
Executable specification: every proved theorem is restated below in Python, independently of the
model, and evaluated on the IMPLEMENTATION's outputs.

The unguarded statements "normalising twice changes nothing" and "the common indentation is removed"
are false for the code as written (theorems desc_idempotent_refuted, desc_idempotent_refuted_blank_line,
desc_common_indent_refuted).  Inputs in exactly those classes are reported as KNOWN-FINDING, not as
violations; a failure outside the classes is a violation.
"""
import itertools
import json
import random
import re

from .. import common as C
from .. import proj as P

# Known counterexample classes of the unchanged code (each proved as a `*_refuted` theorem).
# `when` documents the predicate implemented by classify_idem / classify_indent below.
KNOWN = [
    {"id": "idempotence/nested-parentheses",
     "theorem": "desc_idempotent_refuted",
     "witness": "description('(\\n()\\n)') = '()' ; description('()') = error",
     "when": "the result d is itself read as a parenthesised body (TrimSpace(d) = '(' ... ')'), which "
             "happens when the text inside the parentheses is again parenthesised"},
    {"id": "idempotence/blank-line-shorter-than-indent",
     "theorem": "desc_idempotent_refuted_blank_line",
     "witness": "description('  a\\n \\n  a') = ' a\\n\\n a' ; description(' a\\n\\n a') = 'a\\n\\na'",
     "when": "the input has a space/tab directly before a line end and every non-empty line of the "
             "result still starts with the same space/tab (a whitespace-only line stopped the prefix)"},
    {"id": "indentation/whitespace-only-line-limits-dedent",
     "theorem": "desc_common_indent_refuted",
     "witness": "description(' \\n a') = ' \\n a' ; description('   \\n   a') = ' \\n a' ; "
                "description('    a\\n  \\n    b') = '  a\\n\\n  b'",
     "when": "the input has a space/tab directly before a line end (whitespace-only first line: the "
             "`i == len(bb[0])-1` quirk keeps its last byte; whitespace-only inner line shorter than the "
             "indentation) and every non-empty line of the result starts with the same space/tab"},
]

DESC_ALPHABET = b"a \t\r\n()#"
ANNOT_ALPHABET = b"a \t\r\n"

# --------------------------------------------------------------------------------------
# independent Python statements

ASCII_SPACE = b"\t\n\v\f\r "
USPACE = [b"\xc2\x85", b"\xc2\xa0", b"\xe1\x9a\x80"] + [bytes([0xe2, 0x80, x]) for x in range(0x80, 0x8b)] + \
         [b"\xe2\x80\xa8", b"\xe2\x80\xa9", b"\xe2\x80\xaf", b"\xe2\x81\x9f", b"\xe3\x80\x80"]


def go_trim_space(s: bytes) -> bytes:
    """bytes.TrimSpace: strip white-space runes (canonical UTF-8) from both ends"""
    s = s.lstrip(ASCII_SPACE)
    while s and s[0] >= 0x80:
        for q in USPACE:
            if s.startswith(q):
                s = s[len(q):].lstrip(ASCII_SPACE)
                break
        else:
            break
    s = s.rstrip(ASCII_SPACE)
    while s and s[-1] >= 0x80:
        for q in USPACE:
            if s.endswith(q):
                s = s[:-len(q)].rstrip(ASCII_SPACE)
                break
        else:
            break
    return s


def wrapped(d: bytes) -> bool:
    t = go_trim_space(d)
    return len(t) >= 2 and t[:1] == b"(" and t[-1:] == b")"


TRAILING_WS = re.compile(rb"[ \t][\r\n]")


def no_trailing_ws(t: bytes) -> bool:
    return TRAILING_WS.search(t) is None


def trimmed(d: bytes) -> bool:
    return d == b"" or (d[:1] not in (b"\n", b"\r") and d[-1:] not in (b"\r", b"\n", b"\t", b" "))


def shares_indent(d: bytes):
    """the space/tab every non-empty line of d starts with, or None"""
    ls = [l for l in d.split(b"\n") if l]
    if ls and ls[0][:1] in (b" ", b"\t") and all(l[:1] == ls[0][:1] for l in ls):
        return ls[0][:1]
    return None


def lwp_py(lines):
    """longestWhitespacePrefix as written (the first loop never takes the last byte of line 0)"""
    l0 = lines[0]
    i = 0
    while i < len(l0) - 1 and l0[i:i + 1] in (b" ", b"\t"):
        i += 1
    p = l0[:i]
    for l in lines[1:]:
        if l:
            while not l.startswith(p):
                p = p[:-1]
    return p


def annotation_ok(a: bytes):
    if a and (a[0] in ASCII_SPACE or a[-1] in ASCII_SPACE):
        return "starts or ends with white space"
    if re.search(rb"[\t\n\f\r]", a):
        return "contains one of TAB LF FF CR"
    if b"  " in a:
        return "contains two spaces in a row"
    return None


def parse_desc(line):
    st, h = line.split(" ")[:2]
    return st, C.unhx(h)


# --------------------------------------------------------------------------------------


class Acc:
    def __init__(self):
        self.corr_bad = []     # (cmd, input, impl, model)
        self.spec_bad = []     # (theorem, cmd, input, what)
        self.known = {k["id"]: [] for k in KNOWN}
        self.dist = {"ok": 0, "err": 0}
        self.n_fixed = 0
        self.n_guarded_idem = 0
        self.n_bare_paren = 0
        self.n_e2e_annot = 0
        self.n_e2e_desc = 0


def run_both(lines):
    impl = C.run_sharded("harness", "fn", lines)
    model = C.run_sharded("modelrun", None, lines)
    return impl, model


def check_descriptions(res, acc, inputs, with_paren_pairs=True):
    """correspondence + every description theorem on one batch of inputs"""
    lines = ["description " + C.hx(s) for s in inputs]
    impl, model = run_both(lines)
    res.count(len(lines))
    res.coverage["traces_validated_against_impl"] += len(lines)
    out = {}
    for s, i, m in zip(inputs, impl, model):
        if i != m:
            acc.corr_bad.append(("description", s, i, m))
        out[s] = parse_desc(i)
    # second batch: results that were not inputs, and the parenthesised spellings
    extra = set()
    for s in inputs:
        st, d = out[s]
        if st == "ok" and d not in out:
            extra.add(d)
    pairs = []
    if with_paren_pairs:
        for s in inputs:
            if not wrapped(s):
                p = b"(\n" + s + b"\n)"
                pairs.append((s, p))
                if p not in out:
                    extra.add(p)
    extra = sorted(extra)
    if extra:
        xl = ["description " + C.hx(s) for s in extra]
        ximpl, xmodel = run_both(xl)
        res.count(len(xl))
        res.coverage["traces_validated_against_impl"] += len(xl)
        for s, i, m in zip(extra, ximpl, xmodel):
            if i != m:
                acc.corr_bad.append(("description", s, i, m))
            out[s] = parse_desc(i)

    for s in inputs:
        st, d = out[s]
        acc.dist[st] = acc.dist.get(st, 0) + 1
        if st not in ("ok", "err"):
            acc.spec_bad.append(("total", "description", s, "implementation printed %r" % st))
            continue
        if st == "err" or b"\n" in d or s != d:
            res.nontrivial(s)
        # desc_no_cr
        if b"\r" in d:
            acc.spec_bad.append(("desc_no_cr", "description", s, "result %r contains CR" % d))
        # blank_desc_empty
        if all(c in b" \t\r\n" for c in s) and (st, d) != ("ok", b""):
            acc.spec_bad.append(("blank_desc_empty", "description", s, "blank text gives %s %r" % (st, d)))
        # desc_fixed_iff (the input taken as a candidate fixed point), both directions
        nf = b"\r" not in s and trimmed(s) and not wrapped(s) and lwp_py(s.split(b"\n")) == b""
        if nf:
            acc.n_fixed += 1
        if nf != ((st, d) == ("ok", s)):
            acc.spec_bad.append(("desc_fixed_iff", "description", s,
                                 "normal form per the statement: %s, but description gives %s %r" % (nf, st, d)))
        if st != "ok":
            continue
        # desc_trimmed
        if not trimmed(d):
            acc.spec_bad.append(("desc_trimmed", "description", s, "result %r is not trimmed" % d))
        # desc_common_indent_removed_partial / refuted class
        c = shares_indent(d)
        if c is not None:
            if no_trailing_ws(s):
                acc.spec_bad.append(("desc_common_indent_removed_partial", "description", s,
                                     "every non-empty line of %r still starts with %r" % (d, c)))
            else:
                acc.known[KNOWN[2]["id"]].append((s, d))
        # idempotence
        st2, d2 = out[d]
        if (st2, d2) != ("ok", d):
            what = "description(%r) = %r but description of that = %s %r" % (s, d, st2, d2)
            if wrapped(d):
                acc.known[KNOWN[0]["id"]].append((s, d))
            elif not no_trailing_ws(s) and shares_indent(d) is not None:
                acc.known[KNOWN[1]["id"]].append((s, d))
            else:
                acc.spec_bad.append(("desc_idempotent_partial", "description", s, what))
        if not wrapped(d) and no_trailing_ws(s):
            acc.n_guarded_idem += 1
        # (the two guarded statements are implied by the routing above: a failure with the guard true
        #  is never in a known class.  desc_idempotent_unindented separately:)
        if not wrapped(d) and d[:1] not in (b" ", b"\t") and (st2, d2) != ("ok", d):
            acc.spec_bad.append(("desc_idempotent_unindented", "description", s,
                                 "description(%r) = %r, unindented, but not a fixed point: %s %r" % (s, d, st2, d2)))
    # desc_bare_eq_paren (the full statement, CR allowed)
    for s, p in pairs:
        acc.n_bare_paren += 1
        if out[p] != out[s]:
            acc.spec_bad.append(("desc_bare_eq_paren", "description", s,
                                 "bare gives %s %r, parenthesised gives %s %r" % (out[s] + out[p])))
    return out


def check_annotations(res, acc, inputs, pad_maxlen=6):
    lines = ["annotation " + C.hx(s) for s in inputs]
    impl, model = run_both(lines)
    res.count(len(lines))
    res.coverage["traces_validated_against_impl"] += len(lines)
    out = {}
    for s, i, m in zip(inputs, impl, model):
        if i != m:
            acc.corr_bad.append(("annotation", s, i, m))
        out[s] = C.unhx(i)
    extra = sorted({a for a in out.values() if a not in out})
    if extra:
        xl = ["annotation " + C.hx(s) for s in extra]
        ximpl, xmodel = run_both(xl)
        res.count(len(xl))
        for s, i, m in zip(extra, ximpl, xmodel):
            if i != m:
                acc.corr_bad.append(("annotation", s, i, m))
            out[s] = C.unhx(i)
    # annotation_spelling: the text as "//" hands it over (leading blank) and as "/* */" does (both sides)
    pads = [(b" ", b""), (b" ", b" "), (b"\t\n", b" \r\x0b")]
    padded = [(s, w1 + s + w2) for s in inputs if len(s) <= pad_maxlen for (w1, w2) in pads]
    need = sorted({p for _, p in padded if p not in out})
    if need:
        xl = ["annotation " + C.hx(s) for s in need]
        ximpl, xmodel = run_both(xl)
        res.count(len(xl))
        res.coverage["traces_validated_against_impl"] += len(xl)
        for s, i, m in zip(need, ximpl, xmodel):
            if i != m:
                acc.corr_bad.append(("annotation", s, i, m))
            out[s] = C.unhx(i)
    for s, p in padded:
        if out[p] != out[s]:
            acc.spec_bad.append(("annotation_spelling", "annotation", p,
                                 "annotation(%r) = %r but annotation(%r) = %r" % (p, out[p], s, out[s])))
    for s in inputs:
        a = out[s]
        if a != s:
            res.nontrivial((b"annotation", s))
        why = annotation_ok(a)
        if why:
            acc.spec_bad.append(("annotation_collapsed", "annotation", s, "result %r %s" % (a, why)))
        if out[a] != a:
            acc.spec_bad.append(("annotation_idempotent", "annotation", s,
                                 "annotation(%r) = %r but annotation of that = %r" % (s, a, out[a])))
    return out


# --------------------------------------------------------------------------------------
# end to end: the same text in either spelling, through the scanner and the catalog

E2E_ANNOT_ALPHABET = b"a */\t"
E2E_DESC_LINES = [b"a", b" a", b"\ta", b"  a b", b"(a)", b"a (b) c", b"#a", b"a # b", b"a GET", b"x Title y", b"", b" ", b"a  ", b"// a",
                  b"a /* b */", b"- a", b"200a", b"a)", b"a(",
                  # lines that begin like a response code or a keyword without being one
                  b"25 requests", b"10% off", b"12:30", b"2xx", b"59", b"  42 a", b"GETa", b"Tagsx", b"TAGS", b"Pathological", b"get"]


def _json_of(line):
    st, d = P.parse(line)
    if st != "ok":
        return st, C.unhx(d.get("msg", "-"))
    try:
        return "ok", json.loads(C.unhx(d["json"]).decode("utf-8", "replace"))
    except Exception as e:  # noqa
        return "badjson", str(e).encode()


def fields(t):
    return b" ".join(t.split())


def check_e2e_annotations(res, acc, tier, rng):
    """GET /x // t   against   GET /x /* t*/  (and  /* t */): same annotation = the collapsed text, nothing swallowed"""
    n = 5 if tier == "quick" else 7
    texts = [t for t in C.all_strings(E2E_ANNOT_ALPHABET, n, minlen=1)]
    if tier != "quick":
        texts = [t for t in texts if len(t) <= 6] + rng.sample([t for t in texts if len(t) == 7], 20000)
    texts += [b"required **", b"a b  c\t d", b"x ***", b"** doc", b"a * b", b"a/b//c", b"* *", b"a***"]
    cases = []
    for t in texts:
        line = b"JSIGHT 0.3\nGET /x // " + t + b"\n  200 any\nGET /last // last\n"
        cases.append((t, "line", line))
        if b"*/" not in t and b"*/" not in (b" " + t + b"*/")[:-2]:
            cases.append((t, "block", b"JSIGHT 0.3\nGET /x /* " + t + b"*/\n  200 any\nGET /last /* last */\n"))
            cases.append((t, "block-spaced", b"JSIGHT 0.3\nGET /x /*\t" + t + b" */\n  200 any\nGET /last /* last */\n"))
    outs = C.run_sharded("harness", "fn", [P.run_line("out=json", [("a.jst", d)]) for (_, _, d) in cases])
    res.count(len(cases))
    per = {}
    for (t, sp, d), o in zip(cases, outs):
        st, j = _json_of(o)
        want = fields(t).decode()
        got = None
        if st == "ok":
            ix = j.get("interactions", {})
            x = ix.get("http GET /x")
            last = ix.get("http GET /last")
            if x is None or last is None or last.get("annotation") != "last" or [r.get("code") for r in x.get("responses", [])] != ["200"]:
                acc.spec_bad.append(("annotation_spelling_e2e", "annotation", d, "spelling %s of annotation text %r: directives after it are lost or changed (interactions %r)" % (sp, t, sorted(ix))))
                continue
            got = x.get("annotation", "")
        per.setdefault(t, {})[sp] = (st, got)
        if st == "ok" and got != want:
            acc.spec_bad.append(("annotation_spelling_e2e", "annotation", d, "spelling %s of annotation text %r gives %r, the collapsed text is %r" % (sp, t, got, want)))
        elif st != "ok" and want != "":
            acc.spec_bad.append(("annotation_spelling_e2e", "annotation", d, "spelling %s of annotation text %r is rejected: %s %r" % (sp, t, st, j[:80])))
        if st == "ok" and got != t.decode():
            res.nontrivial((b"e2e-annotation", sp.encode(), t))
    acc.n_e2e_annot = len(cases)


HOSTS = [
    ("INFO", b"JSIGHT 0.3\nINFO\n  Title \"T\"\n  Description\n%s\nGET /last\n  200 any\n", lambda j: j.get("info", {}).get("description")),
    ("GET", b"JSIGHT 0.3\nGET /x\n  Description\n%s\n  200 any\nGET /last\n  200 any\n", lambda j: j.get("interactions", {}).get("http GET /x", {}).get("description")),
    ("Method", b"JSIGHT 0.3\nURL /r\n  Protocol json-rpc-2.0\n  Method foo\n    Description\n%s\n    Params\n      {}\nGET /last\n  200 any\n",
     lambda j: j.get("interactions", {}).get("json-rpc-2.0 foo /r", {}).get("description")),
    ("TAG", b"JSIGHT 0.3\nTAG @t\n  Description\n%s\nGET /last\n  200 any\n", lambda j: j.get("tags", {}).get("@t", {}).get("description")),
    # one Description, in a macro, pasted twice: the same bytes of the file are read (and normalised) twice
    ("PASTE2", b"JSIGHT 0.3\nMACRO @d\n(\n  Description\n%s\n)\nGET /x\n  PASTE @d\n  200 any\nGET /last\n  PASTE @d\n  200 any\n",
     lambda j: (lambda a, b: a if a == b else "first paste %r, second paste %r" % (a, b))(
         j.get("interactions", {}).get("http GET /x", {}).get("description"), j.get("interactions", {}).get("http GET /last", {}).get("description"))),
]


def check_e2e_descriptions(res, acc, tier, rng):
    """Description text bare and parenthesised in each host: the catalog description is description(text) in both"""
    texts = set()
    for k in (1, 2, 3):
        combos = list(itertools.product(E2E_DESC_LINES, repeat=k))
        if k == 3:
            combos = rng.sample(combos, 600 if tier == "quick" else 4000)
        for c in combos:
            for nl in ((b"\n",) if tier == "quick" and k == 3 else (b"\n", b"\r\n")):
                texts.add(nl.join(c))
    texts |= {b"", b" ", b"\t", b"\n", b" \n\t\n ", b"\r\n"}
    texts = sorted(texts)
    fn = C.run_sharded("harness", "fn", ["description " + C.hx(t) for t in texts] + ["description " + C.hx(b"(\n" + t + b"\n)") for t in texts])
    res.count(2 * len(texts))
    want = {(t, "bare"): parse_desc(o) for t, o in zip(texts, fn)}
    want.update({(t, "paren"): parse_desc(o) for t, o in zip(texts, fn[len(texts):])})
    cases = []
    for t in texts:
        first = t.lstrip(b" \t\r\n")
        bare_ok = not first.startswith(b"(") and not any(l.lstrip(b" \t").startswith(b")") for l in re.split(b"[\r\n]+", t)) \
            and not any(re.match(rb"^[ \t]*(%s|[1-5][0-9][0-9])" % b"|".join(KW_BYTES), l) for l in re.split(b"[\r\n]+", t))
        paren_ok = not any(l.lstrip(b" \t").startswith(b")") for l in re.split(b"[\r\n]+", t))
        for hi, (hn, tpl, get) in enumerate(HOSTS):
            if tier == "quick" and hi != (len(t) + t.count(b"a")) % len(HOSTS) and len(t) > 6:
                continue
            if bare_ok:
                cases.append((t, hn, "bare", tpl % t, get))
            if paren_ok:
                cases.append((t, hn, "paren", tpl % (b"(\n" + t + b"\n)"), get))
    outs = C.run_sharded("harness", "fn", [P.run_line("out=json", [("a.jst", d)]) for (_, _, _, d, _) in cases])
    res.count(len(cases))
    for (t, hn, sp, d, get), o in zip(cases, outs):
        st, j = _json_of(o)
        wst, wd = want[(t, sp)]
        if wst == "ok" and wd != b"":
            if st != "ok":
                acc.spec_bad.append(("desc_spelling_e2e", "description", d, "%s description of %s, text %r: rejected (%s %r), the text normalises to %r" % (sp, hn, t, st, j[:100], wd)))
            elif get(j) != wd.decode("utf-8", "replace") or "http GET /last" not in j.get("interactions", {}):
                acc.spec_bad.append(("desc_spelling_e2e", "description", d, "%s description of %s, text %r: catalog has %r, the normalised text is %r" % (sp, hn, t, get(j), wd)))
            else:
                res.nontrivial((b"e2e-description", hn.encode(), sp.encode(), t))
        elif wst == "ok":
            # blank text: a blank description is rejected, in either spelling
            if st == "ok":
                acc.spec_bad.append(("desc_spelling_e2e", "description", d, "%s description of %s, blank text %r: accepted (catalog has %r), a blank description must be rejected" % (sp, hn, t, get(j))))
        else:
            if st == "ok":
                acc.spec_bad.append(("desc_spelling_e2e", "description", d, "%s description of %s, text %r: accepted with %r although the normaliser rejects the text" % (sp, hn, t, get(j))))
    acc.n_e2e_desc = len(cases)


FOLLOWERS = [
    b"JSIGHT 0.3", b"INFO\n{I}  Title \"x\"", b"Title \"x\"", b"Version \"1\"", b"Description\n{I}  more", b"SERVER @s\n{I}  BaseUrl \"https://x.y\"",
    b"BaseUrl \"https://x.y\"", b"URL /u\n{I}  GET\n{I}    200 any", b"GET /g\n{I}  200 any", b"POST /g\n{I}  200 any", b"PUT /g\n{I}  200 any",
    b"PATCH /g\n{I}  200 any", b"DELETE /g\n{I}  200 any", b"GET\n{I}  200 any", b"Body any", b"Request any", b"Path\n{I}  {}", b"Headers\n{I}  {}",
    b"Query \"a=1\"\n{I}  {}", b"TYPE @ty\n{I}  {}", b"ENUM @en\n{I}  [1]", b"MACRO @ma\n{I}(\n{I}  200 any\n{I})", b"PASTE @mm", b"INCLUDE inc.jst",
    b"Protocol json-rpc-2.0", b"Method bar\n{I}  Params\n{I}    {}", b"Params\n{I}  {}", b"Result\n{I}  {}", b"TAG @tt", b"Tags @tg", b"200 any", b"404 any",
    b"599 any", b"100",
]
FOLLOW_HOSTS = [
    ("INFO", b"JSIGHT 0.3\nINFO\n  Title \"T\"\n  Description\n", b"  "),
    ("GET", b"JSIGHT 0.3\nGET /x\n  Description\n", b"  "),
    ("URL-GET", b"JSIGHT 0.3\nURL /x\n  GET\n    Description\n", b"    "),
    ("Method", b"JSIGHT 0.3\nURL /r\n  Protocol json-rpc-2.0\n  Method foo\n    Description\n", b"    "),
    ("TAG", b"JSIGHT 0.3\nTAG @t\n  Description\n", b"  "),
]
FOLLOW_TAIL = b"GET /last\n  200 any\nTAG @tg\nMACRO @mm\n(\n  200 any\n)\n"
FOLLOW_TEXTS = [b"Returns the cats.\nUse with care.", b"one line", b"a\n\nb"]


def check_e2e_followers(res, acc, tier, rng):
    """a bare description ends where the next directive begins, whatever that directive is: for every host, every keyword of
    the language (in a small directive of its kind, valid there or not) written after the description, at the indentation
    of the Description keyword and at the left margin - the bare spelling and the parenthesised one must give the same
    verdict, the same diagnostic text and the same catalog"""
    cases = []
    for hn, head, ind in FOLLOW_HOSTS:
        for f in FOLLOWERS:
            for text in FOLLOW_TEXTS:
                for find in (ind, b"", ind + b"  "):
                    fol = find + f.replace(b"{I}", find) + b"\n"
                    tl = b"\n".join((ind + b"  " + l) if l else l for l in text.split(b"\n"))
                    bare = head + tl + b"\n" + fol + FOLLOW_TAIL
                    paren = head + ind + b"(\n" + tl + b"\n" + ind + b")\n" + fol + FOLLOW_TAIL
                    cases.append((hn, f, bare, paren))
                    if find == ind and text == FOLLOW_TEXTS[0]:
                        # the same pair with CR LF and with CR line ends (a keyword alone on its line is then followed by CR)
                        for nl in (b"\r\n", b"\r"):
                            cases.append((hn, f, bare.replace(b"\n", nl), paren.replace(b"\n", nl)))
    files = lambda d: [("a.jst", d), ("inc.jst", b"GET /inc\n  200 any\n")]
    # the LF document and its CR LF / CR spellings must agree as well (the first text, the indentation of the host)
    for hn, head, ind in FOLLOW_HOSTS:
        for f in FOLLOWERS:
            fol = ind + f.replace(b"{I}", ind) + b"\n"
            tl = b"\n".join((ind + b"  " + l) if l else l for l in FOLLOW_TEXTS[0].split(b"\n"))
            lf = head + tl + b"\n" + fol + FOLLOW_TAIL
            for nl in (b"\r\n", b"\r"):
                cases.append((hn + "/line ends", f, lf, lf.replace(b"\n", nl)))
    docs = sorted({c[2] for c in cases} | {c[3] for c in cases})
    outs = dict(zip(docs, C.run_sharded("harness", "fn", [P.run_line("out=sha", files(d)) for d in docs])))
    res.count(len(docs))
    n_ok = 0
    for hn, f, bare, paren in cases:
        sa, da = P.parse(outs[bare])
        sb, db = P.parse(outs[paren])
        same = sa == sb and ((sa == "ok" and da.get("sha") == db.get("sha")) or (sa == "err" and da.get("msg") == db.get("msg")) or sa not in ("ok", "err"))
        if sa == "ok" and same:
            n_ok += 1
            res.nontrivial((b"e2e-follower", hn.encode(), f))
        if not same:
            acc.spec_bad.append(("desc_spelling_e2e", "description", bare, "bare description of %s followed by %r: %s; the parenthesised spelling: %s" % (
                hn, f.split(b"\n")[0], "accepted" if sa == "ok" else "%s %r" % (sa, C.unhx(da.get("msg", "-"))[:80]),
                ("accepted" + (" with a different catalog" if sa == "ok" else "")) if sb == "ok" else "%s %r" % (sb, C.unhx(db.get("msg", "-"))[:80]))))
    acc.n_e2e_follow = len(cases)
    res.notes.setdefault("input_distribution", {})["e2e_followers"] = {"pairs": len(cases), "accepted_pairs": n_ok, "hosts": [h[0] for h in FOLLOW_HOSTS],
                                                                        "followers": len(FOLLOWERS), "texts": len(FOLLOW_TEXTS)}


KW_BYTES = [b"JSIGHT", b"INFO", b"Title", b"Version", b"Description", b"SERVER", b"BaseUrl", b"URL", b"GET", b"POST", b"PUT", b"PATCH",
            b"DELETE", b"Body", b"Request", b"Path", b"Headers", b"Query", b"TYPE", b"ENUM", b"MACRO", b"PASTE", b"INCLUDE", b"Protocol",
            b"Method", b"Params", b"Result", b"TAG", b"Tags"]


# longer inputs: the witnesses of the known classes (class 2 needs 9 bytes) and hand-picked layouts
LONG_SAMPLES = [
    b"  a\n \n  a", b"   \n \n  a", b"    a\n  \n    b", b"   \n   a", b"(\n(\na\n)\n)", b" (  \r\n  a\r\n    b\r\n ) \n",
    b"\r\n\t  Line one  \r\t    two\r\n\r\n\t  three\t \r\n", b"(see below) and (above)", b"(see below), then (above).",
    b"\ta\n\t b\n\t\tc", b"  a\n\n  b\n", b"\t a\n \tb", b"(\n  a\n\n  b\n)", b"  (a)\n  (b)", b"a  \nb\t\r\nc",
]

UNICODE_SAMPLES = [
    b"\xc2\xa0(\na\n)\xc2\x85", b"\x0b(\na\n)\x0c", b"\xe2\x80\x80(\nx\n)\xe3\x80\x80", b"\xe1\xc2\x85",
    b"\x85(\na\n)", b"(\n\xc2\xa0\n)", b"\xe2\x80(\na\n)", b"\x0c", b"\x0b\n", b"\xc2\xa0a\xc2\x85",
    b"a\xc2\xa0 \xc2\xa0b", b"\xe2\x80\x80a  b\xe3\x80\x80", b"a\xe2\x80", b"\x80 a", b"a \xc2", b"\xc2 \xa0a",
    b"a\t\xe2\x80 \x80", b"a\x0bb", b" a \x0b b ", b"\xe2\x81\x9fa\xe2\x80\xaf", b"\xe1\x9a\x80a\xe2\x80\xa8\xe2\x80\xa9",
]


def run(res, tier, seed, replay):
    pr = C.prepare("C15", res)
    res.coverage["rule"] = (
        "description: every byte string over {a,space,TAB,CR,LF,(,),#} up to the length bound (exhaustive), "
        "each also in its parenthesised spelling '(' LF t LF ')', plus every result fed back; annotation: every "
        "byte string over {a,space,TAB,CR,LF} up to its bound; non-ASCII white space: exhaustive short strings "
        "over the bytes of the UTF-8 space encodings for bytes.TrimSpace and fixed samples for both functions. "
        "non-trivial = the function changed the text, returned an error or a multi-line result")
    if not (pr.harness_ok and pr.model_ok):
        res.violation("build failed: " + (pr.harness_err or pr.model_err)[-800:],
                      {"obligation": "build of harness/model"}, found_input=False)
        return
    acc = Acc()
    res.notes["known_classes"] = KNOWN

    if replay:
        rp = json.load(open(replay))
        s = C.unhx(rp.get("input", "-"))
        if rp.get("theorem", "").endswith("_e2e"):
            check_e2e_annotations(res, acc, tier, random.Random(seed))
            check_e2e_descriptions(res, acc, tier, random.Random(seed))
            check_e2e_followers(res, acc, tier, random.Random(seed))
        elif rp.get("cmd", "description") == "annotation":
            check_annotations(res, acc, [s])
        else:
            check_descriptions(res, acc, [s])
        finish(res, pr, acc)
        return

    dlen = 6 if tier == "quick" else 8
    alen = 7 if tier == "quick" else 9
    res.coverage["exhaustive"] = True

    # description: in chunks of at most 8^6 strings (chunked by a fixed prefix in the thorough tier)
    if dlen <= 6:
        chunks = [list(C.all_strings(DESC_ALPHABET, dlen))]
    else:
        chunks = [list(C.all_strings(DESC_ALPHABET, 6))]
        pre = dlen - 6
        longer = [p for p in C.all_strings(DESC_ALPHABET, pre, minlen=1)]
        tails6 = [s for s in C.all_strings(DESC_ALPHABET, 6, minlen=6)]
        for p in longer:
            chunks.append([p + t for t in tails6])
    sample_out = None
    for ch in chunks:
        out = check_descriptions(res, acc, ch)
        if sample_out is None:
            sample_out = out
    for s in (b" a\n  a", b"(\n a\n)", b"a\r\n\ta", b"(a)", b" \n a", b"(\n()\n)"):
        if s in sample_out:
            res.sample({"cmd": "description", "input": s.decode("latin1"), "impl": "%s %r" % sample_out[s]})

    # annotation
    ains = list(C.all_strings(ANNOT_ALPHABET, alen))
    aout = check_annotations(res, acc, ains)
    for s in (b" a\t\ta ", b"a\r\na"):
        res.sample({"cmd": "annotation", "input": s.decode("latin1"), "impl": repr(aout[s])})

    check_descriptions(res, acc, LONG_SAMPLES)
    check_annotations(res, acc, LONG_SAMPLES)

    # the error message text as well (model constant err_apart vs jerr.ApartFromTheOpeningParenthesis)
    mins = list(C.all_strings(DESC_ALPHABET, 4)) + LONG_SAMPLES + UNICODE_SAMPLES
    ml = ["descriptionmsg " + C.hx(s) for s in mins]
    mimpl, mmodel = run_both(ml)
    res.count(len(ml))
    res.coverage["traces_validated_against_impl"] += len(ml)
    for s, i, m in zip(mins, mimpl, mmodel):
        if i != m:
            acc.corr_bad.append(("descriptionmsg", s, i, m))

    # non-ASCII white space
    check_descriptions(res, acc, UNICODE_SAMPLES)
    check_annotations(res, acc, UNICODE_SAMPLES)
    ub = [0x61, 0x20, 0xc2, 0xa0, 0x85, 0xe2, 0x80, 0x81, 0x9f, 0xe3, 0xe1, 0x9a, 0xa8]
    uins = list(C.all_strings(bytes(ub), 4 if tier == "quick" else 5))
    tl = ["trimspace " + C.hx(s) for s in uins]
    timpl, tmodel = run_both(tl)
    res.count(len(tl))
    res.coverage["traces_validated_against_impl"] += len(tl)
    for s, i, m in zip(uins, timpl, tmodel):
        if i != m:
            acc.corr_bad.append(("trimspace", s, i, m))
        if C.unhx(i) != go_trim_space(s):
            acc.spec_bad.append(("trim_space (Unicode white space)", "trimspace", s,
                                 "bytes.TrimSpace gives %r, the stated semantics %r" % (C.unhx(i), go_trim_space(s))))
        if C.unhx(i) != s:
            res.nontrivial((b"trimspace", s))

    rng = random.Random(seed)
    check_e2e_annotations(res, acc, tier, rng)
    check_e2e_descriptions(res, acc, tier, rng)
    check_e2e_followers(res, acc, tier, rng)
    fol = (res.notes.get("input_distribution") or {}).get("e2e_followers")
    res.notes["input_distribution"] = {
        "e2e_followers": fol,
        "end_to_end_annotation_documents": acc.n_e2e_annot, "end_to_end_description_documents": acc.n_e2e_desc,
        "description_inputs": sum(len(c) for c in chunks), "description_max_len": dlen,
        "annotation_inputs": len(ains), "annotation_max_len": alen, "trimspace_inputs": len(uins),
        "impl_verdicts": acc.dist, "normal_forms_checked_as_fixed_points": acc.n_fixed,
        "results_under_idempotence_guard": acc.n_guarded_idem, "bare_vs_parenthesised_pairs": acc.n_bare_paren,
        "known_class_sizes": {k: len(v) for k, v in acc.known.items()},
    }
    finish(res, pr, acc)


def finish(res, pr, acc):
    for k in KNOWN:
        hits = acc.known[k["id"]]
        if hits:
            s, d = min(hits, key=lambda x: (len(x[0]), x[0]))
            res.known.append("class=%s theorem=%s inputs=%d smallest: description(%r) = %r" % (
                k["id"], k["theorem"], len(hits), s.decode("latin1"), d.decode("latin1")))
    judge(res, pr, acc.corr_bad, acc.spec_bad)


def judge(res, pr, corr_bad, spec_bad):
    seen = {}
    for th, cmd, s, what in spec_bad:
        seen.setdefault(th, []).append((cmd, s, what))
    for th, items in seen.items():
        cmd, s, what = min(items, key=lambda x: (len(x[1]), x[1]))
        res.violation("%s(%r): %s  [statement %s, %d inputs]" % (cmd, s.decode("latin1"), what, th, len(items)),
                      {"cmd": cmd, "input": C.hx(s), "theorem": th, "expected": "statement holds on the implementation"})
    if spec_bad:
        return
    if not pr.proof_ok:
        res.violation("proof obligation no longer checks: %s" % pr.proof_err,
                      {"obligation": pr.proof_err, "theorems": pr.theorems}, found_input=False)
    if corr_bad:
        cmd, s, i, m = min(corr_bad, key=lambda x: (len(x[1]), x[1]))
        res.violation("model and implementation disagree on %s %r: impl=%s model=%s (%d disagreements); "
                      "the implementation satisfied the executable specification on every input tried" % (
                          cmd, s.decode("latin1"), i, m, len(corr_bad)),
                      {"correspondence": cmd, "cmd": cmd, "input": C.hx(s), "impl": i, "model": m}, found_input=False)
