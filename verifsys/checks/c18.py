"""C18 — Banned directives are really banned, and the option changes nothing else."""
import os
import json
import random

from .. import common as C
from .. import corecheck as K
from .. import proj as P
from .. import scancheck as S

J = "JSIGHT 0.3\n"

# a small valid document in which (almost) every directive kind occurs, written so that a kind can be
# located: kind index -> a line prefix that starts the directive
DOC = """JSIGHT 0.3
INFO
  Title "T"
  Version 1
  Description
    text
SERVER @s
  BaseUrl "http://x"
TAG @g
TYPE @t
{}
ENUM @e
[1,2]
MACRO @m
(
  404 any
)
URL /u
  Tags @g
  GET
    Query
    {}
    Request
      Headers
      {}
      Body any
    200 any
    PASTE @m
  POST /u/{id}
    Path
    {"id": 1}
    200 any
URL /rpc
  Protocol json-rpc-2.0
  Method foo
    Params
    {}
    Result
    {}
INCLUDE inc.jst
"""
INC = "TYPE @included\n{}\n"
KIND_PREFIX = {0: "JSIGHT", 1: "INFO", 2: "Title", 3: "Version", 4: "Description", 5: "SERVER", 6: "BaseUrl", 7: "URL", 8: "GET",
               9: "POST", 13: "Body", 14: "Request", 15: "200", 16: "Path", 17: "Headers", 18: "Query", 19: "TYPE", 20: "ENUM",
               21: "MACRO", 22: "PASTE", 23: "INCLUDE", 24: "Protocol", 25: "Method", 26: "Params", 27: "Result", 28: "TAG", 29: "Tags"}


def first_offset(text, prefix):
    pos = 0
    for line in text.split("\n"):
        st = line.lstrip()
        if prefix == "200":
            import re
            if re.match(r"[1-5][0-9][0-9]( |$)", st):
                return pos + (len(line) - len(st))
            pos += len(line) + 1
            continue
        if st.startswith(prefix) and (len(st) == len(prefix) or not st[len(prefix)].isalnum()):
            return pos + (len(line) - len(st))
        pos += len(line) + 1
    return None


def run(res, tier, seed, replay):
    pr = C.prepare("C18", res, need_gens=("tables", "scanner", "typing"))
    rng = random.Random(seed)
    quick = tier == "quick"
    res.coverage["rule"] = ("ban sets: all 30 singletons and sampled larger sets; documents: one reference document containing every "
                            "kind (directly, in a macro body, via PASTE, via INCLUDE), directive-kind sequences, fixtures; checked: "
                            "rejected with 'not allowed' at the first banned directive in scan order, nothing read for a banned "
                            "INCLUDE (same result whether the file exists), unchanged result when no banned kind occurs; "
                            "non-trivial = the ban set intersects the document's kinds")
    if not (pr.harness_ok and pr.model_ok):
        res.violation("build failed: " + (pr.harness_err or pr.model_err)[-800:], {"obligation": "build"}, found_input=False)
        return
    spec_bad, corr_bad = [], []
    base = [("main.jst", DOC), ("inc.jst", INC)]
    # --- 1. every singleton on the reference document
    cases = []
    for k in range(30):
        cases.append(("ban=%d" % k, base, [k]))
    for _ in range(40 if quick else 400):
        ks = sorted(rng.sample(range(30), rng.randint(2, 5)))
        cases.append(("ban=" + "+".join(map(str, ks)), base, ks))
        # ... and the same kinds in ONE call, written in descending and in a random order
        cases.append(("ban=" + "+".join(map(str, reversed(ks))), base, ks))
        sh_ = list(ks)
        rng.shuffle(sh_)
        cases.append(("ban=" + "+".join(map(str, sh_)), base, ks))
        # the same set given as one option call per kind, in both orders: the ban set is the union of the calls
        cases.append(("split,ban=" + "+".join(map(str, ks)), base, ks))
        cases.append(("split,ban=" + "+".join(map(str, reversed(ks))), base, ks))
    lines = [P.run_line(o + ",out=sha", pj) for o, pj, _ in cases]
    outs = C.run_sharded("harness", "fn", lines)
    ref = P.parse(C.run_lines("harness", "fn", [P.run_line("out=sha", base)])[0])
    res.count(len(lines) + 1)
    if ref[0] != "ok":
        spec_bad.append((base, "-", "the reference document is not accepted without bans: %s" % (ref,)))
    for (o, pj, ks), out in zip(cases, outs):
        st, d = P.parse(out)
        # the first banned directive in scan order (the included file is read where INCLUDE stands: last)
        offs = []
        for k in ks:
            if k in KIND_PREFIX:
                off = first_offset(DOC, KIND_PREFIX[k])
                if off is not None:
                    offs.append((off, "main.jst", k))
        if 19 in ks and 23 not in ks:
            pass  # TYPE occurs in main.jst before the include anyway
        if not offs:
            # no banned kind occurs: the option must change nothing
            if (st, d.get("sha")) != (ref[0], ref[1].get("sha")):
                spec_bad.append((pj, o, "no banned kind occurs but the result differs from the result without the option: %s" % out[:200]))
            continue
        res.nontrivial((o,))
        off, f, k = min(offs)
        msg = C.unhx(d.get("msg", "-")).decode("latin1") if st == "err" else ""
        if st != "err" or "directive not allowed" not in msg:
            spec_bad.append((pj, o, "a directive of banned kind %d occurs but the project is not rejected as not allowed: %s %s" % (k, st, msg[:80])))
        elif int(d["idx"]) != off or C.unhx(d["file"]).decode() != f:
            spec_bad.append((pj, o, "'not allowed' is located at %s:%s, the first banned directive is at %s:%d" % (C.unhx(d["file"]).decode(), d["idx"], f, off)))
    # --- 2. banned kind only inside a never-pasted macro / only in an included file / only via paste
    special = [
        ("ban=15", [("main.jst", J + "MACRO @never\n(\n  200 any\n)\nGET /a\n  404 any\n")], "main.jst", len(J + "MACRO @never\n(\n  ")),
        ("ban=19", [("main.jst", J + "GET /a\n  200 any\nINCLUDE x.jst\n"), ("x.jst", "TYPE @t\n{}\n")], "x.jst", 0),
        ("ban=13", [("main.jst", J + "MACRO @m\n(\n  Body any\n)\nGET /a\n  200\n    PASTE @m\n")], "main.jst", len(J + "MACRO @m\n(\n  ")),
        ("ban=21", [("main.jst", J + "MACRO @m\n(\n  200 any\n)\nGET /a\n  PASTE @m\n")], "main.jst", len(J)),
        ("ban=22", [("main.jst", J + "MACRO @m\n(\n  200 any\n)\nGET /a\n  PASTE @m\n")], "main.jst", len(J + "MACRO @m\n(\n  200 any\n)\nGET /a\n  ")),
        # refused when it is READ: before its own parameters are looked at and before a following INCLUDE is executed
        ("ban=21", [("main.jst", J + "MACRO @m\nINCLUDE missing.jst\n")], "main.jst", len(J)),
        ("ban=19", [("main.jst", J + "TYPE @a @a\n{}\n")], "main.jst", len(J)),
        ("ban=19", [("main.jst", J + "TYPE @a\nINCLUDE broken.jst\n"), ("broken.jst", "%%%\n")], "main.jst", len(J)),
        ("ban=7", [("main.jst", J + "URL\nINCLUDE missing.jst\n")], "main.jst", len(J)),
        ("ban=8", [("main.jst", J + "URL /a\n  GET x y z\n")], "main.jst", len(J + "URL /a\n  ")),
        ("ban=15", [("main.jst", J + "GET /a\n  200 any any\n")], "main.jst", len(J + "GET /a\n  ")),
        # the kinds that never reach the catalog builder (MACRO, PASTE) and directives of a never-pasted macro, in an INCLUDED
        # file (one and two levels down): refused where they are read, in that file
        ("ban=21", [("main.jst", J + "GET /a\n  200 any\nINCLUDE x.jst\n"), ("x.jst", "MACRO @m\n(\n  404 any\n)\n")], "x.jst", 0),
        ("ban=22", [("main.jst", J + "MACRO @m\n(\n  404 any\n)\nGET /a\n  200 any\n  INCLUDE x.jst\n"), ("x.jst", "PASTE @m\n")], "x.jst", 0),
        ("ban=22", [("main.jst", J + "GET /a\n  200 any\n  INCLUDE x.jst\n"), ("x.jst", "PASTE @nowhere\n")], "x.jst", 0),
        ("ban=15", [("main.jst", J + "TYPE @q\n{}\nINCLUDE x.jst\n"), ("x.jst", "MACRO @never\n(\n  200 any\n)\n")], "x.jst", len("MACRO @never\n(\n  ")),
        ("ban=17", [("main.jst", J + "GET /a\n  404 any\nINCLUDE d/x.jst\n"), ("d/x.jst", "INCLUDE y.jst\n"), ("d/y.jst", "MACRO @never\n(\n  Headers\n    {}\n)\n")],
         "d/y.jst", len("MACRO @never\n(\n  ")),
        ("ban=21", [("main.jst", J + "INCLUDE d/x.jst\nGET /a\n  200 any\n"), ("d/x.jst", "INCLUDE y.jst\n"), ("d/y.jst", "TYPE @t\n{}\nMACRO @m\n(\n  404 any\n)\n")],
         "d/y.jst", len("TYPE @t\n{}\n")),
        # another fault later in the project does not win over the ban
        ("ban=17", [("main.jst", J + "MACRO @never\n(\n  Headers\n    {}\n)\nGET /a\n  PASTE @nowhere\n")], "main.jst", len(J + "MACRO @never\n(\n  ")),
        ("ban=19", [("main.jst", J + "TYPE @a\n{}\nTYPE @a\n{}\n")], "main.jst", len(J)),
        ("ban=28", [("main.jst", J + "INCLUDE x.jst\nINCLUDE missing.jst\n"), ("x.jst", "TAG @t\n")], "x.jst", 0),
    ]
    outs = C.run_lines("harness", "fn", [P.run_line(o, pj) for o, pj, _, _ in special])
    res.count(len(special))
    for (o, pj, f, off), out in zip(special, outs):
        st, d = P.parse(out)
        msg = C.unhx(d.get("msg", "-")).decode("latin1") if st == "err" else ""
        res.nontrivial((o, pj[0][1]))
        if st != "err" or "directive not allowed" not in msg or int(d["idx"]) != off or C.unhx(d["file"]).decode() != f:
            spec_bad.append((pj, o, "expected 'not allowed' at %s:%d, got %s %s at %s:%s" % (f, off, st, msg[:60], C.unhx(d.get("file", "-")).decode(), d.get("idx"))))
    # --- 2b. an option value shared by two projects: the second one (option A only) gives what a fresh option A gives, whatever
    # the first project combined the value with
    docs_s = [J + "MACRO @m\n(\n  200 any\n)\nGET /a\n  PASTE @m\n", J + "TYPE @t\n{}\nGET /a\n  200 @t\n", J + "TAG @g\nGET /a\n  Tags @g\n  200 any\n",
              J + "GET /a\n  200 any\n"]
    sh_lines, sh_meta = [], []
    for d1 in docs_s:
        for d2 in docs_s:
            for ka, kb in (("23", "21+22"), ("23", "19"), ("28", "29+21"), ("5", "8"), ("23", "15")):
                sh_lines.append("banshare %s %s %s %s" % (C.hx(d1.encode()), C.hx(d2.encode()), ka, kb))
                sh_meta.append((d1, d2, ka, kb))
    sh_out = C.run_lines("harness", "fn", sh_lines)
    res.count(len(sh_lines))
    for (d1, d2, ka, kb), o in zip(sh_meta, sh_out):
        if not o.startswith("same "):
            spec_bad.append(([("main.jst", d2)], "ban=" + ka, "an option value banning %s was first combined with a ban of %s in another project; the project that gets the value "
                             "alone no longer gives the result of a fresh option: %s" % (ka, kb, o[:260])))
            break
        res.nontrivial(("banshare", d1, d2, ka, kb))
    # --- 3. INCLUDE banned: nothing it names is read: the result cannot depend on the file
    variants = [
        [("main.jst", J + "INCLUDE x.jst\n"), ("x.jst", "TYPE @t\n{}\n")],
        [("main.jst", J + "INCLUDE x.jst\n")],
        [("main.jst", J + "INCLUDE x.jst\n"), ("x.jst/", "")],
        [("main.jst", J + "INCLUDE x.jst\n"), ("x.jst", "\x00garbage")],
        [("main.jst", J + "INCLUDE ../../etc/passwd\n")],
    ]
    outs = C.run_lines("harness", "fn", [P.run_line("ban=23", pj) for pj in variants])
    res.count(len(variants))
    keyed = set()
    for pj, out in zip(variants, outs):
        st, d = P.parse(out)
        msg = C.unhx(d.get("msg", "-")).decode("latin1") if st == "err" else ""
        keyed.add((st, d.get("idx"), msg))
        res.nontrivial(("inc", tuple(pj)))
        if st != "err" or "directive not allowed (INCLUDE)" not in msg:
            spec_bad.append((pj, "ban=23", "INCLUDE is banned but the outcome is %s %s" % (st, msg[:80])))
    if len(keyed) > 1:
        spec_bad.append((variants[0], "ban=23", "with INCLUDE banned the outcome depends on the named file: %r" % (sorted(keyed),)))
    # --- 4. model correspondence at the scan stage with bans, on directive sequences
    seqs = []
    nesty = [7, 8, 9, "P8", 15, 14, 13, 17, 4, 18, 16, 29, 21, 22, 1, 2, 5, 6, 25, 24, 26, 28, 19, 20]
    projs, opts = [], []
    for _ in range(1200 if quick else 20000):
        n = rng.randint(2, 8)
        s = [0] + [rng.choice(nesty) for _ in range(n)]
        ks = rng.sample(range(30), rng.randint(1, 3))
        seqs.append((s, ks))
    by_opt = {}
    for s, ks in seqs:
        by_opt.setdefault("stage=scan,ban=" + "+".join(map(str, sorted(ks))), []).append([("a.jst", K.render_items(s))])
    n_corr = 0
    for o, pjs in by_opt.items():
        ni, nm, mism = K.compare(pjs, o)
        n_corr += len(pjs)
        for k in mism:
            corr_bad.append((pjs[k], o, ni[k][:6] if ni[k][0] == "err" else ("ok",), nm[k][:6] if nm[k][0] == "err" else ("ok",)))
    res.count(n_corr)
    res.coverage["traces_validated_against_impl"] = n_corr
    # --- 5. conservativity on fixtures: a ban of a kind that does not occur changes nothing
    files = [f for f in S.fixture_files()]          # accepted AND rejected documents: the diagnostic must stay what it is too
    sample = rng.sample(files, min(len(files), 120 if quick else 900))
    l0, l1, meta = [], [], []
    for f in sample:
        t = open(f, "rb").read()
        if b"INCLUDE" in t:
            continue
        # absent = the keyword does not occur ANYWHERE in the text (a directive may start after a block comment on its line)
        absent = [k for k, p in KIND_PREFIX.items() if p.strip() not in t.decode("latin1") and k not in (15,)]
        if not absent:
            continue
        ks = rng.sample(absent, min(len(absent), 3))
        l0.append(P.run_line("out=sha", [("a.jst", t)]))
        l1.append(P.run_line("out=sha,ban=" + "+".join(map(str, ks)), [("a.jst", t)]))
        meta.append((f, ks))
    # the TEXT of a banned keyword standing where no keyword is read (a parameter, a method name, a one-token body, a
    # description line, a comment): nothing is banned there; and rejected projects without any banned kind
    words = [("23", "INFO\n  Title INCLUDE\n"), ("27", "URL /r\n  Protocol json-rpc-2.0\n  Method Result\n"), ("8", "URL /r\n  Protocol json-rpc-2.0\n  Method GET\n"),
             ("15", "TYPE @code\n  200\nGET /a\n  404 any\n".replace("404 any", "Request any")), ("21", "GET /a // MACRO of sorts\n  Query MACRO\n    {}\n  200 any\n"),
             ("22", "INFO\n  Title \"t\"\n  Description\n    use PASTE here\nGET /a\n  200 any # PASTE\n"), ("28", "SERVER @s\n  BaseUrl TAG\n"),
             ("21", "GET /a\n  PASTE @common\n  200 any\n"), ("21", "PASTE\n"), ("22", "MACRO @m\n(\n  200 any\n)\nMACRO @m\n(\n  404 any\n)\n"),
             ("21+22", "GET /a\n  200 @nowhere\n"), ("23", "GET /a\n  200 any\nGET /a\n  200 any\n"), ("19", "GET /a\n  200 @t\n"), ("20", "TYPE @t\n  {\n    \"k\": 1 // {enum: @e}\n  }\n")]
    for ks_, body_ in words:
        t_ = (J + body_).encode()
        l0.append(P.run_line("out=sha", [("a.jst", t_)]))
        l1.append(P.run_line("out=sha,ban=" + ks_, [("a.jst", t_)]))
        meta.append(("(generated) " + body_[:60].replace("\n", " / "), ks_))
    o0 = C.run_sharded("harness", "fn", l0)
    o1 = C.run_sharded("harness", "fn", l1)
    res.count(len(l0) * 2)
    for (f, ks), a, b in zip(meta, o0, o1):
        if a != b:
            spec_bad.append(([("a.jst", open(f, "rb").read() if os.path.exists(f) else f.encode())], "ban=%s" % ks, "banning kinds %s that do not occur changes the result of %s: %s -> %s" % (ks, f, a[:80], b[:80])))
    res.notes["input_distribution"] = {"ban_sets_on_reference_doc": len(cases), "special_placements": len(special),
                                       "include_variants": len(variants), "sequence_projects": n_corr, "fixtures": len(l0)}
    res.sample({"opts": cases[3][0], "outcome": outs[0][:100]})
    res.sample({"reference_document": DOC[:300]})

    for pj, o, why in spec_bad[:5]:
        res.violation("ban option: %s" % why, {"opts": o, "project": [(C.hx(n), C.hx(c)) for n, c in pj], "why": why})
    if spec_bad:
        return
    if not pr.proof_ok:
        res.violation("proof obligation no longer checks: %s" % pr.proof_err, {"obligation": pr.proof_err, "theorems": pr.theorems}, found_input=False)
    if corr_bad:
        pj, o, a, b = corr_bad[0]
        res.violation("core model and implementation disagree under %s (%d disagreements): impl=%r model=%r" % (o, len(corr_bad), a, b),
                      {"correspondence": "project scan with bans", "opts": o, "project": [(C.hx(n), C.hx(c)) for n, c in pj]}, found_input=False)
