"""C04 - Catalog faithfulness: the catalog says exactly what the document declares.

Obligations: props/C04.v (on the catalog model: the collections list exactly the declaring directives of the expanded
forest, in source order, each interaction under the id made of its protocol, method and inherited path).
Exploration: abstract API models are generated first and rendered to text second, so what the catalog must contain is
known independently of the implementation (gendoc.expect.catalog_of); every rendering must be accepted and the skeleton
of the implementation's JSON (info, servers, types, enums, tags, interactions with path, method, annotation, description,
query, request, responses with code/body/headers/format/notation, params, result; in order) must equal the expectation.
The catalog model (Coq, extracted) is run on the same documents and must give the same skeleton."""
import json
import random

from .. import common as C
from .. import corecheck as K
from .. import genprop as GP


def take(prop, cls):
    return prop in ("skeleton", "acceptance")


def run(res, tier, seed, replay):
    pr = C.prepare("C04", res, need_gens=("tables", "scanner", "typing", "tagname"))
    res.coverage["rule"] = ("generated abstract API models (any number and mix of declarations, URL blocks and path-bearing methods, all four "
                            "schema notations, type references and arrays of references, JSON-RPC) rendered canonically and, permuted, again; "
                            "compared: acceptance and the catalog skeleton expected from the MODEL against the skeleton of the implementation's "
                            "JSON; the extracted Coq catalog model is run on the same documents; non-trivial = every generated model; distinct by model")
    if not (pr.harness_ok and pr.model_ok):
        res.violation("build failed: " + (pr.harness_err or pr.model_err)[-800:], {"obligation": "build"}, found_input=False)
        return
    last, bad = GP.run(res, "C04", tier, seed, replay, pr, take)
    for msg, rp, found in bad:
        res.violation("the catalog is not what the document declares: " + msg, rp, found_input=found)
    if bad:
        return
    # the Coq catalog model on the same documents (canonical rendering of every model)
    from ..gendoc.model import ApiModel
    from ..gendoc.render import render, canonical_plan
    projects = []
    for s, mj in list((last.get("models") or {}).items())[: (120 if tier == "quick" else 1200)]:
        m = ApiModel.from_json(json.dumps(mj))
        files = render(m, canonical_plan())
        root = "main.jst" if "main.jst" in files else sorted(files)[0]
        projects.append([(root, files[root])] + [(n, c) for n, c in files.items() if n != root])
    # the same documents with the Protocol directive written LAST among the children of its URL (it may stand anywhere)
    moved = []
    for pj in projects:
        t = pj[0][1].decode("utf-8", "replace")
        if "\n  Protocol json-rpc-2.0\n" not in t:
            continue
        import re as _re
        top = _re.compile(r"^(JSIGHT|INFO|URL|GET|POST|PUT|PATCH|DELETE|TYPE|ENUM|SERVER|TAG|MACRO|PASTE|INCLUDE)(?= |$)")
        lines = t.split("\n")
        out, i = [], 0
        while i < len(lines):
            if not lines[i].startswith("URL "):
                out.append(lines[i])
                i += 1
                continue
            j = i + 1
            while j < len(lines) and not top.match(lines[j]):
                j += 1
            blk = lines[i:j]
            if "  Protocol json-rpc-2.0" in blk:
                blk.remove("  Protocol json-rpc-2.0")
                k = len(blk)
                while k > 1 and blk[k - 1].strip() == "":
                    k -= 1
                blk[k:k] = ["  Protocol json-rpc-2.0"]
            out += blk
            i = j
        moved.append((pj, [(pj[0][0], "\n".join(out).encode("utf-8"))] + pj[1:]))
    if moved:
        from .. import proj as P
        a = C.run_sharded("harness", "fn", [P.run_line("out=json", x) for x, _ in moved])
        b = C.run_sharded("harness", "fn", [P.run_line("out=json", y) for _, y in moved])

        def sans_examples(d):
            # the example of a regex type depends on how often the shared generator was used before: not a declaration
            def rec(o):
                if isinstance(o, dict):
                    return {k: rec(v) for k, v in o.items() if k != "example"}
                if isinstance(o, list):
                    return [rec(v) for v in o]
                return o
            try:
                return json.dumps(rec(json.loads(C.unhx(d.get("json", "")))))
            except Exception:
                return d.get("json")
        res.count(2 * len(moved))
        res.notes["protocol_written_last"] = len(moved)
        for (x, y), oa, ob in zip(moved, a, b):
            sa, da = P.parse(oa)
            sb, db = P.parse(ob)
            if sa == "ok" and (sb != "ok" or sans_examples(da) != sans_examples(db)):
                res.violation("the catalog is not what the document declares: with the Protocol directive written after the methods of its URL the result "
                              "changes: %s" % (ob[:200] if sb != "ok" else "accepted with a different catalog"),
                              {"project": [(C.hx(n), C.hx(c)) for n, c in y], "original": [(C.hx(n), C.hx(c)) for n, c in x]})
                return
    recs = K.compare_full(projects, "out=both")
    res.count(2 * len(projects))
    res.coverage["traces_validated_against_impl"] += len(projects)
    kinds = {}
    for r in recs:
        kinds[r["kind"]] = kinds.get(r["kind"], 0) + 1
    res.notes["catalog_model_correspondence"] = kinds
    diffs = [(pj, r) for pj, r in zip(projects, recs) if r["kind"] not in ("same", "library")]
    if diffs and pr.proof_ok:
        pj, r = diffs[0]
        res.violation("catalog model and implementation disagree on a generated document (%s, %d disagreements): %s" % (
            r["kind"], len(diffs), str(r.get("first_diff"))[:400]),
            {"correspondence": "catalog skeleton", "project": [(C.hx(n), C.hx(c)) for n, c in pj]}, found_input=False)
        return
    if not pr.proof_ok:
        res.violation("proof obligation no longer checks: %s" % pr.proof_err, {"obligation": pr.proof_err, "theorems": pr.theorems}, found_input=False)
