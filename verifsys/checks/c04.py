"""C04 - Catalog faithfulness: the catalog says exactly what the document declares.

Obligations: props/C04.v (on the catalog model: the collections list exactly the declaring directives of the expanded
forest, in source order, each interaction under the id made of its protocol, method and inherited path).
Exploration: abstract API models are generated first and rendered to text second, so what the catalog must contain is
known independently of the implementation (gendoc.expect.catalog_of); every rendering must be accepted and the skeleton
of the implementation's JSON (info, servers, types, enums, tags, interactions with path, method, annotation, description,
query, request, responses with code/body/headers/format/notation, params, result; in order) must equal the expectation.
The catalog model (Coq, extracted) is run on the same documents and must give the same skeleton."""
import json
import random

from .. import common as C
from .. import corecheck as K
from .. import genprop as GP


def take(prop, cls):
    return prop in ("skeleton", "acceptance")


def run(res, tier, seed, replay):
    pr = C.prepare("C04", res, need_gens=("tables", "scanner", "typing", "tagname"))
    res.coverage["rule"] = ("generated abstract API models (any number and mix of declarations, URL blocks and path-bearing methods, all four "
                            "schema notations, type references and arrays of references, JSON-RPC) rendered canonically and, permuted, again; "
                            "compared: acceptance and the catalog skeleton expected from the MODEL against the skeleton of the implementation's "
                            "JSON; the extracted Coq catalog model is run on the same documents; non-trivial = every generated model; distinct by model")
    if not (pr.harness_ok and pr.model_ok):
        res.violation("build failed: " + (pr.harness_err or pr.model_err)[-800:], {"obligation": "build"}, found_input=False)
        return
    last, bad = GP.run(res, "C04", tier, seed, replay, pr, take)
    for msg, rp, found in bad:
        res.violation("the catalog is not what the document declares: " + msg, rp, found_input=found)
    if bad:
        return
    # the Coq catalog model on the same documents (canonical rendering of every model)
    from ..gendoc.model import ApiModel
    from ..gendoc.render import render, canonical_plan
    projects = []
    for s, mj in list((last.get("models") or {}).items())[: (60 if tier == "quick" else 600)]:
        m = ApiModel.from_json(json.dumps(mj))
        files = render(m, canonical_plan())
        root = "main.jst" if "main.jst" in files else sorted(files)[0]
        projects.append([(root, files[root])] + [(n, c) for n, c in files.items() if n != root])
    recs = K.compare_full(projects, "out=both")
    res.count(2 * len(projects))
    res.coverage["traces_validated_against_impl"] += len(projects)
    kinds = {}
    for r in recs:
        kinds[r["kind"]] = kinds.get(r["kind"], 0) + 1
    res.notes["catalog_model_correspondence"] = kinds
    diffs = [(pj, r) for pj, r in zip(projects, recs) if r["kind"] not in ("same", "library")]
    if diffs and pr.proof_ok:
        pj, r = diffs[0]
        res.violation("catalog model and implementation disagree on a generated document (%s, %d disagreements): %s" % (
            r["kind"], len(diffs), str(r.get("first_diff"))[:400]),
            {"correspondence": "catalog skeleton", "project": [(C.hx(n), C.hx(c)) for n, c in pj]}, found_input=False)
        return
    if not pr.proof_ok:
        res.violation("proof obligation no longer checks: %s" % pr.proof_err, {"obligation": pr.proof_err, "theorems": pr.theorems}, found_input=False)
