"""C02 — Every diagnostic is well located.  This module decides the ARITHMETIC part:
jerr.NewLocation(file, index) (DetectNewLineSymbol, LineBeginning, LineNumber, LineEnd, quote)
is total for every index inside the file and its line number / quoted source line agree with
the index.

static part : coq/props/C02.v (model coq/model/Jerr.v, spec coq/spec/JerrSpec.v, proofs
              coq/proofs/JerrProofs.v), every theorem closed under the global context.
dynamic part: (a) correspondence of the extracted model with the implementation on EVERY content
              over {a, space, tab, CR, LF} up to the length bound x EVERY index 0..len+1, plus
              long lines around the 200-byte truncation rule;
              (b) an independent Python statement of the property evaluated on the
              implementation's output for every index inside the file.
Index len+1 (outside the file) panics in the implementation and in the model alike
(theorem location_panics_beyond_end); it is outside the domain of the arithmetic and is the
obligation of the callers (the other half of C02: "its byte index is within that file")."""
import json
import re

from .. import common as C

ALPHABET = b"a \t\r\n"
BLANK = b" \t\r\n"
NL_RUN = re.compile(rb"[\r\n]+")


# ---- independent executable statement of the property ----------------------------------------

def spec_detect_nl(s: bytes) -> int:
    """'\\n' unless the content has a CR/LF byte; then the last byte of the first CR/LF run"""
    m = NL_RUN.search(s)
    return m.group()[-1] if m else 10


def spec_line(s: bytes, i: int, nl: int) -> int:
    """1 + number of newline symbols before the index"""
    return 1 + s[:i].count(bytes([nl]))


def spec_segment(s: bytes, i: int, nl: int):
    """(start, end) of the line containing index i (0 <= i <= len): after the last newline
    symbol before i, up to the first newline symbol at or after i, without the CR of CR LF
    (resp. the LF of LF CR)"""
    nlb = bytes([nl])
    start = s.rfind(nlb, 0, i) + 1
    end = s.find(nlb, i)
    if end < 0:
        end = len(s)
    other = 13 if nl == 10 else 10
    if end > 0 and s[end - 1] == other:
        end -= 1
    return start, end


def spec_quote_ok(s: bytes, i: int, nl: int, q: bytes):
    """quote = the line containing the index, left-trimmed; > 200 bytes: first 197 bytes, trimmed, + '...'.
    Returns (ok, blank_verbatim)"""
    start, end = spec_segment(s, i, nl)
    if not (start <= end <= len(s)):
        return False, False
    seg = s[start:end]
    suffix = b""
    if len(seg) > 200:
        seg = seg[:197]
        suffix = b"..."
    if not q.endswith(suffix):
        return False, False
    body = q[:len(q) - len(suffix)] if suffix else q
    trimmed = seg.lstrip(BLANK)
    if body == trimmed:
        # the quote is a piece of the content without any newline symbol
        return (bytes([nl]) not in body) and (body in s), False
    if trimmed == b"" and body == seg:
        # library quirk, modelled and proved (trim_spaces_from_left_spec): an all-blank line is
        # quoted verbatim.  Still the line the index is in.
        return (bytes([nl]) not in body), True
    return False, False


def parse(out):
    m = re.fullmatch(r"line (\d+) quote (\S+)", out)
    if not m:
        return None
    return int(m.group(1)), C.unhx(m.group(2))


# ---- inputs ------------------------------------------------------------------------------------

def long_contents(tier):
    """lines around the 200-byte truncation rule"""
    out = []
    lengths = (196, 197, 199, 200, 201, 203, 250) if tier == "quick" else (196, 197, 198, 199, 200, 201, 202, 203, 204, 250, 400)
    leads = (0, 3) if tier == "quick" else (0, 1, 3, 5)
    for L in lengths:
        for k in leads:
            for lead in (b" ", b"\t"):
                if k == 0 and lead == b"\t":
                    continue
                line = lead * k + b"x" * (L - k)
                for eol in (b"", b"\n", b"\r\n", b"\r", b"\n\r"):
                    for pre in (b"", b"ab" + (eol or b"\n") + b"  cd" + (eol or b"\n")):
                        out.append(pre + line + eol + (b"tail" if eol else b""))
    out.append(b" " * 300)
    out.append(b" " * 300 + b"\n" + b"\t" * 205 + b"z")
    out.append(b"a\n" + b" " * 199 + b"\r\n")
    return out


def long_indices(s):
    n = len(s)
    cand = {0, 1, 2, 5, 6, 7, 8, 9, 10, 11, n // 2, n - 5, n - 4, n - 3, n - 2, n - 1, n, n + 1}
    for m in NL_RUN.finditer(s):
        cand.update((m.start() - 1, m.start(), m.end() - 1, m.end()))
    return sorted(i for i in cand if 0 <= i <= n + 1)


# ---- the check ---------------------------------------------------------------------------------

def run(res, tier, seed, replay):
    pr = C.prepare("C02", res)
    res.coverage["rule"] = ("location arithmetic: every content over {a,space,tab,CR,LF} up to the length bound "
                            "x every index 0..len+1 (exhaustive), plus long lines around the 200-byte truncation "
                            "rule; non-trivial = (content, index) with index inside the file and a CR/LF or blank "
                            "byte in the content")
    if not (pr.harness_ok and pr.model_ok):
        res.violation("build failed: " + (pr.harness_err or pr.model_err)[-800:],
                      {"obligation": "build of harness/model"}, found_input=False)
        return
    maxlen = 6 if tier == "quick" else 8
    cases = []
    if replay:
        rp = json.load(open(replay))
        cases = [(C.unhx(rp.get("content", "-")), int(rp.get("index", 0)))]
    else:
        for s in C.all_strings(ALPHABET, maxlen):
            for i in range(len(s) + 2):
                cases.append((s, i))
        n_short = len(cases)
        for s in long_contents(tier):
            for i in long_indices(s):
                cases.append((s, i))
    lines = ["location %s %d" % (C.hx(s), i) for s, i in cases]
    # the long lines are run on their own so that they are spread over all shards
    n_cut = len(lines) if replay else n_short
    impl = C.run_sharded("harness", "fn", lines[:n_cut])
    model = C.run_sharded("modelrun", None, lines[:n_cut])
    if n_cut < len(lines):
        impl += C.run_sharded("harness", "fn", lines[n_cut:])
        model += C.run_sharded("modelrun", None, lines[n_cut:])
    res.count(len(lines))
    res.coverage["exhaustive"] = not replay
    res.coverage["traces_validated_against_impl"] = len(lines)

    corr_bad = []      # (content, index, impl, model)
    spec_bad = []      # (content, index, impl, why)
    dist = {"ok": 0, "panic_beyond_end": 0, "blank_line_quoted_verbatim": 0, "truncated": 0}
    for (s, i), out, mo in zip(cases, impl, model):
        if out != mo:
            corr_bad.append((s, i, out, mo))
        if i > len(s):
            # outside the file: not in the domain of the arithmetic (callers' obligation)
            if out == "panic":
                dist["panic_beyond_end"] += 1
            continue
        if any(c in BLANK for c in s):
            res.nontrivial((s, i))
        if out == "panic":
            spec_bad.append((s, i, out, "panics for an index inside the file (0 <= index <= len)"))
            continue
        p = parse(out)
        if p is None:
            spec_bad.append((s, i, out, "unparsable harness output"))
            continue
        line, q = p
        nl = spec_detect_nl(s)
        want = spec_line(s, i, nl)
        if line != want:
            spec_bad.append((s, i, out, "line number %d, but there are %d newline symbols (0x%02x) before the index: expected line %d"
                             % (line, want - 1, nl, want)))
            continue
        ok, verbatim = spec_quote_ok(s, i, nl, q)
        if not ok:
            a, b = spec_segment(s, i, nl)
            spec_bad.append((s, i, out, "quote %r is not the (trimmed, cut to 200) line %r that contains the index" % (q, s[a:b][:220])))
            continue
        dist["ok"] += 1
        if verbatim:
            dist["blank_line_quoted_verbatim"] += 1
        if q.endswith(b"...") and len(q) > 100:
            dist["truncated"] += 1

    # DetectNewLineSymbol on its own
    if not replay:
        dn = list(C.all_strings(ALPHABET, maxlen))
        dlines = ["detectnl " + C.hx(s) for s in dn]
        dimpl = C.run_sharded("harness", "fn", dlines)
        dmodel = C.run_sharded("modelrun", None, dlines)
        res.count(len(dlines))
        res.coverage["traces_validated_against_impl"] += len(dlines)
        for s, a, b in zip(dn, dimpl, dmodel):
            if a != b:
                corr_bad.append((s, -1, a, b))
            if a != str(spec_detect_nl(s)):
                spec_bad.append((s, 0, a, "DetectNewLineSymbol = %s, expected %d" % (a, spec_detect_nl(s))))
        k = min(len(cases) - 1, 5003)
        res.sample({"content": cases[k][0].decode("latin1"), "index": cases[k][1], "impl": impl[k], "model": model[k]})
        res.sample({"content": cases[n_short + 7][0][:40].decode("latin1") + "...", "index": cases[n_short + 7][1],
                    "impl": impl[n_short + 7][:60] + "..."})
    res.notes["input_distribution"] = {"cases": len(cases), "max_len_exhaustive": maxlen, "outcomes": dist}
    e2e_bad = [] if replay and "project" not in rp else project_stage(res, tier, seed, rp if replay else None)
    for what, pj, o in e2e_bad[:3]:
        res.violation("rejected project: %s" % what, {"project": [(C.hx(n), C.hx(c)) for n, c in pj], "outcome": o[:300]})
    if e2e_bad:
        return
    judge(res, pr, corr_bad, spec_bad)


def include_chains(rng, quick):
    """main -> f1 -> ... -> fk, ONE INCLUDE per file (more than one per file is the recorded finding C02/stale-include-tracer),
    a duplicate TYPE in one file of the chain, before or after that file's own INCLUDE; the expected location and include
    trace are computed here from the layout"""
    out = []
    for k in (1, 2, 3, 4):
        for j in range(1, k + 1):
            for after in (False, True):
                for variant in range(4 if quick else 8):
                    names = ["main.jst"] + [("d%d/" % i if (i + variant) % 2 else "") + "f%d.jst" % i for i in range(1, k + 1)]
                    if variant == 2:
                        # every included file has the SAME base name, one directory deeper each time
                        names = ["main.jst"] + ["/".join("n%d" % x for x in range(1, i + 1)) + "/index.jst" for i in range(1, k + 1)]
                    files, inc_line = [], {}
                    for i in range(k + 1):
                        lines = ["JSIGHT 0.3", "TYPE @dup", "  {}"] if i == 0 else []
                        pad1 = ["GET /p%d_%d" % (i, x) for x in range(rng.randint(0, 2))]
                        pad1 = [y for g in pad1 for y in (g, "  200 any")]
                        fault = ["TYPE @dup", "  {}"] if i == j else []
                        inc = []
                        if i < k:
                            # the INCLUDE name is relative to the including file's directory
                            here = names[i].rsplit("/", 1)[0] + "/" if "/" in names[i] else ""
                            target = names[i + 1]
                            rel = target[len(here):] if here and target.startswith(here) else None
                            if rel is None and here:
                                # a sibling directory cannot be named without '..': keep the chain inside this directory
                                names[i + 1] = here + names[i + 1].split("/")[-1]
                                rel = names[i + 1][len(here):]
                            inc = ["INCLUDE " + (rel if rel is not None else target)]
                        body = lines + pad1 + ((inc + fault) if after else (fault + inc))
                        if i == j:
                            fl = body.index("TYPE @dup", 1 if i == 0 else 0) + 1
                        if inc:
                            inc_line[i] = body.index(inc[0]) + 1
                        # line ends: LF, but CR alone in variant 1 and CR LF in variant 3 (the lines of an include chain are counted
                        # in the INCLUDING files)
                        nl_ = {1: "\r", 3: "\r\n"}.get(variant, "\n")
                        files.append((names[i], (nl_.join(body) + nl_).encode()))
                    if not after and j < k:
                        # the fault stands BEFORE this file's INCLUDE: the first @dup is still main's, the diagnostic is here
                        pass
                    trace = ";".join("%s:%d" % (names[i], inc_line[i]) for i in range(j - 1, -1, -1))
                    out.append((files, ("trace", names[j], fl, trace)))
                    # the LAST file of the chain exists but cannot be read (a socket: not a directory, os.Stat succeeds, reading
                    # fails): a fault of the INCLUDE directive in f_(k-1), reached through the includes that lead to f_(k-1) -
                    # the INCLUDE that failed is not part of its own trace
                    if j == k and not after and variant in (0, 2):
                        files4 = [(nm, c_) for nm, c_ in files[:-1]] + [(names[k] + "@@socket", b"")]
                        tr4 = ";".join("%s:%d" % (names[i], inc_line[i]) for i in range(k - 2, -1, -1))
                        out.append((files4, ("trace4", names[k - 1], inc_line[k - 1], tr4)))
                    # a directive that cannot stand where it is, written directly BEFORE the INCLUDE of file f_m (m < k): it is
                    # a fault of f_m, reached through the includes that lead to f_m - not through f_m's own INCLUDE
                    if not after and variant == 0:
                        for m in range(0, k):
                            files2 = []
                            for (nm, content) in files:
                                if nm == names[m]:
                                    ls = content.decode().split("\n")
                                    at = inc_line[m] - 1
                                    ls[at:at] = ["Version 1"]
                                    files2.append((nm, "\n".join(ls).encode()))
                                    wl = at + 1
                                else:
                                    files2.append((nm, content))
                            tr2 = ";".join("%s:%d" % (names[i], inc_line[i] + (1 if i == m else 0)) for i in range(m - 1, -1, -1))
                            out.append((files2, ("trace2", names[m], wl, tr2)))
                    # a parenthesis left open at the END of file f_j (after its own INCLUDE, if it has one): the diagnostic is
                    # raised when that file's scanner is drained; it is a fault of f_j at its end, reached through the chain
                    if after and variant == 0:
                        files3 = []
                        for (nm, content) in files:
                            if nm == names[j]:
                                ls = [l for l in content.decode().split("\n") if l not in ("TYPE @dup", "  {}") or nm == "main.jst"]
                                if nm == "main.jst":
                                    # main keeps its first @dup; drop only the second declaration
                                    ls = content.decode().split("\n")
                                    k2 = fl - 1
                                    del ls[k2:k2 + 2]
                                while ls and ls[-1] == "":
                                    ls.pop()
                                ls += ["URL /open%d" % j, "(", "  GET", "    200 any"]
                                c3 = ("\n".join(ls) + "\n").encode()
                                files3.append((nm, c3))
                                wl3 = len(ls) + 1
                            else:
                                files3.append((nm, content))
                        out.append((files3, ("trace3", names[j], wl3, trace)))
    return out


def path_property_faults():
    """n Path directives, the k-th declares a property typed by an object / array / undefined user type: the diagnostic of the
    path-variable stage must lie inside THAT Path directive (also when a later Path stands in an included file)"""
    out = []
    head = "JSIGHT 0.3\nTYPE @obj\n  {\n    \"k\": 1\n  }\nTYPE @arr\n  [1]\n"
    faults = ['"%s": @obj', '"%s": 1 // {type: "@obj"}', '"%s": @arr', '"%s": @nope', '"%s": @obj | @arr']
    for n in (2, 3):
        for k in range(n):
            for fi, f in enumerate(faults):
                for inc in (False, True):
                    text = head
                    span = None
                    files = []
                    for i in range(n):
                        prop = (f % ("p%d" % i)) if i == k else ('"p%d": 1' % i)
                        blk = "URL /r%d/{p%d}\n  Path\n    {\n      %s\n    }\n  GET\n    200 any\n" % (i, i, prop)
                        if inc and i == n - 1 and i != k:
                            files.append(("last.jst", blk.encode()))
                            text += "INCLUDE last.jst\n"
                            continue
                        if i == k:
                            a0 = len(text) + blk.index("Path")
                            span = (a0, len(text) + blk.index("}\n  GET"))
                        text += blk
                    out.append(([("main.jst", text.encode())] + files, ("span", "main.jst", span[0], span[1])))
    return out


def project_stage(res, tier, seed, rp):
    """whole rejected projects: the diagnostic's file exists, the index is inside it, the line agrees with the index; for the
    type-chain family (a semantic error deep inside the last type of a reference chain, intermediate types in short files) the
    index lies inside the body of the type that contains the fault"""
    import random
    from .. import proj as P
    from . import c01 as M1
    rng = random.Random(seed)
    if rp:
        projects = [([(C.unhx(n).decode("latin1"), C.unhx(c)) for n, c in rp["project"]], None)]
    else:
        projects = [(pj, "chain") for pj in M1.type_chain_projects(rng, tier == "quick")]
        projects += [(pj, None) for pj in M1.slot_matrix()]
        from .. import scancheck as S
        projects += [(pj, None) for pj in M1.hostile_projects(rng, S.fixture_files(), True)]
        projects += include_chains(rng, tier == "quick")
        projects += path_property_faults()
    outs = C.run_sharded("harness", "fn", [P.run_line("out=sha", pj) for pj, _ in projects])
    res.count(len(projects))
    bad = []
    dist = {}
    for (pj, fam), o in zip(projects, outs):
        st, d = P.parse(o)
        dist[st] = dist.get(st, 0) + 1
        if st == "panic":
            bad.append(("the diagnostic could not be produced: %s" % C.unhx(d.get("msg", "-")).decode("latin1")[:200], pj, o))
            continue
        if isinstance(fam, tuple) and fam[0] == "span" and st != "err":
            bad.append(("a Path property typed by a structured or undefined user type is not rejected (%s)" % st, pj, o))
            continue
        if isinstance(fam, tuple) and fam[0] in ("trace", "trace2", "trace3", "trace4") and st != "err":
            bad.append(("a duplicate TYPE in an included file / an unreadable included file is not rejected (%s)" % st, pj, o))
            continue
        if st != "err" or "file" not in d:
            continue
        fname = C.unhx(d["file"]).decode("latin1")
        files = {(n.decode("latin1") if isinstance(n, bytes) else n): (c.encode("latin1") if isinstance(c, str) else c) for n, c in pj}
        if fname not in files:
            base = {n.split("/")[-1]: n for n in files}
            if fname.split("/")[-1] in base:
                fname = base[fname.split("/")[-1]]
        if fname not in files:
            if fname:
                bad.append(("the diagnostic names the file %r which is not part of the project" % fname, pj, o))
            elif isinstance(fam, tuple) and fam[0] in ("trace", "trace2", "trace3", "trace4"):
                bad.append(("the fault is in %s line %d, reached through the includes %r; the diagnostic names no file at all" % (fam[1], fam[2], fam[3]), pj, o))
            continue
        content = files[fname]
        idx, line = int(d.get("idx", 0)), int(d.get("line", 0))
        if idx > len(content):
            bad.append(("index %d lies beyond the end of %s (%d bytes)" % (idx, fname, len(content)), pj, o))
            continue
        if idx or line:
            res.nontrivial((fname, idx, content))
        want = spec_line(content, idx, spec_detect_nl(content))
        if line != want and not (idx == 0 and line == 0):
            bad.append(("line %d does not agree with index %d of %s (line %d)" % (line, idx, fname, want), pj, o))
            continue
        if isinstance(fam, tuple) and fam[0] in ("trace", "trace2", "trace3", "trace4"):
            _, wfile, wline, wtrace = fam
            got = C.unhx(d.get("trace", "-")).decode("latin1") if d.get("trace", "-") != "-" else ""
            if fname != wfile or line != wline or got != wtrace:
                bad.append(("the fault is %s in %s line %d, reached through the includes %r; the diagnostic says %s line %d with the trace %r"
                            % ({"trace": "the second TYPE @dup", "trace2": "the misplaced directive before the INCLUDE", "trace3": "the parenthesis left open at the end",
                                "trace4": "the INCLUDE of a file that exists but cannot be read"}[fam[0]], wfile, wline, wtrace, fname, line, got), pj, o))
            continue
        if isinstance(fam, tuple) and fam[0] == "span":
            _, wfile, a0, a1 = fam
            if fname != wfile or not (a0 <= idx <= a1):
                bad.append(("the fault is in the Path directive at %s bytes %d..%d; the diagnostic points at %s index %d (line %d)" % (wfile, a0, a1, fname, idx, line), pj, o))
            continue
        if fam == "chain":
            a = content.find(b'"bad"')
            if a < 0:
                bad.append(("the fault is in another file than %s" % fname, pj, o))
                continue
            t0 = content.rfind(b"TYPE @", 0, a)
            t1 = content.find(b"\n  }\n", a) + 5
            if not (t0 <= idx <= t1):
                bad.append(("index %d of %s lies outside the TYPE that contains the fault (bytes %d..%d)" % (idx, fname, t0, t1), pj, o))
    res.notes["project_stage"] = {"projects": len(projects), "verdicts": dist}
    return bad


def judge(res, pr, corr_bad, spec_bad):
    for s, i, out, why in spec_bad[:5]:
        res.violation("NewLocation(content=%r, index=%d) = %s: %s" % (s[:80], i, out[:120], why),
                      {"content": C.hx(s), "index": i, "impl": out, "why": why,
                       "theorem": "location_total / line_number_spec / quote_spec / location_spec"})
    if spec_bad:
        return
    if not pr.proof_ok:
        res.violation("proof obligation no longer checks: %s" % pr.proof_err,
                      {"obligation": pr.proof_err, "theorems": pr.theorems}, found_input=False)
    if corr_bad:
        s, i, out, mo = corr_bad[0]
        res.violation("model and implementation disagree on content=%r index=%d: impl=%s model=%s (%d disagreements); "
                      "the implementation satisfied the executable specification on every input tried"
                      % (s[:80], i, out[:120], mo[:120], len(corr_bad)),
                      {"correspondence": "location", "content": C.hx(s), "index": i, "impl": out, "model": mo},
                      found_input=False)
