"""C13 — path parameters.

Stages (each appends to ctx.corr_bad / ctx.spec_bad; add further stages to STAGES):
  stage_pathparams  core.PathParameters / pathParameters / splitPath: exhaustive correspondence
                    model <-> implementation, and the independent statement below evaluated on
                    the IMPLEMENTATION outputs.
  stage_similar     checkSimilarPaths on sequences of paths (pairs exhaustive over a segment
                    alphabet and over short byte strings, triples sampled).
The end-to-end binding stage (pathVariables in the JSON output) is appended by the owner of C13.
"""
import json
import random

from .. import common as C

ALPHABET = b"/{}ab"


# ---------------------------------------------------------------------------------------
# independent executable statement (regex-free; mirrors props/C13.v, not the Go code)


def segments(p: bytes):
    """the non-empty '/'-separated components"""
    out, cur = [], bytearray()
    for ch in p:
        if ch == 0x2F:
            if cur:
                out.append(bytes(cur))
            cur = bytearray()
        else:
            cur.append(ch)
    if cur:
        out.append(bytes(cur))
    return out


def inner_of(seg: bytes):
    """inner if seg == '{' + inner + '}' else None"""
    if len(seg) >= 2 and seg[0] == 0x7B and seg[-1] == 0x7D:
        return seg[1:-1]
    return None


def spec_params(p: bytes):
    segs = segments(p)
    out = []
    for i, s in enumerate(segs):
        inner = inner_of(s)
        if inner is not None:
            out.append((b"/".join(segs[: i + 1]), inner))
    return out


def fmt_pairs(pairs):
    if not pairs:
        return "ok"
    return "ok " + ",".join(C.hx(a) + ":" + C.hx(b) for a, b in pairs)


def spec_checked(p: bytes) -> str:
    pairs = spec_params(p)
    names = [n for _, n in pairs]
    if b"" in names:
        return "empty"
    for i, n in enumerate(names):
        if n in names[:i]:
            return "dup " + C.hx(n)
    return fmt_pairs(pairs)


def nf(segs):
    return [b"{}" if inner_of(s) is not None else s for s in segs]


def conflict(p1: bytes, p2: bytes) -> bool:
    """for some k the first k segments have the same normal form but are not equal"""
    s1, s2 = segments(p1), segments(p2)
    for k in range(1, min(len(s1), len(s2)) + 1):
        if s1[:k] != s2[:k] and nf(s1[:k]) == nf(s2[:k]):
            return True
    return False


def spec_similar(paths):
    """index of the first path that conflicts with an earlier one, or None"""
    for j in range(len(paths)):
        for i in range(j):
            if conflict(paths[i], paths[j]):
                return j
    return None


# ---------------------------------------------------------------------------------------


class Ctx:
    def __init__(self, res, pr, tier, seed, replay):
        self.res, self.pr, self.tier, self.seed = res, pr, tier, seed
        self.replay = json.load(open(replay)) if replay else None
        self.corr_bad = []   # (label, replay-dict, impl, model)
        self.spec_bad = []   # (what, replay-dict)


def both(lines):
    impl = C.run_sharded("harness", "fn", lines)
    model = C.run_sharded("modelrun", None, lines)
    return impl, model


def stage_pathparams(cx):
    res = cx.res
    maxlen = 7 if cx.tier == "quick" else 9
    if cx.replay is not None:
        if "path" not in cx.replay:
            return
        paths = [C.unhx(cx.replay["path"])]
    else:
        paths = list(C.all_strings(ALPHABET, maxlen))
        paths += seg_paths(4)   # several parameters per path: duplicates, empties after the first
        rnd = random.Random(cx.seed)
        pool = [0x2F, 0x2F, 0x7B, 0x7D, 0x7B, 0x7D, 0x61, 0x00, 0xFF, 0x20, 0x25, 0x5C, 0xC3, 0xA9]
        for _ in range(3000 if cx.tier == "quick" else 30000):
            paths.append(bytes(rnd.choice(pool) for _ in range(rnd.randint(8, 24))))
    dist = {"ok-none": 0, "ok-params": 0, "empty": 0, "dup": 0, "panic": 0, "other": 0}
    for cmd in ("pathparams", "pathparams_raw", "splitpath"):
        lines = [cmd + " " + C.hx(p) for p in paths]
        impl, model = both(lines)
        res.count(len(lines))
        res.coverage["traces_validated_against_impl"] += len(lines)
        for p, i, m in zip(paths, impl, model):
            if i != m:
                cx.corr_bad.append((cmd, {"stage": "pathparams", "cmd": cmd, "path": C.hx(p)}, i, m))
            if cmd == "pathparams":
                want = spec_checked(p)
                kind = ("ok-none" if i == "ok" else "ok-params" if i.startswith("ok ") else
                        "empty" if i == "empty" else "dup" if i.startswith("dup ") else
                        "panic" if i == "panic" else "other")
                dist[kind] += 1
                if kind != "ok-none":
                    res.nontrivial(p)
            elif cmd == "pathparams_raw":
                want = fmt_pairs(spec_params(p))
                if i.startswith("ok "):
                    pre = [x.split(":")[0] for x in i[3:].split(",")]
                    if len(set(pre)) != len(pre):
                        cx.spec_bad.append(("path %r: two parameter positions share the prefix (%s)" % (p, i),
                                            {"stage": "pathparams", "path": C.hx(p), "impl": i,
                                             "theorem": "prefixes_distinct"}))
            else:
                want = ",".join(C.hx(s) for s in segments(p))
            if i != want:
                theorem = {"pathparams": "checked_accepts / checked_rejects_empty / checked_rejects_dup / path_parameters_total",
                           "pathparams_raw": "path_parameters_spec / path_parameters_total",
                           "splitpath": "split_path_is_segments"}[cmd]
                cx.spec_bad.append(("%s(%r): implementation gives %s, the specification %s" % (cmd, p, human(i), human(want)),
                                    {"stage": "pathparams", "cmd": cmd, "path": C.hx(p), "impl": i,
                                     "expected": want, "theorem": theorem}))
        if cmd == "pathparams" and len(paths) > 40:
            for k in (len(paths) // 3, len(paths) // 2, len(paths) - 3001 if len(paths) > 3001 else 0):
                res.sample({"path": paths[k].decode("latin1"), "impl": human(impl[k]), "model": human(model[k])})
    res.notes["pathparams_distribution"] = {"paths": len(paths), "max_len_exhaustive": maxlen,
                                            "alphabet": ALPHABET.decode(), "impl_verdicts": dist}


def human(line):
    """decode the hex fields of a result line for messages"""
    parts = line.split(" ")
    try:
        if parts[0] == "ok" and len(parts) == 2:
            return "ok " + ",".join(":".join(C.unhx(h).decode("latin1") or '""' for h in x.split(":"))
                                    for x in parts[1].split(","))
        if parts[0] == "dup" and len(parts) == 2:
            return "dup " + C.unhx(parts[1]).decode("latin1")
        if parts[0] == "reject" and len(parts) == 3:
            return "reject %s %s" % (parts[1], C.unhx(parts[2]).decode("latin1"))
        if len(parts) == 1 and line and all(c in "0123456789abcdef-," for c in line):
            return "[" + ",".join(C.unhx(h).decode("latin1") for h in line.split(",")) + "]"
    except ValueError:
        pass
    return line


SEG_ALPHABET = [b"a", b"b", b"{x}", b"{y}", b"{}"]


def seg_paths(maxsegs):
    cur = [[]]
    out = [b"/"]
    for _ in range(maxsegs):
        cur = [c + [s] for c in cur for s in SEG_ALPHABET]
        out.extend(b"/" + b"/".join(c) for c in cur)
    return out


def stage_similar(cx):
    res = cx.res
    if cx.replay is not None:
        if "paths" not in cx.replay:
            return
        seqs = [[C.unhx(h) for h in cx.replay["paths"]]]
    else:
        sp = seg_paths(3)
        seqs = [[a, b] for a in sp for b in sp]
        short = list(C.all_strings(ALPHABET, 3 if cx.tier == "quick" else 4))
        seqs += [[a, b] for a in short for b in short]
        rnd = random.Random(cx.seed + 13)
        for _ in range(20000 if cx.tier == "quick" else 200000):
            seqs.append([rnd.choice(sp) for _ in range(rnd.randint(3, 5))])
        sp4 = seg_paths(4)
        for _ in range(20000 if cx.tier == "quick" else 200000):
            seqs.append([rnd.choice(sp4) for _ in range(2)])
    lines = ["similar " + " ".join(C.hx(p) for p in s) for s in seqs]
    impl, model = both(lines)
    res.count(len(lines))
    res.coverage["traces_validated_against_impl"] += len(lines)
    dist = {"ok": 0, "reject": 0, "panic": 0}
    for s, i, m in zip(seqs, impl, model):
        rp = {"stage": "similar", "paths": [C.hx(p) for p in s]}
        if i != m:
            cx.corr_bad.append(("similar", rp, i, m))
        want = spec_similar(s)
        parts = i.split(" ")
        dist[parts[0]] = dist.get(parts[0], 0) + 1
        got = int(parts[1]) if parts[0] == "reject" else None
        if parts[0] == "reject":
            res.nontrivial(tuple(s))
        if parts[0] not in ("ok", "reject") or got != want:
            cx.spec_bad.append(("paths %r registered in order: implementation gives %s, the specification %s" % (
                s, human(i), "ok" if want is None else "reject at index %d" % want),
                dict(rp, impl=i, expected=("ok" if want is None else "reject %d" % want),
                     theorem="similar_two_nf_iff / similar_all_accepted_iff")))
        elif parts[0] == "reject" and not C.unhx(parts[2]).startswith(b'disallow the use of "similar" paths: '):
            cx.spec_bad.append(("paths %r: unexpected error text %s" % (s, human(i)), dict(rp, impl=i)))
    if len(seqs) > 10:
        k = next((k for k, i in enumerate(impl) if i.startswith("reject")), 0)
        res.sample({"paths": [p.decode("latin1") for p in seqs[k]], "impl": human(impl[k]), "model": human(model[k])})
    res.notes["similar_distribution"] = {"sequences": len(seqs), "impl_verdicts": dist}


STAGES = [stage_pathparams, stage_similar]


def run(res, tier, seed, replay):
    pr = C.prepare("C13", res)
    res.coverage["rule"] = ("pathparams: every byte string over {'/','{','}','a','b'} up to the length bound (exhaustive) "
                            "plus seeded random strings over a pool with NUL, 0xFF, '%', '\\\\', UTF-8 bytes; "
                            "non-trivial = the implementation reports a parameter or an error; "
                            "similar: all ordered pairs of paths of <=3 segments over {a,b,{x},{y},{}} and of byte strings "
                            "up to the bound, sampled longer sequences; non-trivial = rejected")
    if not (pr.harness_ok and pr.model_ok):
        res.violation("build failed: " + (pr.harness_err or pr.model_err)[-800:],
                      {"obligation": "build of harness/model"}, found_input=False)
        return
    cx = Ctx(res, pr, tier, seed, replay)
    res.coverage["exhaustive"] = True
    for st in STAGES:
        st(cx)
    judge(res, pr, cx.corr_bad, cx.spec_bad)


def judge(res, pr, corr_bad, spec_bad):
    for what, rp in spec_bad[:5]:
        res.violation(what, rp)
    if spec_bad:
        return
    if not pr.proof_ok:
        res.violation("proof obligation no longer checks: %s" % pr.proof_err,
                      {"obligation": pr.proof_err, "theorems": pr.theorems}, found_input=False)
    if corr_bad:
        label, rp, i, m = corr_bad[0]
        res.violation("model and implementation disagree on %s %r: impl=%s model=%s (%d disagreements); "
                      "the implementation satisfied the executable specification on every input tried" % (
                          label, rp, i, m, len(corr_bad)),
                      dict(rp, correspondence=label, impl=i, model=m), found_input=False)
