"""C13 — path parameters.

Stages (each appends to ctx.corr_bad / ctx.spec_bad; add further stages to STAGES):
  stage_pathparams  core.PathParameters / pathParameters / splitPath: exhaustive correspondence
                    model <-> implementation, and the independent statement below evaluated on
                    the IMPLEMENTATION outputs.
  stage_similar     checkSimilarPaths on sequences of paths (pairs exhaustive over a segment
                    alphabet and over short byte strings, triples sampled).
  stage_binding      end to end: generated path trees (shared prefixes, parameters at any depth, Path under
                    URL or under a method, declared once for a prefix and used by longer paths) and faulty
                    variants; interactions[*].pathVariables of the implementation against the independent
                    statement of binding_correct below (spec_binding), the rejections against
                    unmatched_property_rejected / duplicate_prefix_rejected / bad_path_* / path_body_not_flat_rejected,
                    and the catalog model against the implementation (corecheck.compare_full).
"""
import json
import random

from .. import common as C

ALPHABET = b"/{}ab"


# ---------------------------------------------------------------------------------------
# independent executable statement (regex-free; mirrors props/C13.v, not the Go code)


def segments(p: bytes):
    """the non-empty '/'-separated components"""
    out, cur = [], bytearray()
    for ch in p:
        if ch == 0x2F:
            if cur:
                out.append(bytes(cur))
            cur = bytearray()
        else:
            cur.append(ch)
    if cur:
        out.append(bytes(cur))
    return out


def inner_of(seg: bytes):
    """inner if seg == '{' + inner + '}' else None"""
    if len(seg) >= 2 and seg[0] == 0x7B and seg[-1] == 0x7D:
        return seg[1:-1]
    return None


def spec_params(p: bytes):
    segs = segments(p)
    out = []
    for i, s in enumerate(segs):
        inner = inner_of(s)
        if inner is not None:
            out.append((b"/".join(segs[: i + 1]), inner))
    return out


def fmt_pairs(pairs):
    if not pairs:
        return "ok"
    return "ok " + ",".join(C.hx(a) + ":" + C.hx(b) for a, b in pairs)


def spec_checked(p: bytes) -> str:
    pairs = spec_params(p)
    names = [n for _, n in pairs]
    if b"" in names:
        return "empty"
    for i, n in enumerate(names):
        if n in names[:i]:
            return "dup " + C.hx(n)
    return fmt_pairs(pairs)


def nf(segs):
    return [b"{}" if inner_of(s) is not None else s for s in segs]


def conflict(p1: bytes, p2: bytes) -> bool:
    """for some k the first k segments have the same normal form but are not equal"""
    s1, s2 = segments(p1), segments(p2)
    for k in range(1, min(len(s1), len(s2)) + 1):
        if s1[:k] != s2[:k] and nf(s1[:k]) == nf(s2[:k]):
            return True
    return False


def spec_similar(paths):
    """index of the first path that conflicts with an earlier one, or None"""
    for j in range(len(paths)):
        for i in range(j):
            if conflict(paths[i], paths[j]):
                return j
    return None


# ---------------------------------------------------------------------------------------


class Ctx:
    def __init__(self, res, pr, tier, seed, replay):
        self.res, self.pr, self.tier, self.seed = res, pr, tier, seed
        self.replay = json.load(open(replay)) if replay else None
        self.corr_bad = []   # (label, replay-dict, impl, model)
        self.spec_bad = []   # (what, replay-dict)


def both(lines):
    impl = C.run_sharded("harness", "fn", lines)
    model = C.run_sharded("modelrun", None, lines)
    return impl, model


def stage_pathparams(cx):
    res = cx.res
    maxlen = 7 if cx.tier == "quick" else 9
    if cx.replay is not None:
        if "path" not in cx.replay:
            return
        paths = [C.unhx(cx.replay["path"])]
    else:
        paths = list(C.all_strings(ALPHABET, maxlen))
        paths += seg_paths(4)   # several parameters per path: duplicates, empties after the first
        rnd = random.Random(cx.seed)
        pool = [0x2F, 0x2F, 0x7B, 0x7D, 0x7B, 0x7D, 0x61, 0x00, 0xFF, 0x20, 0x25, 0x5C, 0xC3, 0xA9]
        for _ in range(3000 if cx.tier == "quick" else 30000):
            paths.append(bytes(rnd.choice(pool) for _ in range(rnd.randint(8, 24))))
    dist = {"ok-none": 0, "ok-params": 0, "empty": 0, "dup": 0, "panic": 0, "other": 0}
    for cmd in ("pathparams", "pathparams_raw", "splitpath"):
        lines = [cmd + " " + C.hx(p) for p in paths]
        impl, model = both(lines)
        res.count(len(lines))
        res.coverage["traces_validated_against_impl"] += len(lines)
        for p, i, m in zip(paths, impl, model):
            if i != m:
                cx.corr_bad.append((cmd, {"stage": "pathparams", "cmd": cmd, "path": C.hx(p)}, i, m))
            if cmd == "pathparams":
                want = spec_checked(p)
                kind = ("ok-none" if i == "ok" else "ok-params" if i.startswith("ok ") else
                        "empty" if i == "empty" else "dup" if i.startswith("dup ") else
                        "panic" if i == "panic" else "other")
                dist[kind] += 1
                if kind != "ok-none":
                    res.nontrivial(p)
            elif cmd == "pathparams_raw":
                want = fmt_pairs(spec_params(p))
                if i.startswith("ok "):
                    pre = [x.split(":")[0] for x in i[3:].split(",")]
                    if len(set(pre)) != len(pre):
                        cx.spec_bad.append(("path %r: two parameter positions share the prefix (%s)" % (p, i),
                                            {"stage": "pathparams", "path": C.hx(p), "impl": i,
                                             "theorem": "prefixes_distinct"}))
            else:
                want = ",".join(C.hx(s) for s in segments(p))
            if i != want:
                theorem = {"pathparams": "checked_accepts / checked_rejects_empty / checked_rejects_dup / path_parameters_total",
                           "pathparams_raw": "path_parameters_spec / path_parameters_total",
                           "splitpath": "split_path_is_segments"}[cmd]
                cx.spec_bad.append(("%s(%r): implementation gives %s, the specification %s" % (cmd, p, human(i), human(want)),
                                    {"stage": "pathparams", "cmd": cmd, "path": C.hx(p), "impl": i,
                                     "expected": want, "theorem": theorem}))
        if cmd == "pathparams" and len(paths) > 40:
            for k in (len(paths) // 3, len(paths) // 2, len(paths) - 3001 if len(paths) > 3001 else 0):
                res.sample({"path": paths[k].decode("latin1"), "impl": human(impl[k]), "model": human(model[k])})
    res.notes["pathparams_distribution"] = {"paths": len(paths), "max_len_exhaustive": maxlen,
                                            "alphabet": ALPHABET.decode(), "impl_verdicts": dist}


def human(line):
    """decode the hex fields of a result line for messages"""
    parts = line.split(" ")
    try:
        if parts[0] == "ok" and len(parts) == 2:
            return "ok " + ",".join(":".join(C.unhx(h).decode("latin1") or '""' for h in x.split(":"))
                                    for x in parts[1].split(","))
        if parts[0] == "dup" and len(parts) == 2:
            return "dup " + C.unhx(parts[1]).decode("latin1")
        if parts[0] == "reject" and len(parts) == 3:
            return "reject %s %s" % (parts[1], C.unhx(parts[2]).decode("latin1"))
        if len(parts) == 1 and line and all(c in "0123456789abcdef-," for c in line):
            return "[" + ",".join(C.unhx(h).decode("latin1") for h in line.split(",")) + "]"
    except ValueError:
        pass
    return line


SEG_ALPHABET = [b"a", b"b", b"ab", b"{x}", b"{y}", b"{}"]


def seg_paths(maxsegs):
    cur = [[]]
    out = [b"/"]
    for _ in range(maxsegs):
        cur = [c + [s] for c in cur for s in SEG_ALPHABET]
        out.extend(b"/" + b"/".join(c) for c in cur)
    return out


def stage_similar(cx):
    res = cx.res
    if cx.replay is not None:
        if "paths" not in cx.replay:
            return
        seqs = [[C.unhx(h) for h in cx.replay["paths"]]]
    else:
        sp = seg_paths(3)
        seqs = [[a, b] for a in sp for b in sp]
        short = list(C.all_strings(ALPHABET, 3 if cx.tier == "quick" else 4))
        seqs += [[a, b] for a in short for b in short]
        rnd = random.Random(cx.seed + 13)
        for _ in range(20000 if cx.tier == "quick" else 200000):
            seqs.append([rnd.choice(sp) for _ in range(rnd.randint(3, 5))])
        sp4 = seg_paths(4)
        for _ in range(20000 if cx.tier == "quick" else 200000):
            seqs.append([rnd.choice(sp4) for _ in range(2)])
    lines = ["similar " + " ".join(C.hx(p) for p in s) for s in seqs]
    impl, model = both(lines)
    res.count(len(lines))
    res.coverage["traces_validated_against_impl"] += len(lines)
    dist = {"ok": 0, "reject": 0, "panic": 0}
    for s, i, m in zip(seqs, impl, model):
        rp = {"stage": "similar", "paths": [C.hx(p) for p in s]}
        if i != m:
            cx.corr_bad.append(("similar", rp, i, m))
        want = spec_similar(s)
        parts = i.split(" ")
        dist[parts[0]] = dist.get(parts[0], 0) + 1
        got = int(parts[1]) if parts[0] == "reject" else None
        if parts[0] == "reject":
            res.nontrivial(tuple(s))
        if parts[0] not in ("ok", "reject") or got != want:
            cx.spec_bad.append(("paths %r registered in order: implementation gives %s, the specification %s" % (
                s, human(i), "ok" if want is None else "reject at index %d" % want),
                dict(rp, impl=i, expected=("ok" if want is None else "reject %d" % want),
                     theorem="similar_two_nf_iff / similar_all_accepted_iff")))
        elif parts[0] == "reject" and not C.unhx(parts[2]).startswith(b'disallow the use of "similar" paths: '):
            cx.spec_bad.append(("paths %r: unexpected error text %s" % (s, human(i)), dict(rp, impl=i)))
    if len(seqs) > 10:
        k = next((k for k, i in enumerate(impl) if i.startswith("reject")), 0)
        res.sample({"paths": [p.decode("latin1") for p in seqs[k]], "impl": human(impl[k]), "model": human(model[k])})
    res.notes["similar_distribution"] = {"sequences": len(seqs), "impl_verdicts": dist}


# ---------------------------------------------------------------------------------------
# binding (props/C13.v binding_correct and the rejections)

BIND_LITERALS = ["a", "b", "c"]
BIND_PARAMS = ["{x}", "{y}", "{z}", "{w}"]


def param_prefixes(path: str):
    """[(prefix tuple, name)] of the {name} segments of a path, in path order"""
    segs = [x for x in path.split("/") if x]
    out = []
    for i, sg in enumerate(segs):
        if len(sg) >= 2 and sg[0] == "{" and sg[-1] == "}":
            out.append((tuple(segs[:i + 1]), sg[1:-1]))
    return out


def spec_binding(interactions, decls):
    """independent statement of binding_correct.
    interactions: [(method, path)]; decls: [(path of the Path directive, [property names])].
    A prefix is bound iff some Path directive has it among its path's parameters with a property of
    that name; pathVariables = the names of the bound {name} segments, in path order."""
    bound = set()
    for dpath, props in decls:
        for pre, name in param_prefixes(dpath):
            if name in props:
                bound.add(pre)
    return {(m, p): [name for pre, name in param_prefixes(p) if pre in bound] for m, p in interactions}


def gen_path_set(rnd, k):
    paths = []
    tries = 0
    while len(paths) < k and tries < 200:
        tries += 1
        depth = rnd.randint(1, 4)
        segs, used = [], set()
        base = rnd.choice(paths).split("/")[1:] if paths and rnd.random() < 0.6 else []
        segs = base[:rnd.randint(0, len(base))]
        used = {x for x in segs if x.startswith("{")}
        while len(segs) < depth:
            c = rnd.choice(BIND_LITERALS + BIND_PARAMS)
            if c in used:
                continue
            if c.startswith("{"):
                used.add(c)
            segs.append(c)
        p = "/" + "/".join(segs)
        if p in paths:
            continue
        if any(conflict(p.encode(), q.encode()) for q in paths):
            continue
        paths.append(p)
    return paths


class BDoc:
    """a document of URL / method directives with Path directives; hosts are (kind, index) pairs"""

    def __init__(self, layout):
        self.layout = layout          # [("URL", path, [methods]) | ("M", path, method)]
        self.paths_at = {}            # host key -> [names]   (one Path directive per host)
        self.body_override = {}       # host key -> body lines
        self.by_type = False          # Path bodies are references to user types; equal name lists share one type
        self.extra_types = {}         # further TYPE directives (name -> body)

    def hosts(self):
        out = []
        for i, it in enumerate(self.layout):
            if it[0] == "URL":
                out.append((("U", i), it[1]))
                for j, m in enumerate(it[2]):
                    out.append((("UM", i, j), it[1]))
            else:
                out.append((("M", i), it[1]))
        return out

    def interactions(self):
        out = []
        for it in self.layout:
            if it[0] == "URL":
                out += [(m, it[1]) for m in it[2]]
            else:
                out.append((it[2], it[1]))
        return out

    def decls_in_order(self):
        """(host key, path, names) in the order collectPaths meets the Path directives"""
        hp = dict(self.hosts())
        return [(h, hp[h], self.paths_at[h]) for h, _ in self.hosts() if h in self.paths_at]

    def tree(self, C11):
        n = C11.n
        nodes = [n("JSIGHT 0.3")]
        self.path_nodes = {}

        def pathdir(h):
            if h not in self.paths_at and h not in self.body_override:
                return []
            names = self.paths_at.get(h, [])
            body = self.body_override.get(h) or ("{\n" + ",\n".join('  "%s": 1' % x for x in names) + "\n}")
            if self.by_type and h not in self.body_override and names:
                tn = "@pt_" + "_".join(names)
                self.types[tn] = body
                body = tn
                if getattr(self, "by_alias", False):
                    # the Path names a type that is only another name of the type (twice removed)
                    self.types[tn + "_alias"] = tn
                    self.types[tn + "_alias2"] = tn + "_alias"
                    body = tn + "_alias2"
            nd = n("Path", body=body)
            self.path_nodes[h] = nd
            return [nd]

        self.dir_nodes = {}
        self.types = {}
        for i, it in enumerate(self.layout):
            if it[0] == "URL":
                kids = pathdir(("U", i))
                for j, m in enumerate(it[2]):
                    mn = n(m, *(pathdir(("UM", i, j)) + [n("200 any")]))
                    self.dir_nodes[("UM", i, j)] = mn
                    kids.append(mn)
                un = n("URL " + it[1], *kids)
                self.dir_nodes[("U", i)] = un
                nodes.append(un)
            else:
                mn = n(it[2] + " " + it[1], *(pathdir(("M", i)) + [n("200 any")]))
                self.dir_nodes[("M", i)] = mn
                nodes.append(mn)
        for tn, body in list(self.types.items()) + list(self.extra_types.items()):
            nodes.append(n("TYPE " + tn, body=body))
        return nodes


def gen_bdoc(rnd, paths=None):
    paths = paths or gen_path_set(rnd, rnd.randint(1, 5))
    layout = []
    for p in paths:
        if rnd.random() < 0.5:
            layout.append(("URL", p, rnd.sample(["GET", "POST", "PUT"], rnd.randint(1, 2))))
        else:
            layout.append(("M", p, rnd.choice(["GET", "POST", "DELETE"])))
    d = BDoc(layout)
    prefixes = {}
    for _, p in d.hosts():
        for pre, name in param_prefixes(p):
            prefixes[pre] = name
    for pre, name in sorted(prefixes.items()):
        if rnd.random() < 0.3:
            continue
        cands = [h for h, p in d.hosts() if (pre, name) in param_prefixes(p)]
        h = rnd.choice(cands)
        d.paths_at.setdefault(h, []).append(name)
    return d


def pathvars_of_json(b):
    from .. import skeleton as SK
    v, _ = SK.parse_pairs(b)
    out = {}
    for k, i in SK.get(v, "interactions", []) or []:
        if SK.get(i, "protocol") != "http":
            continue
        pv = SK.get(i, "pathVariables")
        names = None
        if pv is not None:
            content = SK.get(SK.get(pv, "schema", []), "content", [])
            names = [SK.get(c, "key", "") for c in (SK.get(content, "children", []) or [])]
        out[(SK.get(i, "httpMethod", ""), SK.get(i, "path", ""))] = names
    return out


def stage_binding(cx):
    from . import c11 as C11
    from .. import corecheck as K
    from .. import proj as P
    res = cx.res
    if cx.replay is not None and "binding" not in cx.replay:
        return
    rnd = random.Random(cx.seed + 31)
    quick = cx.tier == "quick"
    cases = []     # (label, BDoc, expectation) expectation = ("ok",) | ("reject", needle, host key whose Path / directive is at fault)
    docs = []
    # family: shared prefixes, every choice of host for every prefix (exhaustive)
    fam = ["/a/{x}", "/a/{x}/b", "/a/{x}/b/{y}", "/a/{x}/c/{z}"]
    lay = [("URL", fam[0], ["GET", "POST"]), ("M", fam[1], "GET"), ("URL", fam[2], ["PUT"]), ("M", fam[3], "DELETE")]
    base = BDoc(lay)
    pres = sorted({pn for _, p in base.hosts() for pn in param_prefixes(p)})
    choices = []
    for pre, name in pres:
        choices.append([None] + [h for h, p in base.hosts() if (pre, name) in param_prefixes(p)])
    import itertools
    for combo in itertools.product(*choices):
        d = BDoc(lay)
        for (pre, name), h in zip(pres, combo):
            if h is not None:
                d.paths_at.setdefault(h, []).append(name)
        docs.append(("family", d))
    if quick:
        docs = rnd.sample(docs, min(len(docs), 250))
    for _ in range(250 if quick else 4000):
        docs.append(("random", gen_bdoc(rnd)))
    docs.append(("nothing-declared", BDoc(lay)))
    # Path bodies written as references to user types; several Path directives name the SAME type
    lay_t = [("URL", "/cats/{id}", ["GET"]), ("URL", "/dogs/{id}", ["GET", "PUT"]), ("M", "/birds/{id}", "GET"), ("URL", "/cats/{id}/toys/{toy}", ["POST"])]
    hosts_t = [("U", 0), ("U", 1), ("UM", 1, 1), ("M", 2), ("U", 3)]
    for mask in range(1, 2 ** len(hosts_t)):
        d = BDoc(lay_t)
        d.by_type = True
        for k, h in enumerate(hosts_t):
            if mask >> k & 1:
                d.paths_at[h] = ["toy"] if h == ("U", 3) else ["id"]
        if ("U", 1) in d.paths_at and ("UM", 1, 1) in d.paths_at:
            continue      # the same prefix twice
        docs.append(("shared-type", d))
    for _ in range(60 if quick else 600):
        d = gen_bdoc(rnd)
        d.by_type = True
        docs.append(("random-by-type", d))
        if len(docs) % 3 == 0:
            d2 = gen_bdoc(rnd)
            d2.by_type = True
            d2.by_alias = True
            docs.append(("random-by-alias-of-type", d2))
    for label, d in docs:
        cases.append((label, d, ("ok",)))
    # faulty variants
    for label, d in docs[::3]:
        dl = d.decls_in_order()
        if dl:
            h, p, names = rnd.choice(dl)
            e = BDoc(d.layout)
            e.paths_at = {k: list(v) for k, v in d.paths_at.items()}
            e.paths_at[h] = e.paths_at[h] + ["zzq"]
            cases.append(("unmatched-property", e, ("reject", "Has unused parameters", ("path", h))))
            # ... a stray property whose name IS a parameter - of another path of the document, not of this one
            own = {nm for _, nm in param_prefixes(p)}
            foreign = sorted({nm for _, q in d.hosts() for _, nm in param_prefixes(q)} - own)
            for fn in foreign[:2]:
                e = BDoc(d.layout)
                e.paths_at = {k: list(v) for k, v in d.paths_at.items()}
                e.paths_at[h] = e.paths_at[h] + [fn]
                cases.append(("unmatched-property-named-like-another-paths-parameter", e, ("reject", "Has unused parameters", ("path", h))))
            # the same prefix declared by a second Path directive
            name = rnd.choice(names)
            pre = next(pr for pr, nm in param_prefixes(p) if nm == name)
            cands = [k for k, q in d.hosts() if k != h and (pre, name) in param_prefixes(q)]
            if cands:
                h2 = rnd.choice(cands)
                e = BDoc(d.layout)
                e.paths_at = {k: list(v) for k, v in d.paths_at.items()}
                if name not in e.paths_at.get(h2, []):
                    e.paths_at.setdefault(h2, []).append(name)
                    order = [k for k, _ in e.hosts() if k in e.paths_at]
                    second = h2 if order.index(h2) > order.index(h) else h
                    cases.append(("duplicate-prefix", e, ("reject", "has already been defined earlier", ("path", second))))
                    # the same fault when the declarations arrive through a type: every Path body a `Path @type` shortcut, or the
                    # body of one of the two an object that inherits the property (allOf)
                    e2 = BDoc(d.layout)
                    e2.paths_at = {k: list(v) for k, v in e.paths_at.items()}
                    e2.by_type = True
                    cases.append(("duplicate-prefix-through-type", e2, ("reject", "has already been defined earlier", ("path", second))))
                    for hx in (h, h2):
                        e3 = BDoc(d.layout)
                        e3.paths_at = {k: list(v) for k, v in e.paths_at.items()}
                        e3.body_override[hx] = '{ // {allOf: "@inh_%s"}\n}' % name.replace(".", "_").replace("-", "_")
                        e3.extra_types = {"@inh_%s" % name.replace(".", "_").replace("-", "_"): "{\n" + ",\n".join('  "%s": 1' % x for x in e.paths_at[hx]) + "\n}"}
                        cases.append(("duplicate-prefix-through-allof", e3, ("reject", "has already been defined earlier", ("path", second))))
            for body, needle in (("[1]", None), ("1", None), ('{\n  "%s": {"k": 1}\n}' % names[0], None), ("{}", None),
                                 # structured VALUES under a rule that gives them another type name: the value is still not flat
                                 ('{\n  "%s": {} // {type: "any"}\n}' % names[0], None), ('{\n  "%s": [] // {type: "any"}\n}' % names[0], None),
                                 ('{\n  "%s": {}\n}' % names[0], None), ('{\n  "%s": [1, 2]\n}' % names[0], None),
                                 ('{\n  "%s": [] // {optional: true}\n}' % names[0], None)):
                e = BDoc(d.layout)
                e.paths_at = {k: list(v) for k, v in d.paths_at.items()}
                e.body_override[h] = body
                cases.append(("path-body-not-flat-object", e, ("reject", needle, ("path", h))))
        # an empty or repeated {name} in one path
        i = rnd.randrange(len(d.layout))
        for bad, needle in (("/{}", "incorrect empty PATH parameter"), ("/{x}/q/{x}", "is duplicated in the path")):
            lay2 = list(d.layout)
            it = lay2[i]
            newp = (it[1].rstrip("/") if "{x}" not in it[1] or bad == "/{}" else "/q") + bad
            if any(conflict(newp.encode(), q[1].encode()) for k, q in enumerate(lay2) if k != i):
                continue
            lay2[i] = (it[0], newp, it[2])
            e = BDoc(lay2)
            cases.append(("bad-path", e, ("reject", needle, ("dir", ("U", i) if it[0] == "URL" else ("M", i)))))
    # a property typed by a user type that is only another name for an object / array type: the path variable would not be flat
    for alias_body, target in (("@deep", '{\n  "k": 1\n}'), ("@deep", "[1]"), ("@deep | @deep", '{\n  "k": 1\n}')):
        for spell in ('"x": @alias', '"x": 1 // {type: "@alias"}', '"x": 1 // {or: ["@alias", "integer"]}',
                      # the rule-set form of `or`: the reference sits on the "type" member of an inline rule set
                      '"x": 1 // {or: [{type: "@alias"}, {type: "integer"}]}', '"x": @alias|@deep', '"x": @alias |@deep', '"x": 1 // {or: [{type: "integer"}, {type: "@alias"}]}'):
            e = BDoc([("URL", "/a/{x}", ["GET"])])
            e.body_override[("U", 0)] = "{\n  %s\n}" % spell
            e.extra_types = {"@alias": alias_body, "@deep": target}
            cases.append(("property-typed-by-alias-of-structured-type", e, ("reject", None, ("path", ("U", 0)))))
    if cx.replay is not None:
        cases = []
    projects, metas = [], []
    for label, d, exp in cases:
        tree = d.tree(C11)
        files, spans = C11.project(tree)
        projects.append(files)
        metas.append((label, d, exp, spans))
    if cx.replay is not None:
        projects = [[(C.unhx(a), C.unhx(b)) for a, b in cx.replay["project"]]]
        metas = [("replay", None, None, {})]
    outs = C.run_sharded("harness", "fn", [P.run_line("-", pj) for pj in projects])
    res.count(len(outs))
    dist = {}
    for (label, d, exp, spans), pj, out in zip(metas, projects, outs):
        if d is None:
            continue
        st, dd = P.parse(out)
        dist.setdefault(label, {"cases": 0, "ok": 0, "err": 0})
        dist[label]["cases"] += 1
        dist[label][st] = dist[label].get(st, 0) + 1
        rp = {"stage": "binding", "binding": label, "project": [(C.hx(a), C.hx(b)) for a, b in pj], "impl": out[:200]}
        text = pj[0][1].decode()
        if exp[0] == "ok":
            want = spec_binding(d.interactions(), [(p, names) for _, p, names in d.decls_in_order()])
            if st != "ok":
                msg = C.unhx(dd.get("msg", "-")).decode("latin1") if st == "err" else st
                cx.spec_bad.append(("binding: a document whose every declared prefix is declared once and whose every property "
                                    "names a parameter is rejected (%s):\n%s" % (msg[:120], text[:700]), dict(rp, theorem="binding_correct")))
                continue
            got = pathvars_of_json(C.unhx(dd["json"]))
            if any(v for v in want.values()):
                res.nontrivial(("bind", text))
            for key, names in want.items():
                g = got.get(key)
                if (g or []) != names or (not names and g not in (None, [])):
                    cx.spec_bad.append(("binding: pathVariables of %s %s are %r, the specification says %r; document:\n%s" % (
                        key[0], key[1], g, names, text[:700]), dict(rp, theorem="binding_correct", expected={"%s %s" % k: v for k, v in want.items()})))
                    break
        else:
            res.nontrivial(("reject", label, text))
            _, needle, (what, h) = exp
            if st != "err":
                cx.spec_bad.append(("binding: faulty variant %s is accepted:\n%s" % (label, text[:700]),
                                    dict(rp, theorem={"unmatched-property": "unmatched_property_rejected", "duplicate-prefix": "duplicate_prefix_rejected",
                                                      "bad-path": "bad_path_of_url_or_method_rejected"}.get(label, "path_body_not_flat_rejected"))))
                continue
            msg = C.unhx(dd["msg"]).decode("latin1")
            nd = d.path_nodes[h] if what == "path" else d.dir_nodes[h]
            span = spans[nd.uid]
            loc = (C.unhx(dd["file"]).decode(), int(dd["idx"]))
            if (needle and needle not in msg) or not (loc[0] == span[0] and span[1] <= loc[1] <= span[2]):
                cx.spec_bad.append(("binding: faulty variant %s: diagnostic %r at %s:%d, expected %r inside %r; document:\n%s" % (
                    label, msg[:100], loc[0], loc[1], needle, span, text[:700]), rp))
    res.notes["binding_distribution"] = dist
    if len(cases) > 5:
        k = next((k for k, c in enumerate(cases) if c[0] == "random" and c[1].paths_at), 0)
        res.sample({"binding_document": projects[k][0][1].decode()[:400], "impl": outs[k][:60]})
    recs = K.compare_full(projects)
    res.coverage["traces_validated_against_impl"] += len(recs)
    kinds = {}
    for r in recs:
        kinds[r["kind"]] = kinds.get(r["kind"], 0) + 1
        if r["kind"] not in ("same", "library"):
            cx.corr_bad.append(("catalog skeleton / diagnostic", {"stage": "binding", "binding": "correspondence",
                                                                  "project": [(C.hx(a), C.hx(b)) for a, b in projects[r["k"]]]},
                                r["impl"][:200], r["model"][:200]))
    res.notes["binding_correspondence"] = kinds


def stage_rules_survive(cx):
    """the schema a bound path variable carries is the schema that was declared for it: the node under pathVariables equals the
    node of the same property of a TYPE with the same body (optional flag, rules, notes, type), written directly, through a
    `Path @type` body and through allOf"""
    import json as _json
    from .. import proj as P
    res = cx.res
    props = ['"id": 1 // {optional: true}', '"id": 1 // {min: 1, max: 9}', '"id": "a" // {type: "string", minLength: 1} - a note', '"id": 5 // {const: true}',
             '"id": 1.5 // {precision: 1, optional: true}', '"id": "x" // {enum: ["x", "y"]}', '"id": 1 // {nullable: true}']
    docs = []
    for pr_ in props:
        body = "{\n      %s\n    }" % pr_
        decl = "TYPE @decl\n  {\n    %s\n  }\n" % pr_
        docs.append(("direct", "JSIGHT 0.3\n" + decl + "GET /c/{id}\n  Path\n    " + body + "\n  200 any\n"))
        docs.append(("shortcut", "JSIGHT 0.3\n" + decl + "GET /c/{id}\n  Path\n    @decl\n  200 any\n"))
        docs.append(("allof", "JSIGHT 0.3\n" + decl + "GET /c/{id}\n  Path\n    { // {allOf: \"@decl\"}\n    }\n  200 any\n"))
    outs = C.run_sharded("harness", "fn", [P.run_line("out=json", [("a.jst", d.encode())]) for _, d in docs])
    res.count(len(docs))
    n_ok = 0

    def strip(x):
        if isinstance(x, dict):
            return {k: strip(v) for k, v in x.items() if k not in ("inheritedFrom",)}
        if isinstance(x, list):
            return [strip(v) for v in x]
        return x
    for (form, d), o in zip(docs, outs):
        st, dd = P.parse(o)
        if st != "ok":
            continue
        j = _json.loads(C.unhx(dd["json"]))
        try:
            want = j["userTypes"]["@decl"]["schema"]["content"]["children"][0]
            got = j["interactions"]["http GET /c/{id}"]["pathVariables"]["schema"]["content"]["children"][0]
        except Exception:
            cx.spec_bad.append(("binding: the document is accepted without pathVariables for {id}:\n%s" % d, {"doc": C.hx(d.encode()), "theorem": "binding_correct"}))
            continue
        n_ok += 1
        res.nontrivial(("rules-survive", d))
        if strip(want) != strip(got):
            cx.spec_bad.append(("binding: the path variable {id} does not carry the schema declared for it (%s form): declared %s, bound %s; document:\n%s" % (
                form, _json.dumps(strip(want), sort_keys=True)[:300], _json.dumps(strip(got), sort_keys=True)[:300], d), {"doc": C.hx(d.encode()), "theorem": "binding_correct"}))
    res.notes["rules_survive_binding"] = {"documents": len(docs), "accepted_and_compared": n_ok}


STAGES = [stage_pathparams, stage_similar, stage_binding, stage_rules_survive]


def run(res, tier, seed, replay):
    pr = C.prepare("C13", res)
    res.coverage["rule"] = ("pathparams: every byte string over {'/','{','}','a','b'} up to the length bound (exhaustive) "
                            "plus seeded random strings over a pool with NUL, 0xFF, '%', '\\\\', UTF-8 bytes; "
                            "non-trivial = the implementation reports a parameter or an error; "
                            "similar: all ordered pairs of paths of <=3 segments over {a,b,{x},{y},{}} and of byte strings "
                            "up to the bound, sampled longer sequences; non-trivial = rejected; "
                            "binding: one family of paths with shared prefixes, every prefix undeclared or declared at every "
                            "possible host (URL or method), random path trees of <= 5 paths and depth <= 4, and faulty variants "
                            "(unmatched property, prefix declared twice, {} / repeated {name}, Path body that is not a flat object)")
    if not (pr.harness_ok and pr.model_ok):
        res.violation("build failed: " + (pr.harness_err or pr.model_err)[-800:],
                      {"obligation": "build of harness/model"}, found_input=False)
        return
    cx = Ctx(res, pr, tier, seed, replay)
    res.coverage["exhaustive"] = True
    for st in STAGES:
        st(cx)
    judge(res, pr, cx.corr_bad, cx.spec_bad)


def judge(res, pr, corr_bad, spec_bad):
    for what, rp in spec_bad[:5]:
        res.violation(what, rp)
    if spec_bad:
        return
    if not pr.proof_ok:
        res.violation("proof obligation no longer checks: %s" % pr.proof_err,
                      {"obligation": pr.proof_err, "theorems": pr.theorems}, found_input=False)
    if corr_bad:
        label, rp, i, m = corr_bad[0]
        res.violation("model and implementation disagree on %s %r: impl=%s model=%s (%d disagreements); "
                      "the implementation satisfied the executable specification on every input tried" % (
                          label, rp, i, m, len(corr_bad)),
                      dict(rp, correspondence=label, impl=i, model=m), found_input=False)
