"""C05 — Surface syntax is immaterial: comments, blanks, indentation, newlines, quoting, parentheses."""
import json
import random
import re

from .. import common as C
from .. import genprop as GP
from .. import proj as P
from .. import scancheck as S

KNOWN_BARE = "C05/bare-hash-comment-next-to-a-body"
KNOWN_BLOCK = "C05/block-comment-then-directive-on-one-line-after-a-body"
BARE_RE = re.compile(r"#[ \t]*(␍?\n)")
BLOCK_SAME_LINE_RE = re.compile(r"###[ \t]*[^\s#␍]")


def take(prop, cls):
    return prop in ("C05", "C08xC05", "C07xC08xC05")


def known_bare(cls, what, doc):
    return KNOWN_BARE if BARE_RE.search(doc) else None


def known_block(cls, what, doc):
    return KNOWN_BLOCK if BLOCK_SAME_LINE_RE.search(doc) else None

KW = ["JSIGHT", "INFO", "Title", "Version", "Description", "SERVER", "BaseUrl", "URL", "GET", "POST", "PUT", "PATCH", "DELETE",
      "Body", "Request", "Path", "Headers", "Query", "TYPE", "ENUM", "MACRO", "PASTE", "INCLUDE", "Protocol", "Method", "Params",
      "Result", "TAG", "Tags"]
DIR_RE = re.compile(r"^([ \t]*)(" + "|".join(KW) + r"|[1-5][0-9][0-9])(?=[ \t]|$)")


def directive_lines(text, lex=None):
    """indices of the lines on which a directive starts, as the implementation's own lexer sees the (accepted) original:
    the line holds a keyword lexeme and nothing but blanks before it.  Lines inside description text, schema bodies and
    block comments are therefore never eligible"""
    lines = text.split("\n")
    starts = []
    off = 0
    for l in lines:
        starts.append(off)
        off += len(l) + 1
    out = []
    if lex is None:
        lex = C.run_lines("harness", "fn", ["lex " + C.hx(text.encode("latin1"))])[0]
    import bisect
    prev_kind = None
    directive_lines.after_plain = set()
    for item in lex.split("|")[0].split(","):
        if not item:
            continue
        k, b, e = item.split(":")
        pk, prev_kind = prev_kind, k
        if k != "0" or pk == "5":
            # not a keyword, or the directive follows free description text: whatever is put before it would join the text
            continue
        b = int(b)
        li = bisect.bisect_right(starts, b) - 1
        if lines[li][: b - starts[li]].strip(" \t") == "" and li not in out:
            out.append(li)
            if pk in ("0", "1", "2", "6", "7"):
                # the lexeme before it is no body: a comment here is the scanner's own business, not the schema library's
                directive_lines.after_plain.add(li)
    return lines, out


def transforms(rng, text, lex=None):
    """meaning-preserving rewrites of one document; yields (name, new_text)"""
    lines, dl = directive_lines(text, lex)
    # a multi-line note inside a body is free text: its line ends are content (excluded by the property)
    multiline_note = False
    if lex:
        for item in lex.split("|")[0].split(","):
            if item and item.split(":")[0] in ("3", "4", "8"):
                _, b, e = item.split(":")
                if re.search(r"/\*[^*]*\n", text[int(b):int(e) + 1]):
                    multiline_note = True
    if not multiline_note:
        yield "crlf", text.replace("\n", "\r\n")
        yield "cr", text.replace("\n", "\r")
    if not dl:
        return
    # blank lines / comment lines / block comments before directive lines
    for name, ins in (("blank", ["", "   ", "\t"]), ("comment", ["# a comment", "    # indented comment // not an annotation"]),
                      ("blockcomment", ["###\n any text (GET /x) \n###"])):
        ls = list(lines)
        for i in sorted(rng.sample(dl, max(1, len(dl) // 3)), reverse=True):
            ls[i:i] = [rng.choice(ins)]
        yield name, "\n".join(ls)
    # the shortest comments: nothing but the sign(s), directly followed by the line end
    plain = sorted(getattr(directive_lines, "after_plain", set()))
    if plain:
        ls = list(lines)
        for i in sorted(rng.sample(plain, max(1, len(plain) // 2)), reverse=True):
            ls[i:i] = [rng.choice(["#", "##", "  ##", "#\t", "\t#", "## x", "#x", "###x###", "### ###"])]
        yield "barecomment", "\n".join(ls)
    # trailing whitespace after directive lines that have no body on the same line
    ls = list(lines)
    for i in dl:
        if rng.random() < 0.5 and not ls[i].rstrip().endswith(("{", "[")):
            ls[i] = ls[i] + rng.choice(["  ", "\t", " \t "])
    yield "trailing", "\n".join(ls)
    # a trailing comment after a directive line
    ls = list(lines)
    for i in dl:
        if rng.random() < 0.3 and "//" not in ls[i] and "/*" not in ls[i] and '"' not in ls[i] and "#" not in ls[i]:
            ls[i] = ls[i] + "   # tail comment"
    yield "tailcomment", "\n".join(ls)
    # indentation of directive lines
    ls = list(lines)
    for i in dl:
        m = DIR_RE.match(ls[i])
        if m is None:
            continue      # a directive line the pattern does not describe (the lexer found it): left as it is
        ls[i] = rng.choice(["", " ", "    ", "\t", "        "]) + ls[i][len(m.group(1)):]
    yield "indent", "\n".join(ls)
    # quoting of an unquoted first parameter
    ls = list(lines)
    for i in dl:
        m = re.match(r"^([ \t]*(?:URL|GET|POST|PUT|PATCH|DELETE|Title|Version|BaseUrl|Method)[ \t]+)([^\s\"#/][^\s#]*|/[^\s#*/][^\s#]*)(.*)$", ls[i])
        if m and rng.random() < 0.7 and "\\" not in m.group(2):
            ls[i] = m.group(1) + '"' + m.group(2) + '"' + m.group(3)
    yield "quote", "\n".join(ls)


def run(res, tier, seed, replay):
    pr = C.prepare("C05", res, need_gens=("scanner", "typing", "tables"))
    rng = random.Random(seed)
    quick = tier == "quick"
    res.coverage["rule"] = ("accepted fixture documents x rewritings (LF->CRLF, LF->CR, blank lines, line and block comments before "
                            "directive lines, trailing whitespace and trailing comments, re-indentation of directive lines, quoting of "
                            "bare parameters; description text lines are never touched); compared: verdict and compact JSON of the "
                            "implementation; non-trivial = the rewritten text differs from the original and is accepted; distinct by text hash")
    if not pr.harness_ok:
        res.violation("build failed: " + pr.harness_err[-800:], {"obligation": "build"}, found_input=False)
        return
    files = [f for f in S.fixture_files() if "/err" not in f and "include" not in f.lower()]
    files = rng.sample(files, 150 if quick else len(files))
    cases = []
    if replay and "gen_seed" in json.load(open(replay)):
        cases = []
    elif replay:
        r = json.load(open(replay))
        cases = [("replay", r["transform"], C.unhx(r["original"]).decode("latin1"), C.unhx(r["rewritten"]).decode("latin1"))]
    else:
        texts = [open(f, "rb").read().decode("latin1") for f in files]
        lexes = C.run_sharded("harness", "fn", ["lex " + C.hx(t.encode("latin1")) for t in texts])
        for f, t, lx in zip(files, texts, lexes):
            if "\r" in t:
                continue
            for name, nt in transforms(rng, t, lx):
                if nt != t:
                    cases.append((f, name, t, nt))
    lines0 = [P.run_line("out=sha", [("a.jst", t.encode("latin1"))]) for (_, _, t, _) in cases]
    lines1 = [P.run_line("out=sha", [("a.jst", nt.encode("latin1"))]) for (_, _, _, nt) in cases]
    uniq = {}
    o0 = C.run_sharded("harness", "fn", lines0)
    o1 = C.run_sharded("harness", "fn", lines1)
    res.count(len(cases) * 2)
    bad = []
    per = {}
    for (f, name, t, nt), a, b in zip(cases, o0, o1):
        sa, da = P.parse(a)
        sb, db = P.parse(b)
        if sa != "ok":
            continue
        per[name] = per.get(name, 0) + 1
        res.nontrivial((name, nt))
        if sb != "ok" or da.get("sha") != db.get("sha"):
            bad.append((f, name, t, nt, b))
    res.notes["input_distribution"] = {"documents": len(files), "rewritten_pairs": len(cases), "per_rewriting": per}
    if cases:
        f, name, t, nt = cases[len(cases) // 2]
        res.sample({"file": f, "rewriting": name, "rewritten_head": nt[:200]})
    for f, name, t, nt, b in bad[:5]:
        st, d = P.parse(b)
        res.violation("rewriting '%s' of %s changes the result: now %s %s" % (name, f, st, C.unhx(d.get("msg", "-")).decode("latin1")[:120] if st == "err" else d.get("sha")),
                      {"transform": name, "file": f, "original": C.hx(t.encode("latin1")), "rewritten": C.hx(nt.encode("latin1")), "outcome": b[:300]})
    if bad:
        return
    if not replay or "gen_seed" in json.load(open(replay)):
        # generated API models under random trivia plans (comments, blank lines, indentation, line ends, quoting, parentheses,
        # block annotations), also cut into includes and macros
        quick = tier == "quick"
        runs = [("plain", False, take, None, 100 if quick else 1000),
                ("with '#' inside line comments and quoted INCLUDE names", ["hash-in-line-comment", "quote-include"], take, None, 50 if quick else 400),
                ("with bare '#' comments", ["empty-line-comment"], take, known_bare, 50 if quick else 400),
                ("with a directive on the line a block comment ends on", ["block-comment-same-line"], take, known_block, 50 if quick else 400)]
        if replay:
            rpj = json.load(open(replay))
            runs = [r for r in runs if (r[1] or False) == rpj.get("risky", False)] or runs[:1]
        gbad = []
        for label, risky, tk, kr, n in runs:
            last, b = GP.run(res, "C05", tier, seed, replay, pr, tk, kr, risky=risky, n=n, label=label)
            gbad += b
        for msg, rp, found in gbad[:4]:
            res.violation("a rewriting that does not change what the document says changes the result: " + msg, rp, found_input=found)
        if gbad:
            return
    if not pr.proof_ok:
        res.violation("proof obligation no longer checks: %s" % pr.proof_err, {"obligation": pr.proof_err, "theorems": pr.theorems}, found_input=False)
