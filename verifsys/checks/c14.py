"""C14 — Lexical integrity: lexemes are well-formed and nothing but trivia is skipped."""
import json
import random

from .. import common as C
from .. import scancheck as S


def targeted_inputs(rng, pool, bad):
    """inputs that drive the machine into the offending (state, byte): every place in the pool
    where the model is in that state, followed by that byte and a few continuations"""
    st, c = bad
    out = []
    sample = pool if len(pool) < 1500 else rng.sample(pool, 1500)
    traces = C.run_sharded("modelrun", None, ["trace " + C.hx(d) for d in sample])
    for d, tr in zip(sample, traces):
        if not tr:
            continue
        for item in tr.split(","):
            p, s = item.split(":")
            if int(s) == st:
                p = int(p)
                for suf in (b"", b"\n", b" x\n", d[p + 1:], b"/ y */\n", b"\nGET /z\n"):
                    out.append(d[:p] + bytes([c]) + suf)
                if len(out) > 4000:
                    return out
    return out


def run(res, tier, seed, replay):
    pr = C.prepare("C14", res, need_gens=("scanner", "typing", "tables"))
    rng = random.Random(seed)
    res.coverage["rule"] = ("inputs: token sequences over an alphabet of all keywords, delimiters, newline spellings, "
                            "parameters and bodies (exhaustive singles, sampled pairs/longer), every prefix of sampled "
                            "fixture files, byte/token mutations of fixtures; non-trivial = the implementation produced "
                            ">= 3 lexemes or an error past byte 0; distinct by input hash")
    if not (pr.harness_ok and pr.model_ok):
        res.violation("build failed: " + (pr.harness_err or pr.model_err)[-800:], {"obligation": "build of harness/model"}, found_input=False)
        return
    files = S.fixture_files()
    quick = tier == "quick"
    if replay:
        inputs = [C.unhx(json.load(open(replay)).get("input", "-"))]
    else:
        inputs = S.gen_tok(rng, 2 if quick else 3, 3000 if quick else 60000)
        inputs += [open(f, "rb").read() for f in files]
        inputs += S.gen_prefixes(rng, files, 6 if quick else 60)
        inputs += S.gen_mut(rng, files, 1500 if quick else 40000)
        inputs += S.gen_directed()
        # corpus of earlier failures first
        inputs = [b"GET /a /*/", b"GET /a /*/ x */\n", b"Description\n(see) hello\nGET /x\n  200 any\n", b"(",
                  b"GET /a\n200 regex\n/ab\\"] + inputs
    bad_spot = None
    if not pr.proof_ok:
        fb = C.run_lines("modelrun", None, ["findbad"])[0]
        if fb and fb[0].isdigit():
            st, c, name = fb.split(" ")
            bad_spot = (int(st), int(c), name)
            inputs += targeted_inputs(rng, inputs, (int(st), int(c)))
    impl, model = S.run_corr(inputs)
    res.count(len(inputs))
    res.coverage["traces_validated_against_impl"] = len(inputs)
    corr_bad, spec_bad = [], []
    ends = {}
    body_q, body_meta = [], []
    for d, i, m in zip(inputs, impl, model):
        lex, end = S.parse_stream(i)
        ends[end.split(":")[0]] = ends.get(end.split(":")[0], 0) + 1
        if len(lex) >= 3 or (end.startswith("err:") and end != "err:0"):
            res.nontrivial(d)
        if i != m:
            corr_bad.append((d, i, m))
        fails = S.spec_lexemes(d, lex, end)
        if fails:
            spec_bad.append((d, fails[0], i))
        q, idx = S.body_lengths_ok(d, lex)
        for qq, ii in zip(q, idx):
            body_q.append(qq)
            body_meta.append((d, ii, i))
    # a body lexeme is exactly one value as delimited by the schema library
    if body_q:
        if len(body_q) > 20000:
            sel = rng.sample(range(len(body_q)), 20000)
            body_q = [body_q[j] for j in sel]
            body_meta = [body_meta[j] for j in sel]
        ans = C.run_sharded("harness", "oracle", body_q)
        res.count(len(body_q))
        for a, (d, (k, b, e), i) in zip(ans, body_meta):
            if a.startswith("ok "):
                n = int(a[3:])
                if n != e - b + 1 and not (n == 0 and e - b + 1 == 1):
                    spec_bad.append((d, "body lexeme [%d:%d] has length %d but the library delimits %d bytes" % (b, e, e - b + 1, n), i))
            elif k == 5:
                # the library gives no length because the expression it delimits does not COMPILE (it delimits first, at the
                # first '/' that no odd run of backslashes precedes - notations/regex doCompile - and compiles afterwards): the
                # lexeme must still end at that '/'
                rest = d[b:]
                esc, end_ = False, None
                for x in range(1, len(rest)):
                    ch = rest[x:x + 1]
                    if ch == b"\\":
                        esc = not esc
                    elif ch == b"/":
                        if not esc:
                            end_ = x
                            break
                        esc = False
                    else:
                        esc = False
                if end_ is not None and end_ + 1 != e - b + 1:
                    spec_bad.append((d, "regex body lexeme [%d:%d] has length %d but the library delimits %d bytes (the first '/' that is not "
                                        "escaped; the delimited expression does not compile)" % (b, e, e - b + 1, end_ + 1), i))
            else:
                # (a regex body is delimited by the scanner's own states; an expression the library cannot compile is refused
                #  later, when the catalog is built - only its LENGTH is compared here, when the library gives one)
                spec_bad.append((d, "body lexeme [%d:%d] is not a value the library accepts (%s)" % (b, e, a), i))
    res.notes["input_distribution"] = {"inputs": len(inputs), "fixture_files": len(files), "ends": ends,
                                       "body_lexemes_checked": len(body_q)}
    for d, i in list(zip(inputs, impl))[5:8]:
        res.sample({"input": d[:80].decode("latin1"), "impl_stream": i[:160]})

    for d, why, i in spec_bad[:5]:
        res.violation("lexical integrity fails on %r: %s" % (d[:60], why),
                      {"input": C.hx(d), "impl_stream": i, "why": why, "table_obligation": bad_spot})
    if spec_bad:
        return
    if not pr.proof_ok:
        res.violation("proof obligation no longer checks: %s%s" % (pr.proof_err, (" first offending (state, byte): %s" % (bad_spot,)) if bad_spot else ""),
                      {"obligation": pr.proof_err, "table_obligation": bad_spot, "theorems": pr.theorems}, found_input=False)
    if corr_bad:
        d, i, m = corr_bad[0]
        res.violation("scanner model and implementation disagree on %r (%d disagreements); the implementation's "
                      "streams satisfied the executable specification on every input tried" % (d[:60], len(corr_bad)),
                      {"correspondence": "lexeme stream", "input": C.hx(d), "impl": i, "model": m}, found_input=False)
