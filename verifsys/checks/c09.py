"""C09 — For every accepted project, serialisation succeeds and yields valid UTF-8 JSON with no
repeated key in any object, the indented and compact forms denote the same value, and the document is
self-consistent (interaction keys = ids = protocol method path; tags <-> interactions; used user
types/enums exist; every request/response has a body whose format matches its notation; Title() =
info.title).

Proof side  : coq/props/C09.v over the hand model coq/model/Catalog.v (skeleton level).
Dynamic side: (i)   model vs implementation on the full pipeline (corecheck.compare_full): every
                    fixture document of /repo/testdata, directive-kind sequences, stress documents;
              (ii)  the independent Python statement of C09 evaluated on the IMPLEMENTATION's compact
                    and indented JSON and Title() (harness `run out=both`);
              (iii) documents that stress names / paths / method names (spaces, quotes, non-ASCII,
                    invalid UTF-8);
              (iv)  stage_json_keys: the Gallina model of encoding/json's string writer
                    (coq/model/JsonString.v: json_quote, valid_utf8, json_unquote, decode_rune; the
                    theorems json_text_*_keys_unique_partial of props/C09.v are about it) against
                    json.Marshal / utf8.ValidString / json.Unmarshal / utf8.DecodeRuneInString, against
                    the key text that the library's own one-entry Servers / UserTypes / UserEnums /
                    Tags / Interactions write inside Catalog.ToJson and ToJsonIndent, and against the
                    key texts of whole accepted projects (harness jsonkey / jsonkeycat / jsonkeyproj).
Known finding classes (reported as KNOWN-FINDING when listed in known_findings.json, else violations):
  rpc-id-space      two different JSON-RPC ids (method, path) with one String(): Method "x /b" on /a
                    and Method x on "/b /a" (theorems rpc_id_string_not_injective_refuted,
                    json_keys_unique_refuted)
  invalid-utf8-key  ids that differ only in bytes that are not valid UTF-8: encoding/json writes
                    U+FFFD for each of them, so different keys of the Interactions map become one
                    JSON key (the byte-level key is unique: theorem keys_unique)
"""
import concurrent.futures as cf
import glob
import json
import os
import random
import re

from .. import common as C
from .. import corecheck as K
from .. import proj as P
from .. import scancheck as S
from .. import skeleton as SK

KNOWN_RPC = "C09/json-rpc-id-key-collision"
KNOWN_UTF8 = "C09/invalid-utf8-key-collapse"
FORMAT_OF = {"jsight": "json", "regex": "plainString", "any": "binary", "empty": "binary"}
QUICK_MODEL_BYTES = 5000          # quick tier: the model is run on projects up to this size

INC = re.compile(rb'^[ \t]*INCLUDE[ \t]+"?([^\s"]+)', re.M)


# ---------------------------------------------------------------------------------------------
# inputs

def project_of(f):
    """the fixture file f as root plus the files it INCLUDEs (transitively)"""
    root_dir = os.path.dirname(f)
    seen = set()
    order = []

    def add(path):
        rel = os.path.relpath(path, root_dir)
        if rel in seen or rel.startswith(".."):
            return
        if os.path.isdir(path):
            seen.add(rel)
            order.append((rel + "/", b""))
            return
        if not os.path.isfile(path):
            return
        t = open(path, "rb").read()
        seen.add(rel)
        order.append((rel, t))
        for m in INC.finditer(t):
            add(os.path.normpath(os.path.join(os.path.dirname(path), m.group(1).decode("latin1"))))

    add(f)
    return order


PATHS = [b"/a", b'"/a b"', b'"/a  b"', b'"/b /a"', b"/a\xff", b"/a\xfe", b'"/a\xff"', "/é".encode(), '"/é è"'.encode(),
         b"/a/", b"/a//b", b"/a/b", b"/./a", b"/../a", b'"/a\\"b"', b"/a\\b", b"/{id}", b"/a%20b", b"/a_b", b"/_", b"/%",
         b'"/ "', b"/\xef\xbf\xbd", b"/a\xc3", b"/a'b", b"/a<b>&", b"/\xe2\x80\xa8", b"/a\xe2\x80", b"/", b'"/a\tb"']
METHODS = [b"x", b'"x /b"', b'"x y"', b'"x "', b'" x"', "é".encode(), b'"a\xff"', b'"a\xfe"', b'"a\\"b"',
           b'"json-rpc-2.0"', b'"<&>"', b'"x /b /a"']
RPC_PATHS = [b"/a", b'"/b /a"', b'"/a b"', b"/r\xff", b"/r\xfe", b'"/y /a"']
NAMES = [b"@a", b"@a_b", b"@A", b"@a1", "@é".encode(), b"@a\xff", b"@a\xfe", b'"@a b"', b"@a-b", b"@a.b", b"@", b"@@a"]
TEXTS = [b'"T"', '"é"'.encode(), b'"a\\"b"', b'"a\\\\b"', b'"a\xff"', b'"a\xe2\x80 b"', b'"<&>"', b'"\xe2\x80\xa8"', b'"a\tb"',
         b"T1", b'""', b'"a // b"', b'"\\u003cb\\u003e"', b'"a \\u0026 b"', b'"<b> \\u003e"', b'"\\\\u003c"']
J = b"JSIGHT 0.3\n"
# (method, path) pairs whose "protocol method path" strings coincide or nearly do
COLLISION_CANDIDATES = [
    ((b'"x /b"', b"/a"), (b"x", b'"/b /a"')),
    ((b'"x /b /a"', b"/c"), (b'"x /b"', b'"/a /c"')),
    ((b'"x /b /a"', b"/c"), (b"x", b'"/b /a /c"')),
    ((b'"x "', b"/a"), (b"x", b'"/ /a"')),
    ((b'"x  /b"', b"/a"), (b'"x "', b'"/b /a"')),
    ((b'"x /b"', b"/a"), (b'"x /b"', b'"/a "')),
    ((b'"x y"', b"/a"), (b'"x"', b'"/y /a"')),
]


def stress_documents(rng, quick):
    docs = []
    for a in range(len(PATHS)):
        for b in range(a, len(PATHS)):
            docs.append(("http-paths", J + b"GET " + PATHS[a] + b"\n  200 any\n" + (b"POST " if a == b else b"GET ") + PATHS[b] + b"\n  200 any\n"))
    combos = [(m, p) for m in METHODS for p in RPC_PATHS]
    pairs = [(x, y) for i, x in enumerate(combos) for y in combos[i + 1:]]
    if quick:
        must = [(x, y) for x, y in pairs if b" " in x[0] + y[0] + x[1] + y[1] and (b"\xff" not in x[0] + y[0])]
        pairs = rng.sample(must, min(len(must), 500)) + rng.sample(pairs, 400)
    pairs = COLLISION_CANDIDATES + pairs
    for (m1, p1), (m2, p2) in pairs:
        if p1 == p2:
            docs.append(("rpc", J + b"URL " + p1 + b"\n  Protocol json-rpc-2.0\n  Method " + m1 + b"\n  Method " + m2 + b"\n"))
        else:
            docs.append(("rpc", J + b"URL " + p1 + b"\n  Protocol json-rpc-2.0\n  Method " + m1 + b"\nURL " + p2 +
                         b"\n  Protocol json-rpc-2.0\n  Method " + m2 + b"\n"))
    for a in NAMES:
        for b in NAMES:
            docs.append(("types", J + b"TYPE " + a + b"\n{}\nTYPE " + b + b"\n{}\nGET /x\n  200 " + a + b"\n"))
            docs.append(("enums", J + b"ENUM " + a + b"\n[1]\nENUM " + b + b"\n[2]\nGET /x\n  200\n  {\n    \"k\": 1 // {enum: " + a + b"}\n  }\n"))
            docs.append(("servers", J + b"SERVER " + a + b"\n  BaseUrl \"http://x\"\nSERVER " + b + b"\n  BaseUrl \"http://y\"\n"))
            docs.append(("tags", J + b"TAG " + a + b"\nTAG " + b + b" // " + rng.choice(TEXTS).strip(b'"') + b"\nGET /x\n  Tags " + a + b" " + b + b"\n  200 any\n"
                         b"URL /r\n  Tags " + b + b"\n  GET\n    200 any\nURL /q\n  Protocol json-rpc-2.0\n  Method m\n    Tags " + a + b"\n"))
    for t in TEXTS:
        for v in TEXTS[:4]:
            docs.append(("info", J + b"INFO\n  Title " + t + b"\n  Version " + v + b"\n"))
        docs.append(("info", J + b"INFO\n  Version " + t + b"\n"))
        docs.append(("info", J + b"INFO\n  Description\n    " + t + b"\nGET /a // " + t + b"\n  200 any // " + t + b"\n"))
    docs.append(("info", J))
    docs.append(("info", J + b"GET /a\n  200 any\n"))
    # a declared tag whose name is also the automatic name of a path: named through Tags by one method, met as the path tag by another
    for order in ([0, 1, 2], [0, 2, 1], [1, 0, 2], [2, 0, 1], [1, 2, 0], [2, 1, 0]):
        parts = [b"TAG @cats // Cats\n", b"GET /kittens\n  Tags @cats\n  200 any\n", b"GET /cats\n  200 any\nURL /cats/x\n  POST\n    200 any\n"]
        docs.append(("tags", J + b"".join(parts[i] for i in order)))
        parts2 = [b"TAG @cats\n  Description\n    all cats\n", b"URL /r\n  Protocol json-rpc-2.0\n  Method m\n    Tags @cats\n", b"PUT /cats/{id}\n  200 any\n"]
        docs.append(("tags", J + b"".join(parts2[i] for i in order)))
    # a request or response without a body at the k-th of n interactions (every validation loop must reach every interaction)
    good = [b"  200 any\n", b"  200\n    Body any\n", b"  Request any\n  200 any\n", b"  201 @t\n", b"  200 any\n  404 any\n"]
    lacking = [b"  200\n", b"  200\n    Headers\n      {}\n", b"  Request\n    Headers\n      {}\n  200 any\n", b"  200 any\n  404\n    Headers\n      {}\n",
               b"  404 any\n  200\n", b"  Request\n  200 any\n",
               # the codes that carry no content on the wire: the directive still has to say what the body is
               # the SAME code twice in one method, one occurrence with a body and one without: each response is serialised
               b"  200 any\n  200\n", b"  200\n  200 any\n", b"  200\n    Headers\n      {}\n  200 any\n",
               b"  404 any\n  200 any\n  200\n    Headers\n      {}\n", b"  200 @t\n  404 any\n  200\n",
               b"  204\n", b"  200 any\n  204\n", b"  304\n    Headers\n      {}\n", b"  100\n", b"  101\n  200 any\n", b"  199\n", b"  599\n"]
    for n in (1, 2, 3, 4):
        for k in range(n):
            for li, l in enumerate(lacking):
                d = J + b"TYPE @t\n  {}\n"
                for i in range(n):
                    if (i + li) % 3 == 2 and i != k:
                        d += b"URL /r%d\n  Protocol json-rpc-2.0\n  Method m\n    Params\n      {}\n" % i
                    else:
                        d += (b"POST" if b"Request" in (l if i == k else good[(i + li) % len(good)]) else b"GET") + b" /p%d\n" % i + (l if i == k else good[(i + li) % len(good)])
                docs.append(("bodies", d))
    # bodies given by the NAME of a user type of every notation (jsight object, scalar, regex, any), as the parameter of Request /
    # a response, as a Body parameter, as the body text, as an array of the type, and through an alias
    tdecl = [b"TYPE @tok regex\n  /[a-z]{3}-[0-9]{2}/\n", b"TYPE @obj\n  {\n    \"k\": 1\n  }\n", b"TYPE @str\n  \"abc\"\n", b"TYPE @whatever any\n",
             b"TYPE @alias\n  @tok\n", b"TYPE @alias2\n  @obj\n"]
    for tn in (b"@tok", b"@obj", b"@str", b"@whatever", b"@alias", b"@alias2"):
        for form in (b"POST /b\n  Request %s\n  200 %s\n", b"POST /b\n  Request\n    Body %s\n  200\n    Body %s\n", b"POST /b\n  Request\n    %s\n  200\n    %s\n",
                     b"POST /b\n  Request [%s]\n  200 [%s]\n", b"GET /b\n  200 %s\n  404 %s\n"):
            for order in (0, 1):
                blk = form % (tn, tn)
                docs.append(("bodies", J + (b"".join(tdecl) + blk if order == 0 else blk + b"".join(tdecl))))
    return docs


SEQ_ALPHABET = [7, 8, 9, "P8", "P9", 15, 14, 13, 17, 4, 18, 16, 29, 21, 22, 1, 2, 3, 5, 6, 25, 24, 26, 27, 28, 19, 20, "(", ")"]
TEMPLATES = [
    [0, 1, 2, 28, 19, "P8", 15, "P9", 14, 15],
    [0, 7, 24, 25, 26, 27, 28],
    [0, 5, 6, 7, 8, 15, 9, 14, 15, 29],
    [0, 28, 7, 29, 8, 15, 7, 24, 25],
    [0, 21, "(", 15, ")", "P8", 22, "P9", 22],
]


def sequence_documents(rng, quick):
    seqs = []
    for _ in range(2500 if quick else 40000):
        if rng.random() < 0.5:
            s = list(rng.choice(TEMPLATES))
            for _ in range(rng.randint(0, 3)):
                s.insert(rng.randint(1, len(s)), rng.choice(SEQ_ALPHABET))
            if rng.random() < 0.3 and len(s) > 2:
                del s[rng.randint(1, len(s) - 1)]
        else:
            s = [0] + [rng.choice(SEQ_ALPHABET) for _ in range(rng.randint(2, 10))]
        seqs.append(s)
    return seqs


# ---------------------------------------------------------------------------------------------
# the independent statement of C09 on one accepted result

def go_coerce(b):
    """what encoding/json makes of a Go string: every byte that does not start a valid UTF-8
    sequence becomes U+FFFD"""
    out = []
    i = 0
    while i < len(b):
        for n in (1, 2, 3, 4):
            try:
                ch = b[i:i + n].decode("utf-8")
            except UnicodeDecodeError:
                continue
            if len(ch) == 1:
                out.append(ch)
                i += n
                break
        else:
            out.append("�")
            i += 1
    return "".join(out)


def is_obj(v):
    return isinstance(v, list) and len(v) > 0 and all(isinstance(e, tuple) for e in v)


def walk_objects(v, path=()):
    """yield (path, object-as-pairs) for every JSON object in v (parse_pairs representation)"""
    if is_obj(v):
        yield path, v
        for k, x in v:
            yield from walk_objects(x, path + (k,))
    elif isinstance(v, list):
        for n, x in enumerate(v):
            yield from walk_objects(x, path + (n,))


def get(pairs, key, default=None):
    return SK.get(pairs, key, default) if isinstance(pairs, list) else default


def statement(compact, indent, title):
    """returns (violated clauses [(clause, detail)], duplicate keys [(path, key)], facts)"""
    bad = []
    facts = {"interactions": 0, "tags": 0, "bodies": 0, "used_names": 0}
    for name, b in (("compact", compact), ("indented", indent)):
        try:
            b.decode("utf-8")
        except UnicodeDecodeError as e:
            bad.append(("valid UTF-8", "%s form: %s" % (name, e)))
    try:
        v, dups = SK.parse_pairs(compact.decode("utf-8", "replace"))
        vi, dupsi = SK.parse_pairs(indent.decode("utf-8", "replace"))
    except ValueError as e:
        return bad + [("valid JSON", str(e))], [], facts
    if not is_obj(v):
        return bad + [("valid JSON", "the document is not an object")], [], facts
    if v != vi:
        bad.append(("indented and compact forms denote the same value", "they differ"))
    dup_sites = []
    for path, obj in walk_objects(v):
        seen = set()
        for k, _ in obj:
            if k in seen:
                dup_sites.append((path, k))
            seen.add(k)
    if len(dup_sites) < len(dups):          # cannot happen; keeps the two detections honest
        dup_sites += [((), k) for k in dups[len(dup_sites):]]
    inters = get(v, "interactions", []) or []
    tags = get(v, "tags", []) or []
    utypes = [k for k, _ in (get(v, "userTypes", []) or [])]
    uenums = [k for k, _ in (get(v, "userEnums", []) or [])]
    facts["interactions"] = len(inters)
    facts["tags"] = len(tags)
    # keys, ids
    for k, i in inters:
        proto = get(i, "protocol")
        method = get(i, "httpMethod") if proto == "http" else get(i, "method")
        path = get(i, "path")
        if get(i, "id") != k:
            bad.append(("interaction key equals its id", "key %r id %r" % (k, get(i, "id"))))
        if proto not in ("http", "json-rpc-2.0") or method is None or path is None or k != "%s %s %s" % (proto, method, path):
            bad.append(("interaction key encodes protocol, method and path", "key %r protocol %r method %r path %r" % (k, proto, method, path)))
        if not isinstance(path, str) or not path.startswith("/"):
            bad.append(("interaction key encodes protocol, method and path", "path %r does not start with '/'" % (path,)))
        if proto == "http" and method not in ("GET", "POST", "PUT", "PATCH", "DELETE"):
            bad.append(("interaction key encodes protocol, method and path", "HTTP method %r" % (method,)))
    # tags <-> interactions
    tag_names = [n for n, _ in tags]
    for n, t in tags:
        if get(t, "name") != n:
            bad.append(("tags and interactions reference each other", "tag key %r has name %r" % (n, get(t, "name"))))
    for k, i in inters:
        proto = get(i, "protocol")
        for n in get(i, "tags", []) or []:
            ts = [t for m, t in tags if m == n]
            if not ts:
                bad.append(("tags and interactions reference each other", "interaction %r names the tag %r which does not exist" % (k, n)))
                continue
            listed = any(k in (get(g, "interactions", []) or []) for t in ts for g in (get(t, "interactionGroups", []) or [])
                         if get(g, "protocol") == proto)
            if not listed:
                bad.append(("tags and interactions reference each other", "tag %r does not list interaction %r under %r" % (n, k, proto)))
    for n, t in tags:
        for g in get(t, "interactionGroups", []) or []:
            for k in get(g, "interactions", []) or []:
                cands = [i for kk, i in inters if kk == k]
                if not cands:
                    bad.append(("tags and interactions reference each other", "tag %r lists %r which is no interaction" % (n, k)))
                elif not any(n in (get(i, "tags", []) or []) and get(i, "protocol") == get(g, "protocol") for i in cands):
                    bad.append(("tags and interactions reference each other", "tag %r lists %r whose tags do not contain it (or under the wrong protocol)" % (n, k)))
    # used user types / enums named anywhere
    for path, obj in walk_objects(v):
        for key, coll, what in (("usedUserTypes", utypes, "user type"), ("usedUserEnums", uenums, "user enum")):
            for n in get(obj, key, []) or []:
                facts["used_names"] += 1
                if n not in coll:
                    bad.append(("every used user type or enum exists", "%s %r named at %s does not exist" % (what, n, "/".join(map(str, path)))))
        # ... and named inside schema contents: enum rules, type references ("@a | @b")
        sv = get(obj, "scalarValue")
        if isinstance(sv, str) and "rules" in path:
            if get(obj, "key") == "enum" and get(obj, "tokenType") == "reference":
                facts["used_names"] += 1
                if sv not in uenums:
                    bad.append(("every used user type or enum exists", "enum %r named by a rule at %s does not exist" % (sv, "/".join(map(str, path)))))
            elif get(obj, "key") == "type" and sv.startswith("@"):
                facts["used_names"] += 1
                if sv not in utypes:
                    bad.append(("every used user type or enum exists", "user type %r named by a rule at %s does not exist" % (sv, "/".join(map(str, path)))))
        elif isinstance(sv, str) and get(obj, "tokenType") == "reference":
            for n in sv.split(" | "):
                if n.startswith("@"):
                    facts["used_names"] += 1
                    if n not in utypes:
                        bad.append(("every used user type or enum exists", "user type %r named at %s does not exist" % (n, "/".join(map(str, path)))))
    # bodies
    def body_ok(where, holder):
        b = get(holder, "body")
        if b is None:
            bad.append(("every request and response has a body", where))
            return
        facts["bodies"] += 1
        nt = get(get(b, "schema", []), "notation")
        if nt not in FORMAT_OF or get(b, "format") != FORMAT_OF[nt]:
            bad.append(("body format matches its notation", "%s: format %r notation %r" % (where, get(b, "format"), nt)))

    for k, i in inters:
        if get(i, "protocol") != "http":
            continue
        r = get(i, "request")
        if r is not None:
            body_ok("request of %r" % k, r)
        for x in get(i, "responses", []) or []:
            body_ok("response %r of %r" % (get(x, "code"), k), x)
    # Title()
    info = get(v, "info")
    want = get(info, "title", "") if info is not None else ""
    if go_coerce(title) != (want or ""):
        bad.append(("Title() equals info.title", "Title() = %r, info.title = %r" % (title, want)))
    return bad, dup_sites, facts


def classify_dup(v_pairs, site, root_bytes):
    """a repeated key: which known class (or None)"""
    path, key = site
    if path != ("interactions",):
        return None
    entries = [i for k, i in (get(v_pairs, "interactions", []) or []) if k == key]
    try:
        root_bytes.decode("utf-8")
        valid = True
    except UnicodeDecodeError:
        valid = False
    if key.startswith("json-rpc-2.0 "):
        mp = {(get(i, "method"), get(i, "path")) for i in entries}
        if len(mp) == len(entries) and any(" " in (m or "") for m, _ in mp) and all(get(i, "protocol") == "json-rpc-2.0" for i in entries):
            return "rpc-id-space"
    if "�" in key and not valid:
        return "invalid-utf8-key"
    return None


# ---------------------------------------------------------------------------------------------
# (iv) the JSON text of a key: model/JsonString.v against encoding/json and the library's marshalling

# bytes that the writer treats specially, and the pieces of the multi-byte sequences named below
JK_ALPHABET = bytes([0x22, 0x5c, 0x3c, 0x3e, 0x26, 0x00, 0x08, 0x09, 0x0a, 0x0c, 0x0d, 0x1f, 0x20, 0x2f, 0x61, 0x7f,
                     0x80, 0x8f, 0x90, 0x9f, 0xa0, 0xa8, 0xa9, 0xbd, 0xbf, 0xc0, 0xc2, 0xe0, 0xe2, 0xed, 0xef, 0xf0, 0xf4, 0xff])
JK_TOKENS = [bytes([c]) for c in JK_ALPHABET] + [
    b"\xc3\xa9", b"\xc2\x80", b"\xdf\xbf", b"\xc0\x80", b"\xc1\xbf",                   # 2 bytes; overlong
    b"\xe2\x80\xa8", b"\xe2\x80\xa9", b"\xe2\x80\xa7", b"\xe2\x80\xaa", b"\xe2\x81\xa8",  # U+2028, U+2029 and neighbours
    b"\xe0\xa0\x80", b"\xe0\x9f\xbf", b"\xe0\x80\x80",                                  # least 3-byte; overlong
    b"\xed\x9f\xbf", b"\xed\xa0\x80", b"\xed\xbf\xbf", b"\xee\x80\x80",                  # around the surrogates
    b"\xef\xbf\xbd", b"\xef\xbf\xbe", b"\xef\xbf\xbf", b"\xef\xbb\xbf",                  # U+FFFD itself, U+FFFE/F, BOM
    b"\xf0\x90\x80\x80", b"\xf0\x8f\xbf\xbf", b"\xf0\x9f\x98\x80", b"\xf4\x8f\xbf\xbf", b"\xf4\x90\x80\x80",
    b"\xf5\x80\x80\x80", b"\xf8\x88\x80\x80\x80", b"\xf0\x90\x80", b"\xe2\x80", b"\xf0\x9f\x98",   # out of range; cut short
    b"\\u2028", b"\\ufffd", b"\\\"", b"\\\\", b"\\u003c", b"</script>", b"http GET /a",
]


def jk_strings(rng, quick):
    """(origin, bytes) pairs, no duplicates"""
    seen = set()
    out = []

    def add(origin, b):
        if b not in seen:
            seen.add(b)
            out.append((origin, b))

    for b in C.all_strings(JK_ALPHABET, 3):
        add("alphabet<=3", b)
    for a in range(256):
        add("every byte", bytes([a]))
    for a in range(256):
        for b in range(256):
            add("every pair of bytes", bytes([a, b]))
    for n in (1, 2) if quick else (1, 2, 3):
        cur = [b""]
        for _ in range(n):
            cur = [x + t for x in cur for t in JK_TOKENS]
        for b in cur:
            add("tokens<=%d" % (2 if quick else 3), b)
    for _ in range(6000 if quick else 150000):
        n = rng.randint(3, 40)
        parts = []
        while sum(map(len, parts)) < n:
            r = rng.random()
            if r < 0.55:
                parts.append(rng.choice(JK_TOKENS))
            elif r < 0.8:
                parts.append(bytes([rng.randrange(256)]))
            else:
                parts.append(chr(rng.choice([rng.randrange(0x80, 0x800), rng.randrange(0x800, 0xd800), rng.randrange(0xe000, 0x10000),
                                             rng.randrange(0x10000, 0x110000), 0x2028, 0x2029, 0xfffd])).encode("utf-8"))
        add("random", b"".join(parts))
    return out


def jk_documents(strings, rng, quick):
    """one-file projects whose path / method name / declaration name holds the bytes; most of them
    are rejected for most byte strings, the accepted ones are what is compared"""
    pool = [b for o, b in strings if o in ("alphabet<=3", "every byte") and len(b) <= 2]
    tok = [b for o, b in strings if o.startswith("tokens")]
    pool += rng.sample(tok, min(len(tok), 3000 if quick else 30000))
    rnd = [b for o, b in strings if o == "random"]
    pool += rng.sample(rnd, min(len(rnd), 1500 if quick else 20000))
    docs = []
    for b in pool:
        q = b.replace(b"\\", b"\\\\").replace(b'"', b'\\"')
        docs.append(J + b"GET /x" + b + b"\n  200 any\n")
        docs.append(J + b'GET "/x' + q + b'"\n  200 any\n')
        docs.append(J + b'URL /r\n  Protocol json-rpc-2.0\n  Method "m' + q + b'"\n')
        docs.append(J + b"TAG @t" + b + b"\nSERVER @s" + b + b'\n  BaseUrl "http://x"\n')
        docs.append(J + b"TYPE @u" + b + b"\n  {}\nENUM @e" + b + b"\n  [1]\nGET /y\n  200 @u" + b + b"\n")
    return docs


def stage_json_keys(res, rng, quick, only=None):
    """returns (mismatches, clause_violations): lists of (message, replay dict)"""
    strings = [("replay", b) for b in only] if only is not None else jk_strings(rng, quick)
    hexes = [C.hx(b) for _, b in strings]
    mismatches, clause_bad = [], []

    def mismatch(what, b, model, impl):
        mismatches.append(("JSON key text: %s: model and implementation disagree on the bytes %r: model %s, implementation %s" % (
            what, b, model[:160], impl[:160]),
            {"correspondence": "model/JsonString.v against " + what, "jsonkey_bytes": C.hx(b), "model": model, "impl": impl}))

    # (a) json_quote / valid_utf8 / json_unquote against json.Marshal / utf8.ValidString / json.Unmarshal
    model = C.run_sharded("modelrun", None, ["jsonkey " + h for h in hexes])
    impl = C.run_sharded("harness", "fn", ["jsonkey " + h for h in hexes])
    n_escaped = n_invalid = 0
    by_text = {}
    for (origin, b), m, i in zip(strings, model, impl):
        if m != i:
            mismatch("json.Marshal(string) / utf8.ValidString / json.Unmarshal", b, m, i)
            continue
        text, valid, back = i.split(" ")
        if C.unhx(text) != b'"' + b + b'"':
            n_escaped += 1
            res.nontrivial(("jsonkey", b))
        if valid == "0":
            n_invalid += 1
        by_text.setdefault(text, []).append((b, valid))
    # what the theorems say, looked at on the implementation's own output: different valid UTF-8 strings have
    # different texts (json_quote_injective_on_valid_utf8), the text is read back as the string
    # (json_unquote_quote); texts shared by strings that are not valid UTF-8 are the recorded finding
    collapsing = mixed = 0
    for text, group in by_text.items():
        valid_ones = [b for b, v in group if v == "1"]
        if len(valid_ones) > 1:
            clause_bad.append(("no repeated key in any object: the different valid UTF-8 strings %r and %r have the one JSON text %r "
                               "(theorem json_quote_injective_on_valid_utf8 does not hold of encoding/json)" % (valid_ones[0], valid_ones[1], C.unhx(text)),
                               {"jsonkey_bytes": C.hx(valid_ones[0]), "other": C.hx(valid_ones[1]), "text": text}))
        if len(group) > 1:
            collapsing += len(group)
            mixed += 1 if valid_ones else 0
    for (origin, b), i in zip(strings, impl):
        parts = i.split(" ")
        if len(parts) == 3 and parts[1] == "1" and C.unhx(parts[2] if parts[2] != "!" else "-") != b:
            clause_bad.append(("valid JSON: the text json.Marshal writes for the valid UTF-8 string %r is read back as %s" % (b, parts[2]),
                               {"jsonkey_bytes": C.hx(b), "impl": i}))
    # (b) decode_rune against utf8.DecodeRuneInString
    dec = [h for h, (_, b) in zip(hexes, strings) if len(b) <= 5]
    dm = C.run_sharded("modelrun", None, ["decoderune " + h for h in dec])
    di = C.run_sharded("harness", "fn", ["decoderune " + h for h in dec])
    for h, m, i in zip(dec, dm, di):
        if m != i:
            mismatch("utf8.DecodeRuneInString", C.unhx(h), m, i)
    # (c) the library's own collections inside Catalog.ToJson / ToJsonIndent
    cat = C.run_sharded("harness", "fn", ["jsonkeycat " + h for h in hexes])
    n_cat = 0
    for (origin, b), m, c in zip(strings, model, cat):
        want = m.split(" ")[0]
        parts = c.split(" ")
        if parts[0] != "ok" or len(parts) != 6:
            mismatch("the key of one-entry Servers/UserTypes/UserEnums/Tags/Interactions in Catalog.ToJson (outcome)", b, want, c)
            continue
        n_cat += 5
        for name, got in zip(("servers", "userTypes", "userEnums", "tags", "interactions"), parts[1:]):
            if got != want:
                mismatch("the key of a one-entry catalog.%s in Catalog.ToJson" % name, b, want, got)
    # (d) whole projects
    n_docs = n_acc = n_keys = n_keys_escaped = 0
    per_map = {}
    if only is None:
        docs = jk_documents(strings, rng, quick)
        n_docs = len(docs)
        outs = C.run_sharded("harness", "fn", ["jsonkeyproj " + C.hx(d) for d in docs])
        pairs = []
        for d, o in zip(docs, outs):
            parts = o.split(" ")
            if parts[0] == "rejected":
                continue
            if parts[0] != "ok":
                clause_bad.append(("serialisation succeeds: an accepted document gives %s" % o[:200], {"project": [(C.hx("a.jst"), C.hx(d))], "outcome": o}))
                continue
            n_acc += 1
            for e in parts[1:]:
                letter, go, raw = e.split(":")
                pairs.append((d, letter, go, raw))
        want = C.run_sharded("modelrun", None, ["jsonkey " + go for _, _, go, _ in pairs]) if pairs else []
        for (d, letter, go, raw), m in zip(pairs, want):
            n_keys += 1
            per_map[letter] = per_map.get(letter, 0) + 1
            if C.unhx(raw) != b'"' + C.unhx(go) + b'"':
                n_keys_escaped += 1
                res.nontrivial(("jsonkeyproj", letter, go))
            if m.split(" ")[0] != raw:
                mismatches.append(("JSON key text: the key %r of map %s of an accepted project is written %r, the model writes %r" % (
                    C.unhx(go), letter, C.unhx(raw), C.unhx(m.split(" ")[0])),
                    {"correspondence": "model/JsonString.v against the key text in Catalog.ToJson of a project", "jsonkey_bytes": go,
                     "project": [(C.hx("a.jst"), C.hx(d))], "model": m, "impl": raw}))
    res.count(len(strings) + n_docs)
    origins = {}
    for o, _ in strings:
        origins[o] = origins.get(o, 0) + 1
    res.notes["json_keys"] = {
        "strings": len(strings), "by_origin": origins, "written_with_an_escape": n_escaped, "not_valid_utf8": n_invalid,
        "strings_sharing_their_text_with_another (the recorded finding)": collapsing,
        "shared_texts_with_a_valid_utf8_string_among_them": mixed,
        "decode_rune_compared": len(dec), "catalog_collection_keys_compared": n_cat,
        "project_documents": n_docs, "project_documents_accepted": n_acc, "project_keys_compared": n_keys,
        "project_keys_written_with_an_escape": n_keys_escaped, "project_keys_by_map (S servers T types E enums G tags I interactions)": per_map,
        "mismatches": len(mismatches)}
    return mismatches, clause_bad


# ---------------------------------------------------------------------------------------------

HEXRUN = re.compile(r"(?<![0-9a-f])(?:[0-9a-f]{2})+(?![0-9a-f])")


def coerce_skeleton(skel):
    """the model's skeleton carries the byte strings of the document; the implementation's JSON
    carries what encoding/json makes of them (invalid UTF-8 -> U+FFFD): same transformation here"""
    return HEXRUN.sub(lambda m: go_coerce(bytes.fromhex(m.group(0))).encode("utf-8").hex(), skel)


def compare_chunked(projects, n=16):
    if not projects:
        return []
    n = max(1, min(n, len(projects) // 20 or 1))
    idx = [list(range(i, len(projects), n)) for i in range(n)]
    with cf.ThreadPoolExecutor(n) as ex:
        outs = list(ex.map(lambda ii: K.compare_full([projects[k] for k in ii], "out=both", keep_impl=True), idx))
    recs = [None] * len(projects)
    for ii, rr in zip(idx, outs):
        for k, r in zip(ii, rr):
            if r["kind"] == "skel-diff":
                sm, dm = P.parse(r["model_out"])
                if coerce_skeleton(C.unhx(dm["skel"]).decode("latin1")) == r["skel"]:
                    r["kind"] = "same-modulo-utf8-coercion"
            r.pop("model_out", None)
            recs[k] = r
    return recs


def run(res, tier, seed, replay):
    os.environ.setdefault("VERIF_HARNESS", os.path.join(C.TOOLS, "harness"))
    pr = C.prepare("C09", res, need_gens=("tables", "scanner", "typing", "tagname"))
    rng = random.Random(seed)
    quick = tier == "quick"
    res.coverage["rule"] = (
        "projects: every testdata/**/*.jst with the files it INCLUDEs; directive-kind sequences (templates of complete documents "
        "with random insertions/deletions, and random sequences); stress documents pairing paths / JSON-RPC method names / type, "
        "enum, server, tag names / titles containing spaces, quotes, escapes, non-ASCII and invalid UTF-8; every project runs "
        "NewJapi+ValidateJAPI+ToJson+ToJsonIndent+Title and the full model pipeline; on every ACCEPTED project the Python "
        "statement of C09 is evaluated on the implementation's two JSON texts; non-trivial = accepted with >= 1 interaction; "
        "distinct by project hash; and (stage_json_keys) byte strings: all strings up to length 3 over an alphabet of the bytes the JSON "
        "string writer treats specially and of the pieces of multi-byte sequences, every single byte, every pair of bytes, sequences of "
        "tokens (2-4 byte sequences at the borders of the UTF-8 ranges, overlong, surrogate, out of range, cut short, U+2028/9, U+FFFD, "
        "escape look-alikes), random strings of tokens, bytes and code points up to 40 bytes: each through json.Marshal, utf8.ValidString, "
        "json.Unmarshal, one-entry collections in Catalog.ToJson/ToJsonIndent, and as path / method name / declaration name of one-file "
        "projects; non-trivial there = the text is not the bytes between two quotes")
    if not (pr.harness_ok and pr.model_ok):
        res.violation("build failed: " + (pr.harness_err or pr.model_err)[-800:], {"obligation": "build"}, found_input=False)
        return
    # ---- (iv) the JSON text of keys
    only = None
    if replay:
        r = json.load(open(replay))
        if "jsonkey_bytes" in r and "project" not in r:
            only = [C.unhx(r["jsonkey_bytes"])] + ([C.unhx(r["other"])] if "other" in r else [])
    jk_mismatches, jk_clauses = stage_json_keys(res, rng, quick, only)
    for msg, rp_ in jk_clauses:
        res.violation("C09 clause violated by the implementation: " + msg, rp_)
    if only is not None:
        for msg, rp_ in jk_mismatches[:1]:
            res.violation(msg, rp_, found_input=False)
        return
    # ---- inputs
    projects = []       # (origin, project)
    if replay:
        r = json.load(open(replay))
        projects.append(("replay", [(C.unhx(n).decode("latin1"), C.unhx(c)) for n, c in r["project"]]))
    else:
        for f in S.fixture_files():
            projects.append(("fixture:" + os.path.relpath(f, C.REPO), project_of(f)))
        for s in sequence_documents(rng, quick):
            projects.append(("sequence", [("a.jst", K.render_items(s))]))
        for cls, d in stress_documents(rng, quick):
            projects.append(("stress:" + cls, [("a.jst", d)]))
    size = [sum(len(c) for _, c in pj) for _, pj in projects]
    limit = QUICK_MODEL_BYTES if quick else 10 ** 9
    small = [k for k in range(len(projects)) if size[k] <= limit]
    big = [k for k in range(len(projects)) if size[k] > limit]
    # ---- (i) correspondence, and the implementation's outputs
    recs = [None] * len(projects)
    if quick or replay:
        for k, r in zip(small, compare_chunked([projects[k][1] for k in small])):
            recs[k] = r
    else:
        # large documents are slow in the extracted model: one process each, bounded
        normal = [k for k in small if size[k] <= 6000]
        slow = [k for k in small if size[k] > 6000]
        for k, r in zip(normal, compare_chunked([projects[k][1] for k in normal])):
            recs[k] = r

        def one(k):
            try:
                return compare_chunked([projects[k][1]], 1)[0]
            except Exception as e:  # noqa: timeouts of the model on very large documents
                return {"kind": "model-timeout", "impl_out": None, "why": repr(e)[:100]}
        with cf.ThreadPoolExecutor(8) as ex:
            for k, r in zip(slow, ex.map(one, slow)):
                recs[k] = r
    impl_only = [k for k in range(len(projects)) if recs[k] is None or recs[k].get("impl_out") is None]
    if impl_only:
        outs = C.run_sharded("harness", "fn", [P.run_line("out=both", projects[k][1]) for k in impl_only])
        for k, o in zip(impl_only, outs):
            recs[k] = {"kind": (recs[k] or {}).get("kind", "not-compared"), "impl_out": o}
    res.count(len(projects))
    n_compared = sum(1 for r in recs if r["kind"] in ("same", "same-modulo-utf8-coercion", "library", "skel-diff", "verdict-diff", "err-diff"))
    res.coverage["traces_validated_against_impl"] = n_compared
    corr_bad = [k for k, r in enumerate(recs) if r["kind"] in ("skel-diff", "verdict-diff", "err-diff")]
    kinds = {}
    for r in recs:
        kinds[r["kind"]] = kinds.get(r["kind"], 0) + 1
    # ---- (ii) the statement on every accepted project
    spec_bad = []
    known_hits = {"rpc-id-space": [], "invalid-utf8-key": []}
    verdicts = {}
    by_origin = {}
    totals = {"interactions": 0, "tags": 0, "bodies": 0, "used_names": 0}
    for k, ((origin, pj), r) in enumerate(zip(projects, recs)):
        st, d = P.parse(r["impl_out"])
        verdicts[st] = verdicts.get(st, 0) + 1
        o = origin.split(":")[0] + (":" + origin.split(":")[1] if origin.startswith("stress") else "")
        by_origin.setdefault(o, {"n": 0, "accepted": 0})
        by_origin[o]["n"] += 1
        if st in ("panic", "jsonerr", "harness-error", "loaderr"):
            spec_bad.append((k, "serialisation succeeds", "outcome %s %s" % (st, C.unhx(d.get("msg", "-"))[:200])))
            continue
        if st != "ok":
            continue
        by_origin[o]["accepted"] += 1
        compact, indent, title = C.unhx(d["json"]), C.unhx(d.get("indent", "-")), C.unhx(d.get("title", "-"))
        bad, dup_sites, facts = statement(compact, indent, title)
        for key in totals:
            totals[key] += facts[key]
        if facts["interactions"]:
            res.nontrivial(("ok", tuple(pj)))
        for clause, detail in bad:
            spec_bad.append((k, clause, detail))
        if dup_sites:
            v_pairs, _ = SK.parse_pairs(compact.decode("utf-8", "replace"))
            for site in dup_sites:
                cls = classify_dup(v_pairs, site, pj[0][1] if isinstance(pj[0][1], bytes) else pj[0][1].encode("latin1"))
                if cls is None:
                    spec_bad.append((k, "no repeated key in any object", "key %r is repeated in object /%s" % (site[1], "/".join(map(str, site[0])))))
                else:
                    known_hits[cls].append((k, site[1]))
    res.notes["input_distribution"] = {
        "projects": len(projects), "by_origin": by_origin, "implementation_verdicts": verdicts,
        "correspondence_kinds": kinds, "not_run_through_the_model_in_this_tier": len(big),
        "checked_in_accepted_documents": totals,
        "known_class_hits": {c: len(h) for c, h in known_hits.items()}}
    for k in (0, len(projects) // 2, len(projects) - 1):
        origin, pj = projects[k]
        c0 = pj[0][1]
        res.sample({"origin": origin, "root": (c0 if isinstance(c0, str) else c0.decode("latin1"))[:120], "impl": recs[k]["impl_out"][:80], "corr": recs[k]["kind"]})

    def rp(k, extra=None):
        origin, pj = projects[k]
        d = {"origin": origin, "project": [(C.hx(n), C.hx(c)) for n, c in pj]}
        d.update(extra or {})
        return d

    # ---- verdict
    known_ids = {f.get("id") for f in C.load_known().get("findings", []) if f.get("property") == "C09"}
    for cls, kid, thm in (("rpc-id-space", KNOWN_RPC, "json_keys_unique_refuted"), ("invalid-utf8-key", KNOWN_UTF8, "keys_unique (byte level), json_text_keys_unique_refuted")):
        hits = known_hits[cls]
        if not hits:
            continue
        k, key = min(hits, key=lambda h: len(projects[h[0]][1][0][1]))
        root = projects[k][1][0][1]
        msg = "id=%s class=%s theorem=%s documents=%d smallest: %r -> the key %r occurs twice in \"interactions\"" % (
            kid, cls, thm, len({h[0] for h in hits}), root if isinstance(root, bytes) else root.encode("latin1"), key)
        if kid in known_ids:
            res.known.append(msg)
        else:
            res.violation("no repeated key in any object: " + msg, rp(k, {"class": cls, "key": key}))
    seen_clause = set()
    for k, clause, detail in spec_bad:
        if clause in seen_clause:
            continue
        seen_clause.add(clause)
        n = sum(1 for x in spec_bad if x[1] == clause)
        res.violation("C09 clause violated by the implementation: %s: %s (%d occurrences; origin %s)" % (clause, detail, n, projects[k][0]),
                      rp(k, {"clause": clause, "detail": detail}))
    if res.violations:
        return
    if not pr.proof_ok:
        res.violation("proof obligation no longer checks: %s" % pr.proof_err,
                      {"obligation": pr.proof_err, "theorems": pr.theorems}, found_input=False)
        return
    if jk_mismatches:
        msg, rp_ = jk_mismatches[0]
        res.violation(msg + " (%d disagreements; no violated clause of the property was found in the implementation's output)" % len(jk_mismatches),
                      rp_, found_input=False)
        return
    if corr_bad:
        k = corr_bad[0]
        r = recs[k]
        res.violation("catalog model and implementation disagree (%s) on %s (%d disagreements): %s; impl=%s model=%s; no violated clause of "
                      "the property was found in the implementation's output" % (
                          r["kind"], projects[k][0], len(corr_bad), r.get("first_diff") or r.get("impl_msg") or "", r["impl"][:160], r["model"][:160]),
                      rp(k, {"correspondence": "full pipeline: catalog skeleton / diagnostic"}), found_input=False)
