"""C20 - Locality: adding/removing an independent declaration affects only its own entry.

Obligations: props/C20.v (an unused macro is inert; a fresh declaration appended to an accepted forest adds exactly its
entry on the catalog model).  Exploration: generated API models x one fresh declaration of a random kind (type, enum,
server, tag, method on an unrelated path) at a random insertion point, one removal of an unreferenced declaration, one
unused macro; the implementation must accept and every other catalog entry must be byte-identical."""
import re

from .. import common as C
from .. import genprop as GP

KNOWN_REGEX = "C20/regex-example-depends-on-neighbours"
KNOWN_USED = "C20/allof-chain-usedUserTypes"


def take(prop, cls):
    return prop in ("C20", "C07/C20")


def known_rule(cls, what, doc):
    m = re.search(r"\(([^()]*)\)\s*$", cls)
    if m and "verdict" not in cls:
        parts = [p.strip() for p in m.group(1).split(";")]
        if parts and all(p.endswith(": usedUserTypes") for p in parts) and doc.count("allOf") >= 2:
            return KNOWN_USED
        if parts and all(p.endswith(": example-regex") or p.endswith(": usedUserTypes") for p in parts):
            return KNOWN_REGEX if any(p.endswith(": example-regex") for p in parts) else None
    return None


def run(res, tier, seed, replay):
    pr = C.prepare("C20", res, need_gens=("tables", "scanner", "typing", "tagname"))
    res.coverage["rule"] = ("generated API models x {a fresh type / enum / server / tag / method on an unrelated path inserted at a random "
                            "point between the top-level blocks, removal of one declaration nothing refers to, an unused macro}; compared: "
                            "verdict, every other catalog entry byte for byte, relative order of the old entries, presence of the new entry "
                            "and its automatic tag; non-trivial = every generated model; distinct by model")
    if not pr.harness_ok:
        res.violation("build failed: " + pr.harness_err[-800:], {"obligation": "build"}, found_input=False)
        return
    # directed: a fresh method on an unrelated path that USES existing declarations (a type as its Path body, as its query,
    # headers, request and response; an enum; a macro pasted by an existing block) at every insertion point: the entries of the
    # things it uses - and every other entry - stay byte for byte what they were
    from ..gendoc import expect as E
    from .. import proj as P
    J = "JSIGHT 0.3\n"
    base_blocks = [
        "TYPE @petKey\n  {\n    \"id\": 1 // {optional: true}\n  }\n",
        "TYPE @flags\n  {\n    \"a\": \"x\", // {optional: true}\n    \"b\": 2 // {min: 1}\n  }\n",
        "ENUM @kind\n  [\"cat\", \"dog\"]\n",
        "TYPE @pet\n  {\n    \"key\": @petKey,\n    \"kind\": \"cat\" // {enum: @kind}\n  }\n",
        "MACRO @errors\n(\n  404 any\n)\n",
        "GET /cats\n  200 @pet\n  PASTE @errors\n",
        "URL /cats/{n}\n  Path\n    {\n      \"n\": 1\n    }\n  GET\n    200 [@pet]\n",
        "GET /pet/store/{storeId}\n  200 any\n",
    ]
    fresh_blocks = [
        ("method with Path given as a body that refers to the type", "GET /zebras/{id}\n  Path\n    @petKey\n  200 any\n", ["http GET /zebras/{id}"], ["@zebras"]),
        ("method with two-parameter Path @flags", "PUT /zebras/{a}/{b}\n  Path\n    @flags\n  200 any\n", ["http PUT /zebras/{a}/{b}"], ["@zebras"]),
        ("method using @flags as query and headers", "POST /zebras\n  Query\n    @flags\n  Request\n    Headers\n      @flags\n    Body @pet\n  200 @petKey\n",
         ["http POST /zebras"], ["@zebras"]),
        ("URL block pasting @errors", "URL /zebras\n  GET\n    200 @pet\n    PASTE @errors\n  DELETE\n    PASTE @errors\n    204 any\n", ["http GET /zebras", "http DELETE /zebras"], ["@zebras"]),
        ("method whose path segments spell the prefix of an existing path", "GET /petstore/{code}\n  200 any\n", ["http GET /petstore/{code}"], ["@petstore"]),
        ("method whose first segment extends an existing first segment", "GET /catsitters\n  200 any\n", ["http GET /catsitters"], ["@catsitters"]),
        ("method whose first segment is a prefix of an existing one", "DELETE /cat\n  204 any\n", ["http DELETE /cat"], ["@cat"]),
        ("TAG whose title is spelled like the title of an automatic path tag", "TAG @archive // /cats\n", [], ["@archive"]),
        ("TAG named like nothing, titled like a type", "TAG @other // @pet\n", [], ["@other"]),
        ("type inheriting from @flags and @petKey", "TYPE @fresh\n  { // {allOf: [\"@flags\", \"@petKey\"]}\n    \"z\": 1\n  }\n", [], []),
        ("JSON-RPC method using the types", "URL /zebras\n  Protocol json-rpc-2.0\n  Method feed\n    Params\n      @flags\n    Result\n      [@pet]\n", ["json-rpc-2.0 feed /zebras"], ["@zebras"]),
    ]
    base_doc = J + "".join(base_blocks)
    o0 = C.run_lines("harness", "fn", [P.run_line("out=json", [("a.jst", base_doc.encode())])])[0]
    s0, d0 = P.parse(o0)
    dcases = []
    for label, blk, new_inter, new_tags in fresh_blocks:
        for pos in range(len(base_blocks) + 1):
            dcases.append((label, pos, J + "".join(base_blocks[:pos]) + blk + "".join(base_blocks[pos:]), new_inter, new_tags))
    outs_d = C.run_sharded("harness", "fn", [P.run_line("out=json", [("a.jst", d.encode())]) for _, _, d, _, _ in dcases])
    res.count(len(dcases) + 1)
    if s0 != "ok":
        res.violation("the base document of the directed stage is rejected: %s" % o0[:200], {"doc": C.hx(base_doc.encode())})
        return
    j0 = C.unhx(d0["json"])
    n_dir = 0
    for (label, pos, doc, new_inter, new_tags), o in zip(dcases, outs_d):
        st, dd = P.parse(o)
        if st != "ok":
            res.violation("a declaration is not local: adding a fresh %s at position %d of the base document changes the verdict: %s" % (
                label, pos, C.unhx(dd.get("msg", "-")).decode("latin1")[:120]), {"doc": C.hx(doc.encode()), "base": C.hx(base_doc.encode())})
            return
        ds = E.compare_entries(j0, C.unhx(dd["json"]), extra_in_b={"interactions": new_inter, "tags": new_tags, "userTypes": ["@fresh"]})
        ds = [x for x in ds if not (x["class"] in ("example",))]
        if ds:
            res.violation("a declaration is not local: a fresh %s at position %d changes another entry: %s" % (label, pos, "; ".join(x["text"][:300] for x in ds[:3])),
                          {"doc": C.hx(doc.encode()), "base": C.hx(base_doc.encode())})
            return
        n_dir += 1
        res.nontrivial(("directed-fresh", label, pos))
    res.notes["directed_fresh_declarations"] = {"cases": len(dcases), "unchanged_old_entries": n_dir}
    last, bad = GP.run(res, "C20", tier, seed, replay, pr, take, known_rule)
    for msg, rp, found in bad:
        res.violation("a declaration is not local: " + msg, rp, found_input=found)
    if bad:
        return
    if not pr.proof_ok:
        res.violation("proof obligation no longer checks: %s" % pr.proof_err, {"obligation": pr.proof_err, "theorems": pr.theorems}, found_input=False)
